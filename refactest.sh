#!/bin/bash
# usage: refactest.sh <n>  -- run every obligation against each behaviour-preserving refactoring produced by
# refactor agent <n> (/tmp/refac_<n>/OUT/refactor_*.diff); expected: no violation. Patches are applied to /repo
# and undone straight afterwards.
N=$1
for d in /tmp/refac_$N/OUT/refactor_*.diff; do
  [ -s "$d" ] || { echo "EMPTY $d"; continue; }
  out=$(/verif/seedtest.sh "$d" 2>&1)
  v=$(echo "$out" | grep -E "^[A-Z]+\.[a-z_.]+ " | head -5)
  if echo "$out" | grep -q "does not compile\|does not apply\|local changes"; then echo "ERROR    $(basename $d): $(echo "$out" | head -2 | tr '\n' ' ')"; continue; fi
  if [ -z "$v" ]; then echo "silent   $(basename $d)"; else echo "ALARM    $(basename $d)"; echo "$v" | cut -c1-260; fi
done
