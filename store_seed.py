#!/usr/bin/env python3
"""store_seed.py <Cxx> <slug> <detected_by> <initially: caught|missed> -- copy an agent's confirmed seed into /verif/seeded/"""
import json, os, shutil, subprocess, sys
pid, slug, det, initial = sys.argv[1:5]
R = sys.argv[5] if len(sys.argv) > 5 else ""
PROP = sys.argv[6] if len(sys.argv) > 6 else pid
src = "/tmp/seed%s_%s/OUT" % (R, pid)
dst = "/verif/seeded/%s-%s%s" % (PROP, "r%s-" % R if R else "", slug)
os.makedirs(dst, exist_ok=True)
for n in os.listdir(src):
    shutil.copy(os.path.join(src, n), os.path.join(dst, n))
log = open("/tmp/confirm%s_%s.log" % (R, pid)).read() if os.path.exists("/tmp/confirm%s_%s.log" % (R, pid)) else ""
res = [l for l in log.splitlines() if l.startswith("---") or l.startswith("test result") or "panicked" in l or "patch.diff matches" in l or l.startswith("targets=")]
notes = open(os.path.join(src, "notes.md")).read()
meta = {
    "property": PROP,
    "origin": "independent sub-agent given only the property text and a scratch worktree of /repo",
    "patch": "patch.diff",
    **({"refactoring_alone": "refactor_only.diff (behaviour-preserving half; every obligation must stay silent on it)"} if os.path.exists(os.path.join(src, "refactor_only.diff")) else {}),
    "demonstration": [n for n in os.listdir(src) if n.endswith(".rs")],
    "needs_to_manifest": notes[:1500],
    "confirmed_by_me": {
        "how": ("confirm_seed8.sh in the agent's scratch worktree: patch.diff identical to the worktree diff; cargo test --workspace with refactoring+bug (all pre-existing targets ok) and with the refactoring alone (all ok); demo fails with refactoring+bug, passes on the original code and with the refactoring alone" if R in ("8", "9", "11", "14", "16") else
                "confirm_seed.sh in the agent's scratch worktree: cargo test --workspace (all pre-existing targets ok), demo with the change (fails), demo after `git checkout -- src proto` (passes), patch.diff identical to the worktree diff"),
        "log_excerpt": res,
    },
    "checks": {"detected_by": det.split(","), "first_run": initial,
               "how": "seedtest.sh: git -C /repo apply patch.diff; export facts; run every obligation; git -C /repo checkout -- ."},
}
json.dump(meta, open(os.path.join(dst, "meta.json"), "w"), indent=1)
print("stored", dst)
