// Demonstration for finding F4 (C06): a single voter (its own vote is the quorum) with a learner becomes
// leader inside the very step that raised its term and recorded its vote. RawNode::ready() then handed its
// first MsgAppend (to the learner, stamped with the new term) out as an *immediate* message of the same
// Ready that first carries HardState{term, vote}: the message leaves before the promise it depends on is
// durable. A crash before the write and a second self-election reuse the term, and the learner then holds
// entries of an (index, term) the re-elected leader may fill differently.
use raft::eraftpb::*;
use raft::storage::MemStorage;
use raft::*;
use slog::{o, Logger};

#[test]
fn leader_messages_wait_for_the_hard_state_they_depend_on() {
    let logger = Logger::root(slog::Discard, o!());
    let cfg = Config { id: 1, election_tick: 10, heartbeat_tick: 1, max_inflight_msgs: 256, ..Default::default() };
    // voters {1}, learners {2}
    let s = MemStorage::new_with_conf_state((vec![1], vec![2]));
    let mut n = RawNode::new(&cfg, s, &logger).unwrap();
    n.campaign().unwrap();
    assert_eq!(n.raft.state, StateRole::Leader, "a single voter elects itself at once");
    assert!(n.has_ready());
    let rd = n.ready();
    let hs = rd.hs().expect("the Ready carries the new term and vote").clone();
    assert_eq!((hs.term, hs.vote), (1, 1));
    assert!(rd.must_sync());
    // nothing has been persisted yet: no message stamped with the new term may be sendable now
    let early: Vec<_> = rd.messages().iter().filter(|m| m.term == hs.term).map(|m| (m.get_msg_type(), m.to)).collect();
    assert!(
        early.is_empty(),
        "C06 violated: messages of term {} are released before HardState{{term: {}, vote: {}}} is persisted: {:?}",
        hs.term, hs.term, hs.vote, early
    );
    // they are handed out for sending after the write instead
    assert!(rd.persisted_messages().iter().any(|m| m.get_msg_type() == MessageType::MsgAppend && m.to == 2));
}
