// Demonstration for finding F2 (C19): MemStorage::entries(low, high) with the empty range
// low == high == first_index() on a storage that holds no entries (fresh, or fully covered by a
// snapshot) passes both range checks and then indexes `core.entries[0]` on an empty vector.
// The sequence model answers an empty range with an empty result.
use raft::eraftpb::*;
use raft::storage::MemStorage;
use raft::{GetEntriesContext, Storage};

#[test]
fn empty_range_on_empty_storage_is_empty() {
    let s = MemStorage::new();
    let first = s.first_index().unwrap();
    assert_eq!(first, s.last_index().unwrap() + 1);
    let r = s.entries(first, first, None, GetEntriesContext::empty(false));
    assert_eq!(r.unwrap(), Vec::<Entry>::new());
}

#[test]
fn empty_range_after_snapshot_is_empty() {
    let s = MemStorage::new();
    let mut snap = Snapshot::default();
    snap.mut_metadata().index = 5;
    snap.mut_metadata().term = 2;
    s.wl().apply_snapshot(snap).unwrap();
    let first = s.first_index().unwrap();
    assert_eq!(first, 6);
    let r = s.entries(first, first, None, GetEntriesContext::empty(false));
    assert_eq!(r.unwrap(), Vec::<Entry>::new());
}
