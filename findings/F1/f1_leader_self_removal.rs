// Demonstration for finding F1 (C20): a leader that applies its own removal and then receives an
// append acknowledgement panics at `prs.get_mut(self_id).unwrap()` in Raft::maybe_commit.
// Place in harness/tests/ (see run.sh). Everything here is within the documented RawNode contract.
use raft::eraftpb::*;
use raft::storage::MemStorage;
use raft::*;
use slog::{o, Logger};

fn logger() -> Logger {
    Logger::root(slog::Discard, o!())
}

fn new_node(id: u64, voters: Vec<u64>) -> RawNode<MemStorage> {
    let cfg = Config { id, election_tick: 10, heartbeat_tick: 1, max_inflight_msgs: 256, ..Default::default() };
    let s = MemStorage::new_with_conf_state((voters, vec![]));
    RawNode::new(&cfg, s, &logger()).unwrap()
}

// persist + advance one Ready the way an application does; returns the messages to send
fn drive(n: &mut RawNode<MemStorage>) -> (Vec<Message>, Vec<Entry>) {
    let mut msgs = vec![];
    let mut committed = vec![];
    while n.has_ready() {
        let mut rd = n.ready();
        msgs.extend(rd.take_messages());
        if !rd.snapshot().is_empty() {
            n.mut_store().wl().apply_snapshot(rd.snapshot().clone()).unwrap();
        }
        committed.extend(rd.take_committed_entries());
        if !rd.entries().is_empty() {
            n.mut_store().wl().append(rd.entries()).unwrap();
        }
        if let Some(hs) = rd.hs() {
            n.mut_store().wl().set_hardstate(hs.clone());
        }
        msgs.extend(rd.take_persisted_messages());
        let mut light = n.advance(rd);
        msgs.extend(light.take_messages());
        committed.extend(light.take_committed_entries());
        n.advance_apply();
    }
    (msgs, committed)
}

#[test]
fn leader_removed_then_ack_must_not_panic() {
    let mut n1 = new_node(1, vec![1, 2, 3]);
    // become leader of {1,2,3}
    n1.campaign().unwrap();
    let (msgs, _) = drive(&mut n1);
    let term = n1.raft.term;
    for m in msgs {
        if m.get_msg_type() == MessageType::MsgRequestVote {
            let mut r = Message::default();
            r.set_msg_type(MessageType::MsgRequestVoteResponse);
            r.from = m.to;
            r.to = 1;
            r.term = term;
            n1.step(r).unwrap();
        }
    }
    drive(&mut n1);
    assert_eq!(n1.raft.state, StateRole::Leader);
    // acknowledge the leader's empty entry from node 2 so that it commits
    let ack = |from: u64, index: u64, term: u64| {
        let mut r = Message::default();
        r.set_msg_type(MessageType::MsgAppendResponse);
        r.from = from;
        r.to = 1;
        r.term = term;
        r.index = index;
        r
    };
    let li = n1.raft.raft_log.last_index();
    n1.step(ack(2, li, term)).unwrap();
    drive(&mut n1);
    // propose remove(1) at k and a normal entry at k+1
    let mut cc = ConfChange::default();
    cc.set_change_type(ConfChangeType::RemoveNode);
    cc.node_id = 1;
    n1.propose_conf_change(vec![], cc.clone()).unwrap();
    n1.propose(vec![], b"x".to_vec()).unwrap();
    let k = n1.raft.raft_log.last_index() - 1;
    drive(&mut n1);
    // node 2 acknowledges k: the conf change commits, the application applies it
    n1.step(ack(2, k, term)).unwrap();
    let (_, committed) = drive(&mut n1);
    assert!(committed.iter().any(|e| e.get_entry_type() == EntryType::EntryConfChange));
    n1.apply_conf_change(&cc).unwrap();
    assert_eq!(n1.raft.state, StateRole::Leader); // a removed leader keeps leading (documented TODO)
    drive(&mut n1);
    // node 2 acknowledges k+1: quorum of {2,3} needs 2 acks -> also node 3
    n1.step(ack(3, k + 1, term)).unwrap();
    n1.step(ack(2, k + 1, term)).unwrap(); // panics here before the fix
    drive(&mut n1);
    assert_eq!(n1.raft.raft_log.committed, k + 1);
}
