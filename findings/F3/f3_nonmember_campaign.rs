// Demonstration for finding F3 (C20): a node whose id is not tracked by its own configuration
// (it was removed, or restarted from a ConfState that does not list it) on which the application
// calls campaign() panics in become_leader (`prs.get_mut(self.id).unwrap()`) once a majority grants.
use raft::eraftpb::*;
use raft::storage::MemStorage;
use raft::*;
use slog::{o, Logger};

#[test]
fn non_member_campaign_must_not_panic() {
    let logger = Logger::root(slog::Discard, o!());
    let cfg = Config { id: 4, election_tick: 10, heartbeat_tick: 1, max_inflight_msgs: 256, ..Default::default() };
    let s = MemStorage::new_with_conf_state((vec![1, 2, 3], vec![]));
    let mut n = RawNode::new(&cfg, s, &logger).unwrap();
    n.campaign().unwrap();
    let term = n.raft.term;
    for from in [1u64, 2u64] {
        let mut r = Message::default();
        r.set_msg_type(MessageType::MsgRequestVoteResponse);
        r.from = from;
        r.to = 4;
        r.term = term;
        let _ = n.step(r); // second grant: Won -> become_leader -> unwrap on None
    }
}
