#!/bin/bash
# For every stored seeded change: apply it to /repo, run the REGISTERED quick check of its property,
# expect exit 1 + a VIOLATION line, and undo the change. Prints one line per seed.
cd /repo || exit 2
git diff --quiet || { echo "/repo has local changes"; exit 2; }
rc=0
touched=""
for d in /verif/seeded/*/; do
  p=$(python3 -c "import json;print(json.load(open('$d/meta.json'))['property'])")
  git apply "$d/patch.diff" || { echo "$(basename $d): patch does not apply"; rc=1; continue; }
  out=$(cd /verif && ./check $p 2>&1); code=$?
  case " $touched " in *" $p "*) ;; *) touched="$touched $p";; esac
  git -C /repo checkout -- .
  n=$(echo "$out" | grep -c "^VIOLATION property=$p")
  if [ $code -eq 1 ] && [ $n -ge 1 ]; then echo "$(basename $d): DETECTED by ./check $p ($n violation lines: $(echo "$out" | grep -A1 '^VIOLATION' | grep -v VIOLATION | grep -v '^--' | awk '{print $1}' | sort -u | tr '\n' ' '))"; else echo "$(basename $d): MISSED by ./check $p (exit $code)"; rc=1; fi
done
# restore evidence/facts for the unchanged tree
for p in $touched; do (cd /verif && ./check $p > /dev/null); done
exit $rc
