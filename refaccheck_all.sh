#!/bin/bash
# Every stored behaviour-preserving refactoring (/verif/refactors/*/refactor_*.diff, written by independent
# sub-agents who saw nothing of /verif and confirmed the full suite passes) must leave every obligation silent.
# So must the refactoring half (refactor_only.diff) of every round-8 seed (a refactoring with a bug hidden in it).
# Each patch is applied to /repo and undone straight afterwards.
rc=0
for d in /verif/refactors/*/refactor_*.diff /verif/seeded/*/refactor_only.diff; do
  out=$(/verif/seedtest.sh "$d" 2>&1)
  name=$(basename $(dirname $d))/$(basename $d)
  if echo "$out" | grep -q "does not compile\|does not apply\|local changes"; then echo "ERROR    $name: $(echo "$out" | head -2 | tr '\n' ' ')"; rc=1; continue; fi
  v=$(echo "$out" | grep -E "^[A-Z]+\.[A-Za-z_.]+ " | head -4)
  if [ -z "$v" ]; then echo "silent   $name"; else echo "ALARM    $name"; echo "$v" | cut -c1-240; rc=1; fi
done
exit $rc
