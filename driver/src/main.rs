// mirfacts: a rustc_private driver that exports the type-checked program (MIR at opt-level 0,
// ADT tables, function table) of selected crates as JSON facts for the raftlint rule engine.
//
// Used as RUSTC_WORKSPACE_WRAPPER under `cargo +nightly check`. It never runs the analysed code.
//
// Environment:
//   MIRFACTS_OUT     directory to write <crate>.json into (required to export)
//   MIRFACTS_CRATES  comma separated crate names to export (default: raft,raft_proto)
//   MIRFACTS_NONCE   opaque string echoed into the facts
#![feature(rustc_private)]
#![allow(clippy::all)]

extern crate rustc_abi;
extern crate rustc_data_structures;
extern crate rustc_driver;
extern crate rustc_hir;
extern crate rustc_index;
extern crate rustc_interface;
extern crate rustc_middle;
extern crate rustc_session;
extern crate rustc_span;

use rustc_driver::Compilation;
use rustc_hir::def::DefKind;
use rustc_hir::def_id::{DefId, LocalDefId};
use rustc_middle::mir::{
    self, AggregateKind, BasicBlockData, Body, Const, ConstValue, Operand, Place, PlaceElem,
    Rvalue, StatementKind, TerminatorKind, UnwindAction, VarDebugInfoContents,
};
use rustc_middle::ty::print::{with_no_trimmed_paths, with_no_visible_paths, with_resolve_crate_name};
use rustc_middle::ty::{self, Instance, Ty, TyCtxt, TypeVisitableExt, TypingEnv};
use rustc_span::Span;
use std::collections::BTreeMap;
use std::fmt::Write as _;

mod json;
use json::J;

struct Cb {
    out_dir: String,
    nonce: String,
}

impl rustc_driver::Callbacks for Cb {
    fn after_analysis<'tcx>(
        &mut self,
        _compiler: &rustc_interface::interface::Compiler,
        tcx: TyCtxt<'tcx>,
    ) -> Compilation {
        if tcx.dcx().has_errors().is_some() {
            return Compilation::Continue;
        }
        let facts = with_resolve_crate_name!(with_no_visible_paths!(with_no_trimmed_paths!(export_crate(tcx, &self.nonce))));
        let name = tcx.crate_name(rustc_hir::def_id::LOCAL_CRATE).to_string();
        let path = format!("{}/{}.json", self.out_dir, name);
        let tmp = format!("{}.tmp{}", path, std::process::id());
        let mut s = String::new();
        facts.write(&mut s);
        std::fs::write(&tmp, s).expect("mirfacts: cannot write facts");
        std::fs::rename(&tmp, &path).expect("mirfacts: cannot rename facts");
        Compilation::Continue
    }
}

struct NoCb;
impl rustc_driver::Callbacks for NoCb {}

fn main() {
    let mut args: Vec<String> = std::env::args().collect();
    // As RUSTC_WORKSPACE_WRAPPER we are invoked as `mirfacts /path/to/rustc <args>`.
    if args.len() > 1 && (args[1].ends_with("rustc") || args[1].ends_with("rustc.exe")) {
        args.remove(1);
    }
    let crate_name = args
        .iter()
        .position(|a| a == "--crate-name")
        .and_then(|i| args.get(i + 1))
        .cloned()
        .unwrap_or_default();
    let wanted = std::env::var("MIRFACTS_CRATES").unwrap_or_else(|_| "raft,raft_proto".into());
    let out_dir = std::env::var("MIRFACTS_OUT").unwrap_or_default();
    let is_test = args.iter().any(|a| a == "--test");
    let export = !out_dir.is_empty()
        && !is_test
        && wanted.split(',').any(|w| w == crate_name)
        && !args.iter().any(|a| a.starts_with("--print"));
    if export {
        let mut cb = Cb { out_dir, nonce: std::env::var("MIRFACTS_NONCE").unwrap_or_default() };
        rustc_driver::run_compiler(&args, &mut cb);
    } else {
        rustc_driver::run_compiler(&args, &mut NoCb);
    }
}

// ---------------------------------------------------------------------------------------------

struct Ctx<'tcx> {
    tcx: TyCtxt<'tcx>,
    files: BTreeMap<String, usize>,
}

impl<'tcx> Ctx<'tcx> {
    fn path(&self, d: DefId) -> String {
        self.tcx.def_path_str(d)
    }

    fn span(&mut self, sp: Span) -> J {
        // Position in user source: walk out of macro expansions to the call site.
        let sm = self.tcx.sess.source_map();
        let mut macros: Vec<J> = Vec::new();
        for ed in sp.macro_backtrace() {
            if let rustc_span::ExpnKind::Macro(_, name) = ed.kind {
                macros.push(J::S(name.to_string()));
            } else if let rustc_span::ExpnKind::Desugaring(k) = ed.kind {
                macros.push(J::S(format!("desugar:{:?}", k)));
            } else if let rustc_span::ExpnKind::AstPass(k) = ed.kind {
                macros.push(J::S(format!("astpass:{:?}", k)));
            }
        }
        let cs = sp.source_callsite();
        let loc = sm.lookup_char_pos(cs.lo());
        let fname = format!("{}", loc.file.name.prefer_local_unconditionally());
        let n = self.files.len();
        let fi = *self.files.entry(fname).or_insert(n);
        J::A(vec![J::I(fi as i128), J::I(loc.line as i128), J::A(macros)])
    }

    fn ty(&self, t: Ty<'tcx>) -> J {
        J::S(format!("{}", t))
    }

    fn adt_of(&self, t: Ty<'tcx>) -> J {
        let mut t = t;
        loop {
            match t.kind() {
                ty::Ref(_, inner, _) => t = *inner,
                ty::RawPtr(inner, _) => t = *inner,
                _ => break,
            }
        }
        match t.kind() {
            ty::Adt(def, _) => J::S(self.path(def.did())),
            ty::Closure(d, _) => J::S(self.path(*d)),
            _ => J::Null,
        }
    }
}

fn export_crate<'tcx>(tcx: TyCtxt<'tcx>, nonce: &str) -> J {
    let mut cx = Ctx { tcx, files: BTreeMap::new() };
    let mut adts: Vec<(String, J)> = Vec::new();
    let mut consts: Vec<(String, J)> = Vec::new();
    let items = tcx.hir_crate_items(());
    for ldid in items.definitions() {
        let did = ldid.to_def_id();
        match tcx.def_kind(did) {
            DefKind::Struct | DefKind::Enum | DefKind::Union => {
                adts.push((cx.path(did), export_adt(&mut cx, ldid)));
            }
            DefKind::Const { .. } | DefKind::AssocConst { .. } => {
                if let Some(j) = export_const_item(&mut cx, ldid) {
                    consts.push((cx.path(did), j));
                }
            }
            DefKind::Trait => {}
            _ => {}
        }
    }
    let mut traits: Vec<(String, J)> = Vec::new();
    for ldid in items.definitions() {
        let did = ldid.to_def_id();
        if tcx.def_kind(did) == DefKind::Trait {
            let mut methods = Vec::new();
            for it in tcx.associated_items(did).in_definition_order() {
                if it.is_fn() {
                    let sig = tcx.fn_sig(it.def_id).instantiate_identity().skip_binder();
                    let inputs: Vec<J> =
                        sig.inputs().iter().map(|t| cx.ty(*t)).collect();
                    methods.push(J::O(vec![
                        ("name".into(), J::S(it.name().to_string())),
                        ("inputs".into(), J::A(inputs)),
                    ]));
                }
            }
            traits.push((cx.path(did), J::O(vec![("methods".into(), J::A(methods))])));
        }
    }

    let mut fns: Vec<(String, J)> = Vec::new();
    let mut n_bodies = 0usize;
    for ldid in tcx.hir_body_owners() {
        let did = ldid.to_def_id();
        let kind = tcx.def_kind(did);
        match kind {
            DefKind::Fn | DefKind::AssocFn | DefKind::Closure => {}
            _ => continue,
        }
        if tcx.is_constructor(did) {
            continue;
        }
        n_bodies += 1;
        let key = fn_key(&cx, did);
        let j = export_fn(&mut cx, ldid, kind);
        fns.push((key, j));
    }
    let mut files: Vec<(usize, String)> = cx.files.iter().map(|(k, v)| (*v, k.clone())).collect();
    files.sort();
    J::O(vec![
        ("crate".into(), J::S(tcx.crate_name(rustc_hir::def_id::LOCAL_CRATE).to_string())),
        ("nonce".into(), J::S(nonce.to_string())),
        ("n_bodies".into(), J::I(n_bodies as i128)),
        ("files".into(), J::A(files.into_iter().map(|(_, f)| J::S(f)).collect())),
        ("adts".into(), J::O(adts)),
        ("consts".into(), J::O(consts)),
        ("traits".into(), J::O(traits)),
        ("fns".into(), J::O(fns)),
    ])
}

fn fn_key<'tcx>(cx: &Ctx<'tcx>, did: DefId) -> String {
    cx.path(did)
}

fn export_const_item<'tcx>(cx: &mut Ctx<'tcx>, ldid: LocalDefId) -> Option<J> {
    let tcx = cx.tcx;
    let did = ldid.to_def_id();
    let generics = tcx.generics_of(did);
    if generics.count() != 0 || generics.parent.is_some() && tcx.generics_of(generics.parent.unwrap()).count() != 0 {
        return None;
    }
    let ty = tcx.type_of(did).instantiate_identity().skip_norm_wip();
    let mut o = vec![("ty".into(), cx.ty(ty))];
    if let Ok(val) = tcx.const_eval_poly(did) {
        o.push(("val".into(), const_value(cx, val, ty)));
    }
    Some(J::O(o))
}

fn export_adt<'tcx>(cx: &mut Ctx<'tcx>, ldid: LocalDefId) -> J {
    let tcx = cx.tcx;
    let did = ldid.to_def_id();
    let def = tcx.adt_def(did);
    let kind = if def.is_enum() {
        "enum"
    } else if def.is_union() {
        "union"
    } else {
        "struct"
    };
    let tenv = TypingEnv::post_analysis(tcx, did);
    let self_ty = tcx.type_of(did).instantiate_identity().skip_norm_wip();
    let mut variants = Vec::new();
    let discrs: Vec<(rustc_abi::VariantIdx, ty::util::Discr<'tcx>)> =
        if def.is_enum() { def.discriminants(tcx).collect() } else { Vec::new() };
    for (vi, v) in def.variants().iter_enumerated() {
        let mut fields = Vec::new();
        for f in v.fields.iter() {
            let fty = tcx.type_of(f.did).instantiate_identity().skip_norm_wip();
            let vis = match f.vis {
                ty::Visibility::Public => "pub".to_string(),
                ty::Visibility::Restricted(m) => {
                    if m.is_crate_root() {
                        "crate".to_string()
                    } else {
                        format!("in:{}", tcx.def_path_str(m))
                    }
                }
            };
            fields.push(J::O(vec![
                ("name".into(), J::S(f.name.to_string())),
                ("ty".into(), cx.ty(fty)),
                ("adt".into(), cx.adt_of(fty)),
                ("vis".into(), J::S(vis)),
                ("freeze".into(), J::B(fty.is_freeze(tcx, tenv))),
            ]));
        }
        let discr = discrs.iter().find(|(i, _)| *i == vi).map(|(_, d)| d.val as i128);
        variants.push(J::O(vec![
            ("name".into(), J::S(v.name.to_string())),
            ("discr".into(), discr.map(J::I).unwrap_or(J::Null)),
            ("fields".into(), J::A(fields)),
        ]));
    }
    let sp = cx.span(tcx.def_span(did));
    J::O(vec![
        ("kind".into(), J::S(kind.into())),
        ("vis".into(), J::S(format!("{:?}", tcx.visibility(did)))),
        ("freeze".into(), J::B(self_ty.is_freeze(tcx, tenv))),
        ("span".into(), sp),
        ("variants".into(), J::A(variants)),
    ])
}

fn export_fn<'tcx>(cx: &mut Ctx<'tcx>, ldid: LocalDefId, kind: DefKind) -> J {
    let tcx = cx.tcx;
    let did = ldid.to_def_id();
    let body: &Body<'tcx> = tcx.optimized_mir(did);
    let tenv = TypingEnv::post_analysis(tcx, did);
    let mut o: Vec<(String, J)> = Vec::new();
    o.push(("kind".into(), J::S(format!("{:?}", kind))));
    o.push(("name".into(), J::S(tcx.item_name(if kind == DefKind::Closure { tcx.typeck_root_def_id(did) } else { did }).to_string())));
    if kind == DefKind::Closure {
        o.push(("parent".into(), J::S(cx.path(tcx.parent(did)))));
        o.push(("root".into(), J::S(cx.path(tcx.typeck_root_def_id(did)))));
    } else {
        o.push(("vis".into(), J::S(format!("{:?}", tcx.visibility(did)))));
        o.push(("doc_hidden".into(), J::B(tcx.is_doc_hidden(did))));
        if let Some(impl_did) = tcx.impl_of_assoc(did) {
            let self_ty = tcx.type_of(impl_did).instantiate_identity().skip_norm_wip();
            o.push(("impl_self".into(), cx.ty(self_ty)));
            o.push(("impl_adt".into(), cx.adt_of(self_ty)));
            if let Some(tr) = tcx.impl_opt_trait_ref(impl_did) {
                let tr = tr.instantiate_identity().skip_norm_wip();
                o.push(("impl_trait".into(), J::S(cx.path(tr.def_id))));
            }
        } else if let Some(tr_did) = tcx.trait_of_assoc(did) {
            o.push(("trait_default".into(), J::S(cx.path(tr_did))));
        }
    }
    o.push(("span".into(), cx.span(tcx.def_span(did))));
    o.push(("body".into(), export_body(cx, body, tenv)));
    let promoted = tcx.promoted_mir(did);
    let mut pv = Vec::new();
    for p in promoted.iter() {
        pv.push(export_body(cx, p, tenv));
    }
    o.push(("promoted".into(), J::A(pv)));
    J::O(o)
}

fn export_body<'tcx>(cx: &mut Ctx<'tcx>, body: &Body<'tcx>, tenv: TypingEnv<'tcx>) -> J {
    let mut locals = Vec::new();
    for (_l, decl) in body.local_decls.iter_enumerated() {
        locals.push(J::O(vec![
            ("ty".into(), cx.ty(decl.ty)),
            ("adt".into(), cx.adt_of(decl.ty)),
        ]));
    }
    let mut vars = Vec::new();
    for v in body.var_debug_info.iter() {
        if let VarDebugInfoContents::Place(p) = &v.value {
            vars.push(J::O(vec![
                ("name".into(), J::S(v.name.to_string())),
                ("place".into(), place(cx, body, *p)),
                ("arg".into(), v.argument_index.map(|i| J::I(i as i128)).unwrap_or(J::Null)),
            ]));
        }
    }
    let mut blocks = Vec::new();
    for (_bb, data) in body.basic_blocks.iter_enumerated() {
        blocks.push(export_block(cx, body, data, tenv));
    }
    J::O(vec![
        ("arg_count".into(), J::I(body.arg_count as i128)),
        ("locals".into(), J::A(locals)),
        ("vars".into(), J::A(vars)),
        ("blocks".into(), J::A(blocks)),
    ])
}

fn place<'tcx>(cx: &mut Ctx<'tcx>, body: &Body<'tcx>, p: Place<'tcx>) -> J {
    let tcx = cx.tcx;
    let mut proj = Vec::new();
    let mut pty = mir::PlaceTy::from_ty(body.local_decls[p.local].ty);
    for elem in p.projection.iter() {
        match elem {
            PlaceElem::Deref => proj.push(J::S("*".into())),
            PlaceElem::Field(f, _) => {
                let (owner, name, variant) = match pty.ty.kind() {
                    ty::Adt(def, _) => {
                        let vi = pty.variant_index.unwrap_or(rustc_abi::FIRST_VARIANT);
                        let v = def.variant(vi);
                        let vn = if def.is_enum() { J::S(v.name.to_string()) } else { J::Null };
                        (J::S(cx.path(def.did())), v.fields[f].name.to_string(), vn)
                    }
                    ty::Closure(d, _) => {
                        let names = tcx.closure_saved_names_of_captured_variables(*d);
                        let n = names.get(f).map(|s| s.to_string()).unwrap_or_else(|| format!("{}", f.index()));
                        (J::S(cx.path(*d)), n, J::Null)
                    }
                    _ => (J::Null, format!("{}", f.index()), J::Null),
                };
                proj.push(J::O(vec![
                    ("f".into(), J::I(f.index() as i128)),
                    ("n".into(), J::S(name)),
                    ("adt".into(), owner),
                    ("v".into(), variant),
                ]));
            }
            PlaceElem::Index(l) => proj.push(J::O(vec![("index".into(), J::I(l.index() as i128))])),
            PlaceElem::ConstantIndex { offset, min_length, from_end } => proj.push(J::O(vec![
                ("cindex".into(), J::I(offset as i128)),
                ("min".into(), J::I(min_length as i128)),
                ("from_end".into(), J::B(from_end)),
            ])),
            PlaceElem::Subslice { from, to, from_end } => proj.push(J::O(vec![
                ("subslice".into(), J::A(vec![J::I(from as i128), J::I(to as i128)])),
                ("from_end".into(), J::B(from_end)),
            ])),
            PlaceElem::Downcast(name, vi) => proj.push(J::O(vec![
                ("downcast".into(), name.map(|n| J::S(n.to_string())).unwrap_or(J::Null)),
                ("vi".into(), J::I(vi.index() as i128)),
            ])),
            PlaceElem::OpaqueCast(_) => proj.push(J::S("opaque".into())),
            PlaceElem::UnwrapUnsafeBinder(_) => proj.push(J::S("unwrap_binder".into())),
        }
        pty = pty.projection_ty(tcx, elem);
    }
    J::O(vec![("l".into(), J::I(p.local.index() as i128)), ("p".into(), J::A(proj))])
}

fn const_value<'tcx>(cx: &mut Ctx<'tcx>, val: ConstValue, ty: Ty<'tcx>) -> J {
    let tcx = cx.tcx;
    match val {
        ConstValue::Scalar(mir::interpret::Scalar::Int(i)) => {
            let bits = i.to_bits(i.size());
            let v: i128 = if ty.is_signed() {
                i.to_int(i.size())
            } else {
                bits as i128
            };
            J::O(vec![("int".into(), J::Str128(v))])
        }
        ConstValue::Scalar(mir::interpret::Scalar::Ptr(ptr, _)) => {
            // pointer to a static allocation, e.g. &[u8; N] behind a &[u8] const, or &T promoted
            let (prov, off) = ptr.prov_and_relative_offset();
            let alloc_id = prov.alloc_id();
            if let Some(ga) = tcx.try_get_global_alloc(alloc_id) {
                match ga {
                    mir::interpret::GlobalAlloc::Memory(a) => {
                        let a = a.inner();
                        let len = a.len();
                        if off.bytes() == 0 && a.provenance().ptrs().is_empty() && len <= 256 {
                            let bytes = a.inspect_with_uninit_and_ptr_outside_interpreter(0..len);
                            return J::O(vec![("ptr_bytes".into(), J::A(bytes.iter().map(|b| J::I(*b as i128)).collect()))]);
                        }
                        J::O(vec![("ptr".into(), J::S("memory".into()))])
                    }
                    mir::interpret::GlobalAlloc::Static(d) => J::O(vec![("static".into(), J::S(cx.path(d)))]),
                    mir::interpret::GlobalAlloc::Function { instance } => J::O(vec![("fnptr".into(), J::S(cx.path(instance.def_id())))]),
                    _ => J::O(vec![("ptr".into(), J::S("other".into()))]),
                }
            } else {
                J::O(vec![("ptr".into(), J::S("unknown".into()))])
            }
        }
        ConstValue::ZeroSized => J::O(vec![("zst".into(), J::B(true))]),
        ConstValue::Slice { alloc_id, meta } => {
            let ga = tcx.global_alloc(alloc_id);
            if let mir::interpret::GlobalAlloc::Memory(a) = ga {
                let a = a.inner();
                let len = (meta as usize).min(a.len());
                if a.provenance().ptrs().is_empty() && len <= 512 {
                    let bytes = a.inspect_with_uninit_and_ptr_outside_interpreter(0..len);
                    if let ty::Ref(_, inner, _) = ty.kind() {
                        if inner.is_str() {
                            return J::O(vec![("str".into(), J::S(String::from_utf8_lossy(bytes).to_string()))]);
                        }
                    }
                    return J::O(vec![("bytes".into(), J::A(bytes.iter().map(|b| J::I(*b as i128)).collect()))]);
                }
            }
            J::O(vec![("slice".into(), J::I(meta as i128))])
        }
        ConstValue::Indirect { .. } => J::O(vec![("indirect".into(), J::B(true))]),
    }
}

fn constant<'tcx>(cx: &mut Ctx<'tcx>, c: &mir::ConstOperand<'tcx>, tenv: TypingEnv<'tcx>) -> J {
    let tcx = cx.tcx;
    let ty = c.const_.ty();
    let mut o: Vec<(String, J)> = vec![("ty".into(), cx.ty(ty))];
    if let ty::FnDef(did, args) = ty.kind() {
        o.push(("fn".into(), fn_ref(cx, *did, args, tenv)));
        return J::O(o);
    }
    if let ty::Adt(def, _) = ty.kind() {
        o.push(("adt".into(), J::S(cx.path(def.did()))));
    }
    match c.const_ {
        Const::Unevaluated(uv, _) => {
            if let Some(p) = uv.promoted {
                o.push(("promoted".into(), J::I(p.index() as i128)));
                return J::O(o);
            }
            o.push(("item".into(), J::S(cx.path(uv.def))));
            if !uv.args.iter().any(|a| a.as_type().map(|t| t.has_param()).unwrap_or(false)) {
                if let Ok(v) = c.const_.eval(tcx, tenv, c.span) {
                    o.push(("val".into(), const_value(cx, v, ty)));
                }
            }
        }
        Const::Val(v, _) => {
            o.push(("val".into(), const_value(cx, v, ty)));
        }
        Const::Ty(_, tc) => {
            if let Some(i) = tc.try_to_leaf() {
                let bits = i.to_bits(i.size());
                o.push(("val".into(), J::O(vec![("int".into(), J::Str128(bits as i128))])));
            } else {
                o.push(("tyconst".into(), J::S(format!("{}", tc))));
            }
        }
    }
    J::O(o)
}

fn fn_ref<'tcx>(
    cx: &mut Ctx<'tcx>,
    did: DefId,
    args: ty::GenericArgsRef<'tcx>,
    tenv: TypingEnv<'tcx>,
) -> J {
    let tcx = cx.tcx;
    let mut o: Vec<(String, J)> = Vec::new();
    o.push(("orig".into(), J::S(cx.path(did))));
    let gargs: Vec<J> = args.iter().map(|a| J::S(format!("{}", a))).collect();
    o.push(("args".into(), J::A(gargs)));
    if let Some(tr) = tcx.trait_of_assoc(did) {
        o.push(("trait".into(), J::S(cx.path(tr))));
        if let Some(st) = args.types().next() {
            o.push(("self_ty".into(), cx.ty(st)));
            o.push(("self_adt".into(), cx.adt_of(st)));
        }
    }
    let mut resolved = None;
    if let Ok(Some(inst)) = Instance::try_resolve(tcx, tenv, did, args) {
        use ty::InstanceKind::*;
        let k = match inst.def {
            Item(_) => "item",
            Intrinsic(_) => "intrinsic",
            Virtual(..) => "virtual",
            ClosureOnceShim { .. } => "closure_once_shim",
            FnPtrShim(..) => "fnptr_shim",
            DropGlue(..) => "drop_glue",
            CloneShim(..) => "clone_shim",
            _ => "other",
        };
        o.push(("rkind".into(), J::S(k.into())));
        let rd = inst.def_id();
        resolved = Some(rd);
        o.push(("path".into(), J::S(cx.path(rd))));
        o.push(("local".into(), J::B(rd.is_local())));
        o.push(("krate".into(), J::S(tcx.crate_name(rd.krate).to_string())));
        if tcx.def_kind(rd) == DefKind::Closure {
            o.push(("closure".into(), J::B(true)));
        }
        if let Some(impl_did) = tcx.impl_of_assoc(rd) {
            let self_ty = tcx.type_of(impl_did).instantiate_identity().skip_norm_wip();
            o.push(("impl_adt".into(), cx.adt_of(self_ty)));
            o.push(("impl_self".into(), cx.ty(self_ty)));
        }
    }
    if resolved.is_none() {
        o.push(("path".into(), J::S(cx.path(did))));
        o.push(("unresolved".into(), J::B(true)));
        o.push(("local".into(), J::B(did.is_local())));
        o.push(("krate".into(), J::S(tcx.crate_name(did.krate).to_string())));
    }
    J::O(o)
}

fn operand<'tcx>(cx: &mut Ctx<'tcx>, body: &Body<'tcx>, op: &Operand<'tcx>, tenv: TypingEnv<'tcx>) -> J {
    match op {
        Operand::Copy(p) => J::O(vec![("copy".into(), place(cx, body, *p))]),
        Operand::Move(p) => J::O(vec![("move".into(), place(cx, body, *p))]),
        Operand::Constant(c) => J::O(vec![("const".into(), constant(cx, c, tenv))]),
        #[allow(unreachable_patterns)]
        _ => J::O(vec![("other_operand".into(), J::S(format!("{:?}", op)))]),
    }
}

fn rvalue<'tcx>(cx: &mut Ctx<'tcx>, body: &Body<'tcx>, rv: &Rvalue<'tcx>, tenv: TypingEnv<'tcx>) -> J {
    let tcx = cx.tcx;
    match rv {
        Rvalue::Use(op, ..) => J::O(vec![("use".into(), operand(cx, body, op, tenv))]),
        Rvalue::Repeat(op, n) => J::O(vec![
            ("repeat".into(), operand(cx, body, op, tenv)),
            ("n".into(), J::S(format!("{}", n))),
        ]),
        Rvalue::Ref(_, bk, p) => J::O(vec![
            ("ref".into(), place(cx, body, *p)),
            ("mut".into(), J::B(matches!(bk, mir::BorrowKind::Mut { .. }))),
        ]),
        Rvalue::RawPtr(k, p) => J::O(vec![
            ("rawptr".into(), place(cx, body, *p)),
            ("mut".into(), J::B(matches!(k, mir::RawPtrKind::Mut))),
        ]),
        Rvalue::Cast(k, op, ty) => J::O(vec![
            ("cast".into(), operand(cx, body, op, tenv)),
            ("kind".into(), J::S(format!("{:?}", k))),
            ("to".into(), cx.ty(*ty)),
        ]),
        Rvalue::BinaryOp(op, ab) => J::O(vec![
            ("bin".into(), J::S(format!("{:?}", op))),
            ("a".into(), operand(cx, body, &ab.0, tenv)),
            ("b".into(), operand(cx, body, &ab.1, tenv)),
        ]),
        Rvalue::UnaryOp(op, a) => J::O(vec![
            ("un".into(), J::S(format!("{:?}", op))),
            ("a".into(), operand(cx, body, a, tenv)),
        ]),
        Rvalue::Discriminant(p) => {
            let pty = p.ty(&body.local_decls, tcx).ty;
            J::O(vec![("discr".into(), place(cx, body, *p)), ("adt".into(), cx.adt_of(pty))])
        }
        Rvalue::Aggregate(kind, ops) => {
            let mut o: Vec<(String, J)> = Vec::new();
            match &**kind {
                AggregateKind::Array(_) => o.push(("agg".into(), J::S("array".into()))),
                AggregateKind::Tuple => o.push(("agg".into(), J::S("tuple".into()))),
                AggregateKind::Adt(did, vi, _, _, _) => {
                    o.push(("agg".into(), J::S("adt".into())));
                    o.push(("adt".into(), J::S(cx.path(*did))));
                    let def = tcx.adt_def(*did);
                    let v = def.variant(*vi);
                    o.push(("variant".into(), J::S(v.name.to_string())));
                    o.push(("fields".into(), J::A(v.fields.iter().map(|f| J::S(f.name.to_string())).collect())));
                }
                AggregateKind::Closure(did, _) => {
                    o.push(("agg".into(), J::S("closure".into())));
                    o.push(("closure".into(), J::S(cx.path(*did))));
                    let names = tcx.closure_saved_names_of_captured_variables(*did);
                    o.push(("fields".into(), J::A(names.iter().map(|s| J::S(s.to_string())).collect())));
                }
                AggregateKind::RawPtr(..) => o.push(("agg".into(), J::S("rawptr".into()))),
                _ => o.push(("agg".into(), J::S("other".into()))),
            }
            let mut v = Vec::new();
            for op in ops.iter() {
                v.push(operand(cx, body, op, tenv));
            }
            o.push(("ops".into(), J::A(v)));
            J::O(o)
        }
        Rvalue::CopyForDeref(p) => J::O(vec![("use".into(), J::O(vec![("copy".into(), place(cx, body, *p))]))]),
        Rvalue::ThreadLocalRef(d) => J::O(vec![("tls".into(), J::S(cx.path(*d)))]),
        _ => J::O(vec![("other_rvalue".into(), J::S(format!("{:?}", rv)))]),
    }
}

fn export_block<'tcx>(cx: &mut Ctx<'tcx>, body: &Body<'tcx>, data: &BasicBlockData<'tcx>, tenv: TypingEnv<'tcx>) -> J {
    let mut stmts = Vec::new();
    for st in data.statements.iter() {
        match &st.kind {
            StatementKind::Assign(b) => {
                let (p, rv) = &**b;
                stmts.push(J::O(vec![
                    ("k".into(), J::S("assign".into())),
                    ("place".into(), place(cx, body, *p)),
                    ("rv".into(), rvalue(cx, body, rv, tenv)),
                    ("s".into(), cx.span(st.source_info.span)),
                ]));
            }
            StatementKind::SetDiscriminant { place: p, variant_index } => {
                stmts.push(J::O(vec![
                    ("k".into(), J::S("setdiscr".into())),
                    ("place".into(), place(cx, body, **p)),
                    ("vi".into(), J::I(variant_index.index() as i128)),
                    ("s".into(), cx.span(st.source_info.span)),
                ]));
            }
            StatementKind::Intrinsic(i) => {
                stmts.push(J::O(vec![
                    ("k".into(), J::S("intrinsic".into())),
                    ("text".into(), J::S(format!("{:?}", i))),
                    ("s".into(), cx.span(st.source_info.span)),
                ]));
            }
            _ => {}
        }
    }
    let term = data.terminator();
    let unwind = |u: &UnwindAction| -> J {
        match u {
            UnwindAction::Cleanup(bb) => J::I(bb.index() as i128),
            _ => J::Null,
        }
    };
    let mut t: Vec<(String, J)> = Vec::new();
    match &term.kind {
        TerminatorKind::Goto { target } => {
            t.push(("k".into(), J::S("goto".into())));
            t.push(("target".into(), J::I(target.index() as i128)));
        }
        TerminatorKind::SwitchInt { discr, targets } => {
            t.push(("k".into(), J::S("switch".into())));
            t.push(("op".into(), operand(cx, body, discr, tenv)));
            let dty = discr.ty(&body.local_decls, cx.tcx);
            t.push(("ty".into(), cx.ty(dty)));
            let mut v = Vec::new();
            for (val, bb) in targets.iter() {
                v.push(J::A(vec![J::Str128(val as i128), J::I(bb.index() as i128)]));
            }
            t.push(("targets".into(), J::A(v)));
            t.push(("otherwise".into(), J::I(targets.otherwise().index() as i128)));
        }
        TerminatorKind::Return => t.push(("k".into(), J::S("return".into()))),
        TerminatorKind::Unreachable => t.push(("k".into(), J::S("unreachable".into()))),
        TerminatorKind::UnwindResume => t.push(("k".into(), J::S("resume".into()))),
        TerminatorKind::UnwindTerminate(_) => t.push(("k".into(), J::S("terminate".into()))),
        TerminatorKind::Drop { place: p, target, unwind: u, .. } => {
            t.push(("k".into(), J::S("drop".into())));
            t.push(("place".into(), place(cx, body, *p)));
            t.push(("target".into(), J::I(target.index() as i128)));
            t.push(("unwind".into(), unwind(u)));
        }
        TerminatorKind::Call { func, args, destination, target, unwind: u, fn_span, .. } => {
            t.push(("k".into(), J::S("call".into())));
            t.push(("func".into(), operand(cx, body, func, tenv)));
            let mut v = Vec::new();
            for a in args.iter() {
                v.push(operand(cx, body, &a.node, tenv));
            }
            t.push(("args".into(), J::A(v)));
            t.push(("dest".into(), place(cx, body, *destination)));
            t.push(("target".into(), target.map(|b| J::I(b.index() as i128)).unwrap_or(J::Null)));
            t.push(("unwind".into(), unwind(u)));
            t.push(("fn_span".into(), cx.span(*fn_span)));
        }
        TerminatorKind::TailCall { func, args, .. } => {
            t.push(("k".into(), J::S("tailcall".into())));
            t.push(("func".into(), operand(cx, body, func, tenv)));
            let mut v = Vec::new();
            for a in args.iter() {
                v.push(operand(cx, body, &a.node, tenv));
            }
            t.push(("args".into(), J::A(v)));
        }
        TerminatorKind::Assert { cond, expected, msg, target, unwind: u } => {
            t.push(("k".into(), J::S("assert".into())));
            t.push(("cond".into(), operand(cx, body, cond, tenv)));
            t.push(("expected".into(), J::B(*expected)));
            let mk = {
                let mut s = String::new();
                let _ = write!(s, "{:?}", msg);
                s.split(|c: char| c == '(' || c == ' ' || c == '{').next().unwrap_or("").to_string()
            };
            t.push(("msg".into(), J::S(mk)));
            t.push(("target".into(), J::I(target.index() as i128)));
            t.push(("unwind".into(), unwind(u)));
        }
        TerminatorKind::FalseEdge { real_target, .. } => {
            t.push(("k".into(), J::S("goto".into())));
            t.push(("target".into(), J::I(real_target.index() as i128)));
        }
        TerminatorKind::FalseUnwind { real_target, .. } => {
            t.push(("k".into(), J::S("goto".into())));
            t.push(("target".into(), J::I(real_target.index() as i128)));
        }
        other => {
            t.push(("k".into(), J::S("other".into())));
            t.push(("text".into(), J::S(format!("{:?}", other))));
        }
    }
    t.push(("s".into(), cx.span(term.source_info.span)));
    J::O(vec![
        ("cleanup".into(), J::B(data.is_cleanup)),
        ("stmts".into(), J::A(stmts)),
        ("term".into(), J::O(t)),
    ])
}
