#!/bin/bash
# usage: seedtest.sh <patch.diff>  -- apply a seeded change to /repo, run every obligation, undo it
set -u
P=$1
cd /repo || exit 2
git diff --quiet || { echo "/repo has local changes"; exit 2; }
git apply "$P" || { echo "patch does not apply"; exit 2; }
OUT=$(mktemp -d)
/verif/export.sh /repo pb "$OUT" > "$OUT/log" 2>&1 || { echo "does not compile"; tail -5 "$OUT/log"; }
git -C /repo checkout -- .
cd /verif && python3 -m raftlint.check --facts "$OUT" --all | cut -c1-400
rm -rf "$OUT"
