"""Inlining of *new* private helper functions (DESIGN §3.4, §10.3).

The rules were written against a reference tree (raftlint/fn_table.json lists its functions). A private
function of crate `raft` that is not in that table and is not a plain rename of one that vanished is, by
construction, something a later change introduced -- typically an extract-function refactoring (`send`
split into `stamp_term` + `stamp_priority`, a loop body moved into a helper, two values returned as a
tuple by a new `..._range()` helper). Such helpers are spliced into their callers at the MIR level before
any analysis, so that every rule sees the caller as if the helper's body were still written inline, and
a bug inside a new helper is analysed in the context it runs in. On the reference tree itself nothing is
inlined.

The transformation is the textbook one: callee locals and blocks are appended to the caller with
renumbered indices, parameters become assignments from the call's arguments, `return` becomes
`dest = move _0'; goto <call target>`, promoted constants are appended and renumbered.
"""
import copy
import json
import os
import re

HERE = os.path.dirname(os.path.abspath(__file__))


def _short(k):
    return re.sub(r"::<[^<>]*(?:<[^<>]*(?:<[^<>]*>[^<>]*)*>[^<>]*)*>", "", k)


def _ref_table():
    p = os.path.join(HERE, "fn_table.json")
    if not os.path.exists(p):
        return None
    return json.load(open(p))


def _sig(f):
    b = f["body"]
    return (f.get("impl_adt"), b["arg_count"], tuple(l["ty"] for l in b["locals"][: b["arg_count"] + 1]))


def new_helpers(js):
    """keys of functions to inline: private, non-closure, crate raft, absent from the reference table, not a rename"""
    ref = _ref_table()
    if ref is None:
        return []
    fns = {}
    for j in js:
        if j["crate"] == "raft":
            fns.update(j["fns"])
    cur_short = {_short(k): k for k, f in fns.items() if f["kind"] != "Closure"}
    ref_sigs = ref["fns"]
    new = [k for s, k in cur_short.items() if s not in ref_sigs]
    vanished = {s: v for s, v in ref_sigs.items() if s not in cur_short}
    out = []
    for k in new:
        f = fns[k]
        if f.get("vis") == "Public" or f.get("impl_trait"):
            continue
        sig = _sig(f)
        # a vanished function of the same impl with the same signature: a rename, not an extraction
        ren = [s for s, v in vanished.items() if v[0] == sig[0] and v[1] == sig[1] and tuple(v[2]) == sig[2]]
        if ren:
            continue
        # a vanished function of the same module with the same name: a method turned into a free function (or back)
        name = f["name"]
        mod = "::".join(_short(k).split("::")[:2])
        if any(s.startswith(mod + "::") and s.rsplit("::", 1)[-1] == name for s in vanished):
            continue
        out.append(k)
    return out


def _features(f):
    """rename-invariant summary of a body: block count, argument count, sorted callees outside the crate, number of local calls"""
    ext, loc = [], 0
    for b in f["body"]["blocks"]:
        t = b["term"]
        if t["k"] != "call":
            continue
        fn = t.get("func", {}).get("const", {}).get("fn") if isinstance(t.get("func"), dict) else None
        if not fn:
            continue
        if fn.get("local"):
            loc += 1
        else:
            ext.append(_short(fn.get("path") or fn.get("orig") or "?"))
    return [len(f["body"]["blocks"]), sorted(ext), loc]


def fn_renames(js):
    """{current short key: reference short key} for private functions of crate `raft` that were merely renamed:
    the reference function vanished, and exactly one new function of the same impl/module has its signature
    (ties are broken by an identical body summary). Everything else is left to the role finders."""
    ref = _ref_table()
    if ref is None:
        return {}
    fns = {}
    for j in js:
        if j["crate"] == "raft":
            fns.update(j["fns"])
    cur_short = {_short(k): k for k, f in fns.items() if f["kind"] != "Closure"}
    ref_sigs = ref["fns"]
    new = [s for s in cur_short if s not in ref_sigs]
    vanished = {s: v for s, v in ref_sigs.items() if s not in cur_short}
    if not new or not vanished:
        return {}
    m = {}
    for s in new:
        f = fns[cur_short[s]]
        if f.get("vis") == "Public" or f.get("impl_trait"):
            continue
        sig = _sig(f)
        par = s.rsplit("::", 1)[0]
        cands = [o for o, v in vanished.items() if o.rsplit("::", 1)[0] == par and v[0] == sig[0] and v[1] == sig[1] and tuple(v[2]) == sig[2]]
        if len(cands) > 1:
            ft = _features(f)
            cands = [o for o in cands if len(vanished[o]) > 3 and vanished[o][3] == ft]
        if len(cands) == 1:
            m[s] = cands[0]
    # injective only
    tgt = {}
    for s, o in m.items():
        tgt.setdefault(o, []).append(s)
    return {s: o for s, o in m.items() if len(tgt[o]) == 1}


def apply_fn_renames(js, ren):
    """Rewrite the raw facts so that a renamed private function carries its reference name again (keys, names,
    callee paths, fn-item types, closure parents)."""
    if not ren:
        return
    pairs = [(n, o, n.rsplit("::", 1)[1], o.rsplit("::", 1)[1]) for n, o in ren.items()]
    pats = [(n, re.compile(r"::%s\b" % re.escape(nn)), "::" + on) for n, o, nn, on in pairs]

    def fix(v):
        if "::" not in v:
            return v
        sv = None
        for n, pat, rep in pats:
            if pat.search(v):
                if sv is None:
                    sv = _short(v)
                if n in sv:
                    v = pat.sub(rep, v)
                    sv = None
        return v

    def walk(o):
        if isinstance(o, dict):
            for k in list(o.keys()):
                v = o[k]
                if isinstance(v, str):
                    if k in ("orig", "path", "ty", "closure", "parent", "root", "callee"):
                        o[k] = fix(v)
                else:
                    walk(v)
        elif isinstance(o, list):
            for v in o:
                walk(v)

    for j in js:
        walk(j["fns"])
        if j["crate"] != "raft":
            continue
        for k in list(j["fns"].keys()):
            k2 = fix(k)
            f = j["fns"][k]
            if k2 != k:
                j["fns"][k2] = j["fns"].pop(k)
            for n, o, nn, on in pairs:
                if f.get("name") == nn and _short(k2).startswith(o):
                    f["name"] = on


def _map_place(pl, loff):
    pl["l"] += loff
    for pr in pl.get("p", []):
        if isinstance(pr, dict) and "index" in pr:
            pr["index"] += loff


def _walk_locals(o, loff, poff):
    """renumber locals / promoted indices inside a copied callee fragment"""
    if isinstance(o, dict):
        if "l" in o and "p" in o and isinstance(o["p"], list) and isinstance(o["l"], int):
            _map_place(o, loff)
            return
        if "promoted" in o and isinstance(o["promoted"], int) and "ty" in o:
            o["promoted"] += poff
        for k, v in o.items():
            _walk_locals(v, loff, poff)
    elif isinstance(o, list):
        for v in o:
            _walk_locals(v, loff, poff)


def _callee_key(t, fns):
    fn = t.get("func", {}).get("const", {}).get("fn") if isinstance(t.get("func"), dict) else None
    if not fn or not fn.get("local"):
        return None
    p = fn.get("path")
    return p if p in fns else None


def _splice(caller, bi, callee):
    cb = caller["body"]
    hb = copy.deepcopy(callee["body"])
    loff = len(cb["locals"])
    boff = len(cb["blocks"])
    poff = len(caller.get("promoted", []))
    t = cb["blocks"][bi]["term"]
    # locals
    cb["locals"] += hb["locals"]
    for v in hb.get("vars", []):
        v2 = copy.deepcopy(v)
        _map_place(v2["place"], loff)
        v2.pop("arg", None)
        v2["arg"] = None
        cb["vars"].append(v2)
    # blocks
    for blk in hb["blocks"]:
        for st in blk["stmts"]:
            _walk_locals(st, loff, poff)
        tt = blk["term"]
        for key in ("target", "otherwise", "unwind"):
            if isinstance(tt.get(key), int):
                tt[key] += boff
        if tt.get("targets"):
            tt["targets"] = [[v, tg + boff] for v, tg in tt["targets"]]
        for key in ("args", "dest", "op", "place", "cond", "func"):
            if key in tt:
                _walk_locals(tt[key], loff, poff)
        if tt["k"] == "return":
            if t.get("target") is None:
                blk["term"] = {"k": "unreachable", "s": tt["s"]}
            else:
                if hb["locals"][0]["ty"] != "()" or True:
                    blk["stmts"].append({"k": "assign", "place": copy.deepcopy(t["dest"]), "rv": {"use": {"move": {"l": loff, "p": []}}}, "s": tt["s"]})
                blk["term"] = {"k": "goto", "target": t["target"], "s": tt["s"]}
        elif tt["k"] == "resume" and isinstance(t.get("unwind"), int):
            blk["term"] = {"k": "goto", "target": t["unwind"], "s": tt["s"]}
        cb["blocks"].append(blk)
    caller.setdefault("promoted", [])
    caller["promoted"] += copy.deepcopy(callee.get("promoted", []))
    # the call site: parameters := arguments; jump to the callee's entry
    blk = cb["blocks"][bi]
    for i, arg in enumerate(t["args"]):
        blk["stmts"].append({"k": "assign", "place": {"l": loff + 1 + i, "p": []}, "rv": {"use": copy.deepcopy(arg)}, "s": t["s"]})
    blk["term"] = {"k": "goto", "target": boff, "s": t["s"]}


def inline_new_helpers(js):
    """Mutates the raw fact files; returns the list of inlined helper keys."""
    helpers = new_helpers(js)
    if not helpers:
        return []
    fns = {}
    owner = {}
    for j in js:
        if j["crate"] == "raft":
            for k, f in j["fns"].items():
                fns[k] = f
                owner[k] = j
    hs = set(helpers)
    done = []
    # bottom-up: a helper that calls another new helper gets that one inlined first
    for _ in range(4):
        progressed = False
        for h in list(hs):
            calls_other = any(_callee_key(b["term"], fns) in hs and _callee_key(b["term"], fns) != h for b in fns[h]["body"]["blocks"] if b["term"]["k"] == "call")
            recursive = any(_callee_key(b["term"], fns) == h for b in fns[h]["body"]["blocks"] if b["term"]["k"] == "call")
            if calls_other or recursive:
                continue
            for k, f in list(fns.items()):
                if k == h:
                    continue
                bodies = [f] if True else []
                n = 0
                while n < 8:
                    idx = [bi for bi, b in enumerate(f["body"]["blocks"]) if b["term"]["k"] == "call" and _callee_key(b["term"], fns) == h]
                    if not idx:
                        break
                    _splice(f, idx[0], fns[h])
                    n += 1
            hs.discard(h)
            done.append(h)
            progressed = True
        if not progressed:
            break
    for h in done:
        # closures defined inside the helper keep their own bodies; the helper itself is no longer a unit of analysis
        owner[h]["fns"].pop(h, None)
        fns.pop(h, None)
    return done


def write_ref_table(js, path=None):
    path = path or os.path.join(HERE, "fn_table.json")
    tab = {}
    for j in js:
        if j["crate"] != "raft":
            continue
        for k, f in j["fns"].items():
            if f["kind"] == "Closure":
                continue
            s = _sig(f)
            tab[_short(k)] = [s[0], s[1], list(s[2]), _features(f)]
    json.dump({"fns": tab}, open(path, "w"), indent=0, sort_keys=True)
    return len(tab)
