"""Inlining of *new* private helper functions (DESIGN §3.4, §10.3).

The rules were written against a reference tree (raftlint/fn_table.json lists its functions). A private
function of crate `raft` that is not in that table and is not a plain rename of one that vanished is, by
construction, something a later change introduced -- typically an extract-function refactoring (`send`
split into `stamp_term` + `stamp_priority`, a loop body moved into a helper, two values returned as a
tuple by a new `..._range()` helper). Such helpers are spliced into their callers at the MIR level before
any analysis, so that every rule sees the caller as if the helper's body were still written inline, and
a bug inside a new helper is analysed in the context it runs in. On the reference tree itself nothing is
inlined.

The transformation is the textbook one: callee locals and blocks are appended to the caller with
renumbered indices, parameters become assignments from the call's arguments, `return` becomes
`dest = move _0'; goto <call target>`, promoted constants are appended and renumbered.
"""
import copy
import json
import os
import re

HERE = os.path.dirname(os.path.abspath(__file__))


def _short(k):
    return re.sub(r"::<[^<>]*(?:<[^<>]*(?:<[^<>]*>[^<>]*)*>[^<>]*)*>", "", k)


def _ref_table():
    p = os.path.join(HERE, "fn_table.json")
    if not os.path.exists(p):
        return None
    return json.load(open(p))


def _sig(f):
    b = f["body"]
    return (f.get("impl_adt"), b["arg_count"], tuple(l["ty"] for l in b["locals"][: b["arg_count"] + 1]))


KEEP_INLINED = set()


def new_helpers(js):
    """keys of functions to inline: private, non-closure, crate raft, absent from the reference table, not a rename"""
    ref = _ref_table()
    if ref is None:
        return []
    fns = {}
    for j in js:
        if j["crate"] == "raft":
            fns.update(j["fns"])
    cur_short = {_short(k): k for k, f in fns.items() if f["kind"] != "Closure"}
    ref_sigs = ref["fns"]
    new = [k for s, k in cur_short.items() if s not in ref_sigs]
    vanished = {s: v for s, v in ref_sigs.items() if s not in cur_short}
    out = []
    for k in new:
        f = fns[k]
        if f.get("impl_trait"):
            continue
        if f.get("vis") == "Public":
            # a new public function is new API, but inside the crate it is used like any other extracted helper: it is
            # spliced into its in-crate callers too, and stays a function of its own
            KEEP_INLINED.add(k)
        sig = _sig(f)
        # (plain renames were mapped back to their reference names before this point: fn_renames)
        # a vanished function of the same module with the same name: a method turned into a free function (or back)
        name = f["name"]
        mod = "::".join(_short(k).split("::")[:2])
        if any(s.startswith(mod + "::") and s.rsplit("::", 1)[-1] == name for s in vanished):
            continue
        out.append(k)
    return out


def _features(f):
    """rename-invariant summary of a body: block count, argument count, sorted callees outside the crate, number of local calls"""
    ext, loc = [], 0
    for b in f["body"]["blocks"]:
        t = b["term"]
        if t["k"] != "call":
            continue
        fn = t.get("func", {}).get("const", {}).get("fn") if isinstance(t.get("func"), dict) else None
        if not fn:
            continue
        if fn.get("local"):
            loc += 1
        else:
            ext.append(_short(fn.get("path") or fn.get("orig") or "?"))
    return [len(f["body"]["blocks"]), sorted(ext), loc]


def _body_hash(f):
    import hashlib

    def strip(o):
        if isinstance(o, dict):
            return {k: strip(v) for k, v in o.items() if k not in ("s", "fn_span", "span")}
        if isinstance(o, list):
            return [strip(v) for v in o]
        return o
    b = f["body"]
    txt = json.dumps([strip(b["blocks"]), [l["ty"] for l in b["locals"]]], sort_keys=True)
    txt = re.sub(r"\{closure@[^}]*\}", "{closure}", txt)
    return hashlib.md5(txt.encode()).hexdigest()[:16]


def changed_fns(js):
    """keys of functions of crate `raft` whose MIR differs from the reference tree's (or that are new): the only
    functions the shape normalisations below touch -- on the reference tree itself nothing is rewritten"""
    ref = _ref_table()
    if ref is None:
        return set()
    out = set()
    for j in js:
        if j["crate"] != "raft":
            continue
        for k, f in j["fns"].items():
            if f["kind"] == "Closure":
                continue
            r = ref["fns"].get(_short(k))
            if r is None or len(r) < 5 or r[4] != _body_hash(f):
                out.add(k)
    return out


def _succ(t):
    out = []
    for key in ("target", "otherwise", "unwind"):
        if isinstance(t.get(key), int):
            out.append(t[key])
    for v, tg in t.get("targets") or []:
        out.append(tg)
    return out


def _reads_local(o, l):
    if isinstance(o, dict):
        if "l" in o and "p" in o and isinstance(o.get("p"), list) and o.get("l") == l:
            return True
        return any(_reads_local(v, l) for v in o.values())
    if isinstance(o, list):
        return any(_reads_local(v, l) for v in o)
    return False


def propagate_moves(f, rounds=4):
    """Copy propagation for values handed on by move: `L = move P` (both whole locals, L defined only there, P defined
    at most once or a parameter) makes L the same object under a new name -- typically a by-value parameter of a
    spliced-in helper (`fn forward(mut m: Message)` called as `forward(m)`). Every use of L is rewritten to P, so that
    the rules keep seeing "the received message" rather than an anonymous local. A `copy` is propagated only when the
    copy is never written to or mutably borrowed afterwards. Returns the number of locals replaced."""
    body = f["body"]
    B = body["blocks"]
    argc = body["arg_count"]
    total = 0
    for _ in range(rounds):
        ndefs, single, partial, mutb = {}, {}, set(), set()
        for bi, b in enumerate(B):
            for si, st in enumerate(b["stmts"]):
                if st["k"] != "assign":
                    continue
                pl = st["place"]
                rv = st["rv"]
                if "ref" in rv and rv.get("mut"):
                    mutb.add(rv["ref"]["l"])
                if "rawptr" in rv:
                    mutb.add(rv["rawptr"]["l"])
                if pl["p"]:
                    partial.add(pl["l"])
                    continue
                ndefs[pl["l"]] = ndefs.get(pl["l"], 0) + 1
                single[pl["l"]] = (bi, si, rv)
            t = b["term"]
            if t["k"] == "call" and t.get("dest"):
                if t["dest"]["p"]:
                    partial.add(t["dest"]["l"])
                else:
                    ndefs[t["dest"]["l"]] = ndefs.get(t["dest"]["l"], 0) + 2
            if t["k"] == "drop" and isinstance(t.get("place"), dict):
                pass
        ren = {}
        targets = set()
        for L, (bi, si, rv) in single.items():
            if ndefs.get(L) != 1 or L <= argc or "use" not in rv:
                continue
            u = rv["use"]
            mv = u.get("move")
            cp = u.get("copy")
            src = mv or cp
            if src is None or src["p"]:
                continue
            P = src["l"]
            if P == L or P == 0 or ndefs.get(P, 0) > 1 or (P > argc and ndefs.get(P, 0) != 1):
                continue
            tl, tp = body["locals"][L]["ty"], body["locals"][P]["ty"]
            if tl != tp and not (tl.startswith("impl ") or tp.startswith("impl ") or len(tl) <= 2 or len(tp) <= 2):
                continue   # (a generic parameter `impl Fn..` / `T` of a spliced-in helper takes the argument's type)
            if cp is not None and (L in partial or L in mutb):
                continue
            if P in ren or L in targets:
                continue
            ren[L] = (P, bi, si)
            targets.add(P)
        if not ren:
            break
        # drop the assignments, then rename
        for bi, si in sorted(((bi, si) for _, (_, bi, si) in ren.items()), reverse=True):
            del B[bi]["stmts"][si]

        def walk(o):
            if isinstance(o, dict):
                if "l" in o and "p" in o and isinstance(o.get("p"), list) and isinstance(o.get("l"), int):
                    if o["l"] in ren:
                        o["l"] = ren[o["l"]][0]
                    for pr in o["p"]:
                        if isinstance(pr, dict) and "index" in pr and pr["index"] in ren:
                            pr["index"] = ren[pr["index"]][0]
                    return
                for v in o.values():
                    walk(v)
            elif isinstance(o, list):
                for v in o:
                    walk(v)
        walk(B)
        total += len(ren)
    return total


def desugar_mem_replace(f):
    """`old = mem::replace(&mut PLACE, v)` is read as `old = PLACE; PLACE = v` (a plain assignment the who-may-write
    rules see), when the reference is a temporary taken right there. Returns the number of calls rewritten."""
    body = f["body"]
    B = body["blocks"]
    refdef = {}
    cnt = {}
    for b in B:
        for st in b["stmts"]:
            if st["k"] == "assign" and not st["place"]["p"]:
                cnt[st["place"]["l"]] = cnt.get(st["place"]["l"], 0) + 1
                if "ref" in st["rv"] and st["rv"].get("mut"):
                    refdef[st["place"]["l"]] = st["rv"]["ref"]
        t = b["term"]
        if t["k"] == "call" and t.get("dest") and not t["dest"]["p"]:
            cnt[t["dest"]["l"]] = cnt.get(t["dest"]["l"], 0) + 1
    n = 0
    for b in B:
        t = b["term"]
        if t["k"] != "call" or not isinstance(t.get("func"), dict):
            continue
        fn = t["func"].get("const", {}).get("fn") if "const" in t["func"] else None
        sp_ = _short(fn.get("path", "")) if fn else ""
        # `o.take()` = mem::replace(&mut o, None);  `mem::take(&mut o)` on an Option likewise
        is_take = False   # (`o.take()` is left as the call it is: the capacity rules read it in that form)
        if not fn or not (sp_ == "core::mem::replace" and len(t["args"]) == 2 or is_take) or t.get("target") is None:
            continue
        r = t["args"][0].get("move") or t["args"][0].get("copy")
        if r is None or r["p"] or cnt.get(r["l"]) != 1 or r["l"] not in refdef:
            continue
        place = copy.deepcopy(refdef[r["l"]])
        for _ in range(4):   # `&mut *(&mut X)`: look through reborrows of temporaries
            if place["p"] and place["p"][0] == "*" and place["l"] in refdef and cnt.get(place["l"]) == 1:
                inner = refdef[place["l"]]
                place = {"l": inner["l"], "p": copy.deepcopy(inner["p"]) + place["p"][1:]}
            else:
                break
        b["stmts"].append({"k": "assign", "place": copy.deepcopy(t["dest"]), "rv": {"use": {"copy": copy.deepcopy(place)}}, "s": t["s"]})
        if is_take:
            b["stmts"].append({"k": "assign", "place": place, "rv": {"agg": "adt", "adt": "core::option::Option", "variant": "None", "fields": [], "ops": []}, "s": t["s"]})
        else:
            b["stmts"].append({"k": "assign", "place": place, "rv": {"use": copy.deepcopy(t["args"][1])}, "s": t["s"]})
        b["term"] = {"k": "goto", "target": t["target"], "s": t["s"]}
        n += 1
    return n


SPLICED_CLOSURES = set()

COMBINATORS = {
    # callee suffix -> (adt, payload variant, other variant, kind)
    "core::option::Option::is_some_and": ("core::option::Option", "Some", "None", "pred"),
    "core::result::Result::is_ok_and": ("core::result::Result", "Ok", "Err", "pred"),
    "core::option::Option::and_then": ("core::option::Option", "Some", "None", "and_then"),
    "core::option::Option::map": ("core::option::Option", "Some", "None", "map"),
    "core::option::Option::filter": ("core::option::Option", "Some", "None", "filter"),
    "core::option::Option::map_or": ("core::option::Option", "Some", "None", "map_or"),
    "core::result::Result::map_or": ("core::result::Result", "Ok", "Err", "map_or"),
    "core::option::Option::is_none_or": ("core::option::Option", "Some", "None", "pred_or_true"),
    "core::result::Result::map_err": ("core::result::Result", "Err", "Ok", "map_pass"),
    "core::result::Result::map": ("core::result::Result", "Ok", "Err", "map_pass"),
}


LAZY = {
    # callee -> (kind, adt of the receiver, payload variant, other variant)
    "core::bool::then": ("then", None, None, None),
    "core::option::Option::unwrap_or_else": ("unwrap_or_else", "core::option::Option", "Some", "None"),
    "core::option::Option::ok_or_else": ("ok_or_else", "core::option::Option", "Some", "None"),
    "core::option::Option::or_else": ("or_else", "core::option::Option", "Some", "None"),
}


def _desugar_lazy(f, bi, t, lz, x, c, clo, cpath):
    """`c.then(|| v)` = if c { Some(v) } else { None };  `o.unwrap_or_else(|| d)` = match o { Some(v) => v, None => d };
    `o.ok_or_else(|| e)` = match o { Some(v) => Ok(v), None => Err(e) };  `o.or_else(|| p)` = match o { Some(v) => Some(v), None => p }
    -- the closure's body spliced into the arm that runs it."""
    kind, adt, pv, ov = lz
    body = f["body"]
    B, L = body["blocks"], body["locals"]
    s_ = t["s"]
    dest, target = t["dest"], t["target"]
    OPT, RES = "core::option::Option", "core::result::Result"
    r_loc = len(L)
    L.append(copy.deepcopy(clo["body"]["locals"][0]))
    nb = len(B)
    b_call, b_plain, b_wrap, b_unreach = nb, nb + 1, nb + 2, nb + 3
    # the arm that runs the closure
    direct = kind in ("unwrap_or_else", "or_else")
    cterm = {"k": "call", "func": {"const": {"ty": "closure", "fn": {"path": cpath, "local": True, "orig": cpath}}},
             "args": [{"move": {"l": c["l"], "p": []}}], "dest": copy.deepcopy(dest) if direct else {"l": r_loc, "p": []},
             "target": target if direct else b_wrap, "unwind": t.get("unwind"), "s": s_}
    B.append({"cleanup": False, "stmts": [], "term": cterm})
    # the arm that does not
    if kind == "then":
        plain_rv = {"agg": "adt", "adt": OPT, "variant": "None", "fields": [], "ops": []}
        wrap_rv = {"agg": "adt", "adt": OPT, "variant": "Some", "fields": ["0"], "ops": [{"move": {"l": r_loc, "p": []}}]}
    else:
        pdisc = ENUM_DISCR[(adt, pv)]
        payload = {"move": {"l": x["l"], "p": [{"downcast": pv, "vi": pdisc}, {"f": 0, "n": "0", "adt": adt, "v": pv}]}}
        if kind == "unwrap_or_else":
            plain_rv = {"use": payload}
        elif kind == "or_else":
            plain_rv = {"agg": "adt", "adt": OPT, "variant": "Some", "fields": ["0"], "ops": [payload]}
        else:
            plain_rv = {"agg": "adt", "adt": RES, "variant": "Ok", "fields": ["0"], "ops": [payload]}
        wrap_rv = {"agg": "adt", "adt": RES, "variant": "Err", "fields": ["0"], "ops": [{"move": {"l": r_loc, "p": []}}]}
    B.append({"cleanup": False, "stmts": [{"k": "assign", "place": copy.deepcopy(dest), "rv": plain_rv, "s": s_}], "term": {"k": "goto", "target": target, "s": s_}})
    B.append({"cleanup": False, "stmts": [{"k": "assign", "place": copy.deepcopy(dest), "rv": wrap_rv, "s": s_}], "term": {"k": "goto", "target": target, "s": s_}})
    B.append({"cleanup": False, "stmts": [], "term": {"k": "unreachable", "s": s_}})
    if kind == "then":
        B[bi]["term"] = {"k": "switch", "op": {"copy": {"l": x["l"], "p": []}}, "ty": "bool", "targets": [[0, b_plain]], "otherwise": b_call, "s": s_}
    else:
        d_loc = len(L)
        L.append({"ty": "isize", "adt": None})
        B[bi]["stmts"].append({"k": "assign", "place": {"l": d_loc, "p": []}, "rv": {"discr": {"l": x["l"], "p": []}, "adt": adt}, "s": s_})
        B[bi]["term"] = {"k": "switch", "op": {"move": {"l": d_loc, "p": []}}, "ty": "isize",
                         "targets": [[ENUM_DISCR[(adt, ov)], b_call], [ENUM_DISCR[(adt, pv)], b_plain]], "otherwise": b_unreach, "s": s_}
    _splice(f, b_call, clo)


_NEXT_FNS = {}


def _next_fn(fns, ity, iadt):
    """The `fn` record of `<ity as Iterator>::next`, copied from a call of it anywhere in the crate when there is one."""
    if not _NEXT_FNS.get("__scanned__") :
        _NEXT_FNS["__scanned__"] = True
        for g in fns.values():
            for blk in g["body"]["blocks"]:
                tt = blk["term"]
                if tt["k"] == "call" and isinstance(tt.get("func"), dict) and "const" in tt["func"]:
                    fn = tt["func"]["const"].get("fn")
                    if fn and fn.get("orig") == "core::iter::traits::iterator::Iterator::next" and fn.get("self_adt"):
                        _NEXT_FNS.setdefault(fn["self_adt"], fn)
    got = _NEXT_FNS.get(iadt)
    if got is not None:
        got = copy.deepcopy(got)
        got["self_ty"] = ity
        got["args"] = [ity]
        return got
    return {"orig": "core::iter::traits::iterator::Iterator::next", "args": [ity], "trait": "core::iter::traits::iterator::Iterator", "self_ty": ity, "self_adt": iadt,
            "rkind": "item", "path": "<%s as core::iter::traits::iterator::Iterator>::next" % (_short(ity) if iadt is None else iadt + "<I>"), "local": False, "krate": "core", "impl_adt": iadt, "impl_self": ity}


def desugar_combinators(f, fns, rounds=6):
    """`o.is_some_and(|v| p(v))`, `o.map(|v| g(v))`, `o.and_then(|v| g(v))`, `r.is_ok_and(..)` with a closure literal
    built in the same function are read as the `match` they abbreviate, the closure's body spliced into the arm:

        match o { Some(v) => <body>(v), None => false | None }

    so that a call made inside such a closure (`own_progress_mut().is_some_and(|pr| pr.maybe_update(index))`) is seen
    where it runs, with the caller's guards and with the captured variables resolved. Returns the number of calls
    rewritten."""
    body = f["body"]
    B = body["blocks"]
    done = 0
    for _ in range(rounds):
        cdef = {}
        ndefs = {}
        for b in B:
            for st in b["stmts"]:
                if st["k"] == "assign" and not st["place"]["p"]:
                    ndefs[st["place"]["l"]] = ndefs.get(st["place"]["l"], 0) + 1
                    if st["rv"].get("agg") == "closure":
                        cdef[st["place"]["l"]] = st["rv"]["closure"]
        todo = None
        for bi, b in enumerate(B):
            t = b["term"]
            if t["k"] != "call" or t.get("target") is None or not isinstance(t.get("func"), dict):
                continue
            fn = t["func"].get("const", {}).get("fn") if "const" in t["func"] else None
            if not fn:
                continue
            sp_ = _short(fn.get("path", ""))
            if sp_ in ("core::ops::function::FnOnce::call_once", "core::ops::function::Fn::call", "core::ops::function::FnMut::call_mut") and len(t["args"]) == 2:
                # a closure literal of this very function called directly (a predicate handed to a spliced-in helper):
                # `confirmed(acks)` with `confirmed = |acks| prs.has_quorum(acks)` is read as the closure's body
                c = t["args"][0].get("move") or t["args"][0].get("copy")
                tup = t["args"][1].get("move") or t["args"][1].get("copy")
                if c is not None and tup is not None and not c["p"] and not tup["p"] and ndefs.get(c["l"]) == 1 and c["l"] in cdef and cdef[c["l"]] in fns and ndefs.get(tup["l"]) == 1:
                    clo = fns[cdef[c["l"]]]
                    tdef = None
                    for bb in B:
                        for st in bb["stmts"]:
                            if st["k"] == "assign" and st["place"] == {"l": tup["l"], "p": []} and st["rv"].get("agg") == "tuple":
                                tdef = st["rv"]["ops"]
                    if tdef is not None and clo["body"]["arg_count"] == 1 + len(tdef) and not clo["body"]["locals"][1]["ty"].startswith("&"):
                        b["term"] = {"k": "call", "func": {"const": {"ty": "closure", "fn": {"path": cdef[c["l"]], "local": True, "orig": cdef[c["l"]]}}},
                                     "args": [{"move": {"l": c["l"], "p": []}}] + copy.deepcopy(tdef), "dest": t["dest"], "target": t["target"], "unwind": t.get("unwind"), "s": t["s"]}
                        _splice(f, bi, clo)
                        SPLICED_CLOSURES.add(cdef[c["l"]])
                        done += 1
                        todo = "again"
                        break
                continue
            if sp_ == "core::iter::traits::iterator::Iterator::for_each" and len(t["args"]) == 2:
                # `it.for_each(|x| body)` = `for x in it { body }`: the loop the adapter abbreviates, the closure's body
                # spliced in as the loop body
                x = t["args"][0].get("move") or t["args"][0].get("copy")
                c = t["args"][1].get("move") or t["args"][1].get("copy")
                if x is None or c is None or x["p"] or c["p"] or ndefs.get(c["l"]) != 1 or c["l"] not in cdef or cdef[c["l"]] not in fns:
                    continue
                clo = fns[cdef[c["l"]]]
                if clo["body"]["arg_count"] != 2:
                    continue
                L = body["locals"]
                s_ = t["s"]
                OPT = "core::option::Option"
                ity, iadt = L[x["l"]]["ty"], L[x["l"]].get("adt")
                item_ty = clo["body"]["locals"][2]["ty"]
                by_ref = clo["body"]["locals"][1]["ty"].startswith("&")
                nfn = _next_fn(fns, ity, iadt)
                r_loc, o_loc, d_loc, u_loc, cr_loc = len(L), len(L) + 1, len(L) + 2, len(L) + 3, len(L) + 4
                L.append({"ty": "&mut " + ity, "adt": iadt})
                L.append({"ty": "core::option::Option<%s>" % item_ty, "adt": OPT})
                L.append({"ty": "isize", "adt": None})
                L.append({"ty": "()", "adt": None})
                L.append(copy.deepcopy(clo["body"]["locals"][1]))
                nb = len(B)
                b_head, b_sw, b_body, b_unreach = nb, nb + 1, nb + 2, nb + 3
                sd, nd = ENUM_DISCR[(OPT, "Some")], ENUM_DISCR[(OPT, "None")]
                B.append({"cleanup": False, "stmts": [{"k": "assign", "place": {"l": r_loc, "p": []}, "rv": {"ref": {"l": x["l"], "p": []}, "mut": True}, "s": s_}],
                          "term": {"k": "call", "func": {"const": {"ty": "fn", "fn": nfn}}, "args": [{"move": {"l": r_loc, "p": []}}], "dest": {"l": o_loc, "p": []},
                                   "target": b_sw, "unwind": t.get("unwind"), "s": s_}})
                B.append({"cleanup": False, "stmts": [{"k": "assign", "place": {"l": d_loc, "p": []}, "rv": {"discr": {"l": o_loc, "p": []}, "adt": OPT}, "s": s_}],
                          "term": {"k": "switch", "op": {"move": {"l": d_loc, "p": []}}, "ty": "isize", "targets": [[nd, t["target"]], [sd, b_body]], "otherwise": b_unreach, "s": s_}})
                self_arg = {"move": {"l": cr_loc, "p": []}} if by_ref else {"copy": {"l": c["l"], "p": []}}
                pre = [{"k": "assign", "place": {"l": cr_loc, "p": []}, "rv": {"ref": {"l": c["l"], "p": []}, "mut": True}, "s": s_}] if by_ref else []
                B.append({"cleanup": False, "stmts": pre,
                          "term": {"k": "call", "func": {"const": {"ty": "closure", "fn": {"path": cdef[c["l"]], "local": True, "orig": cdef[c["l"]]}}},
                                   "args": [self_arg, {"move": {"l": o_loc, "p": [{"downcast": "Some", "vi": sd}, {"f": 0, "n": "0", "adt": OPT, "v": "Some"}]}}],
                                   "dest": {"l": u_loc, "p": []}, "target": b_head, "unwind": t.get("unwind"), "s": s_}})
                B.append({"cleanup": False, "stmts": [], "term": {"k": "unreachable", "s": s_}})
                b["term"] = {"k": "goto", "target": b_head, "s": s_}
                _splice(f, b_body, clo)
                SPLICED_CLOSURES.add(cdef[c["l"]])
                done += 1
                todo = "again"
                break
            if sp_ == "core::bool::then_some" and len(t["args"]) == 2:
                # `c.then_some(v)` = if c { Some(v) } else { None }  (v is already evaluated)
                x = t["args"][0].get("move") or t["args"][0].get("copy")
                if x is None or x["p"]:
                    continue
                OPT = "core::option::Option"
                s_ = t["s"]
                nb = len(B)
                dest, target = t["dest"], t["target"]
                B.append({"cleanup": False, "stmts": [{"k": "assign", "place": copy.deepcopy(dest), "rv": {"agg": "adt", "adt": OPT, "variant": "None", "fields": [], "ops": []}, "s": s_}],
                          "term": {"k": "goto", "target": target, "s": s_}})
                B.append({"cleanup": False, "stmts": [{"k": "assign", "place": copy.deepcopy(dest), "rv": {"agg": "adt", "adt": OPT, "variant": "Some", "fields": ["0"], "ops": [copy.deepcopy(t["args"][1])]}, "s": s_}],
                          "term": {"k": "goto", "target": target, "s": s_}})
                b["term"] = {"k": "switch", "op": {"copy": {"l": x["l"], "p": []}}, "ty": "bool", "targets": [[0, nb]], "otherwise": nb + 1, "s": s_}
                done += 1
                todo = "again"
                break
            if sp_ == "core::option::Option::zip" and len(t["args"]) == 2:
                # `a.zip(b)` = match a { Some(x) => match b { Some(y) => Some((x, y)), None => None }, None => None }
                x = t["args"][0].get("move") or t["args"][0].get("copy")
                y = t["args"][1].get("move") or t["args"][1].get("copy")
                dty = body["locals"][t["dest"]["l"]]["ty"] if not t["dest"]["p"] else ""
                if x is None or y is None or x["p"] or y["p"] or not (dty.startswith("core::option::Option<(") and dty.endswith(")>")):
                    continue
                L = body["locals"]
                OPT = "core::option::Option"
                s_ = t["s"]
                d1, d2, tup = len(L), len(L) + 1, len(L) + 2
                L.append({"ty": "isize", "adt": None}); L.append({"ty": "isize", "adt": None})
                L.append({"ty": dty[len("core::option::Option<"):-1], "adt": None})
                nb = len(B)
                b_none, b_second, b_some, b_unreach = nb, nb + 1, nb + 2, nb + 3
                dest, target = t["dest"], t["target"]
                sd, nd = ENUM_DISCR[(OPT, "Some")], ENUM_DISCR[(OPT, "None")]
                pay = lambda o: {"move": {"l": o["l"], "p": [{"downcast": "Some", "vi": sd}, {"f": 0, "n": "0", "adt": OPT, "v": "Some"}]}}
                B.append({"cleanup": False, "stmts": [{"k": "assign", "place": copy.deepcopy(dest), "rv": {"agg": "adt", "adt": OPT, "variant": "None", "fields": [], "ops": []}, "s": s_}],
                          "term": {"k": "goto", "target": target, "s": s_}})
                B.append({"cleanup": False, "stmts": [{"k": "assign", "place": {"l": d2, "p": []}, "rv": {"discr": {"l": y["l"], "p": []}, "adt": OPT}, "s": s_}],
                          "term": {"k": "switch", "op": {"move": {"l": d2, "p": []}}, "ty": "isize", "targets": [[nd, b_none], [sd, b_some]], "otherwise": b_unreach, "s": s_}})
                B.append({"cleanup": False, "stmts": [{"k": "assign", "place": {"l": tup, "p": []}, "rv": {"agg": "tuple", "ops": [pay(x), pay(y)]}, "s": s_},
                                                      {"k": "assign", "place": copy.deepcopy(dest), "rv": {"agg": "adt", "adt": OPT, "variant": "Some", "fields": ["0"], "ops": [{"move": {"l": tup, "p": []}}]}, "s": s_}],
                          "term": {"k": "goto", "target": target, "s": s_}})
                B.append({"cleanup": False, "stmts": [], "term": {"k": "unreachable", "s": s_}})
                b["stmts"].append({"k": "assign", "place": {"l": d1, "p": []}, "rv": {"discr": {"l": x["l"], "p": []}, "adt": OPT}, "s": s_})
                b["term"] = {"k": "switch", "op": {"move": {"l": d1, "p": []}}, "ty": "isize", "targets": [[nd, b_none], [sd, b_second]], "otherwise": b_unreach, "s": s_}
                done += 1
                todo = "again"
                break
            lz = LAZY.get(sp_)
            if lz is not None and len(t["args"]) == 2:
                x = t["args"][0].get("move") or t["args"][0].get("copy")
                c = t["args"][1].get("move") or t["args"][1].get("copy")
                if x is None or c is None or x["p"] or c["p"] or ndefs.get(c["l"]) != 1 or c["l"] not in cdef or cdef[c["l"]] not in fns:
                    continue
                clo = fns[cdef[c["l"]]]
                if clo["body"]["arg_count"] != 1 or clo["body"]["locals"][1]["ty"].startswith("&"):
                    continue
                _desugar_lazy(f, bi, t, lz, x, c, clo, cdef[c["l"]])
                SPLICED_CLOSURES.add(cdef[c["l"]])
                done += 1
                todo = "again"
                break
            spec = COMBINATORS.get(sp_)
            if spec is None or len(t["args"]) != (3 if spec[3] == "map_or" else 2):
                continue
            x = t["args"][0].get("move") or t["args"][0].get("copy")
            c = t["args"][-1].get("move") or t["args"][-1].get("copy")
            if x is None or c is None or x["p"] or c["p"] or ndefs.get(c["l"]) != 1 or c["l"] not in cdef or cdef[c["l"]] not in fns:
                continue
            clo = fns[cdef[c["l"]]]
            if clo["body"]["arg_count"] != 2 or clo["body"]["locals"][1]["ty"].startswith("&"):
                continue   # only closures called by value (FnOnce bodies taking the closure itself)
            todo = (bi, t, spec, x, c, clo)
            break
        if todo == "again":
            continue
        if todo is None:
            break
        bi, t, (adt, pv, ov, kind), x, c, clo = todo
        L = body["locals"]
        s_ = t["s"]
        d_loc = len(L)
        L.append({"ty": "isize", "adt": None})
        v_loc = len(L)
        L.append(copy.deepcopy(clo["body"]["locals"][2]))
        if kind == "filter":
            # `o.filter(|v| p(v))` = match o { Some(v) => if p(&v) { Some(v) } else { None }, None => None }
            pty = L[v_loc]["ty"]
            if not pty.startswith("&") or pty.startswith("&mut"):
                L.pop(); L.pop()
                break
            import re as _re
            L[v_loc] = dict(L[v_loc], ty=_re.sub(r"^&('[a-z_]+ )?", "", pty))
            ref_loc = len(L)
            L.append(copy.deepcopy(clo["body"]["locals"][2]))
            r_loc = len(L)
            L.append({"ty": "bool", "adt": None})
            dest, target = t["dest"], t["target"]
            pdisc, odisc = ENUM_DISCR[(adt, pv)], ENUM_DISCR[(adt, ov)]
            nb = len(B)
            b_other, b_some, b_unreach, b_test, b_wrap = nb, nb + 1, nb + 2, nb + 3, nb + 4
            B.append({"cleanup": False, "stmts": [{"k": "assign", "place": copy.deepcopy(dest), "rv": {"agg": "adt", "adt": adt, "variant": ov, "fields": [], "ops": []}, "s": s_}],
                      "term": {"k": "goto", "target": target, "s": s_}})
            proj = [{"downcast": pv, "vi": pdisc}, {"f": 0, "n": "0", "adt": adt, "v": pv}]
            some_stmts = [{"k": "assign", "place": {"l": v_loc, "p": []}, "rv": {"use": {"move": {"l": x["l"], "p": proj}}}, "s": s_},
                          {"k": "assign", "place": {"l": ref_loc, "p": []}, "rv": {"ref": {"l": v_loc, "p": []}, "mut": False}, "s": s_}]
            cterm = {"k": "call", "func": {"const": {"ty": "closure", "fn": {"path": cdef[c["l"]], "local": True, "orig": cdef[c["l"]]}}},
                     "args": [{"move": {"l": c["l"], "p": []}}, {"move": {"l": ref_loc, "p": []}}], "dest": {"l": r_loc, "p": []}, "target": b_test, "unwind": t.get("unwind"), "s": s_}
            B.append({"cleanup": False, "stmts": some_stmts, "term": cterm})
            B.append({"cleanup": False, "stmts": [], "term": {"k": "unreachable", "s": s_}})
            B.append({"cleanup": False, "stmts": [], "term": {"k": "switch", "op": {"move": {"l": r_loc, "p": []}}, "ty": "bool", "targets": [[0, b_other]], "otherwise": b_wrap, "s": s_}})
            B.append({"cleanup": False, "stmts": [{"k": "assign", "place": copy.deepcopy(dest), "rv": {"agg": "adt", "adt": adt, "variant": pv, "fields": ["0"], "ops": [{"move": {"l": v_loc, "p": []}}]}, "s": s_}],
                      "term": {"k": "goto", "target": target, "s": s_}})
            B[bi]["stmts"].append({"k": "assign", "place": {"l": d_loc, "p": []}, "rv": {"discr": {"l": x["l"], "p": []}, "adt": adt}, "s": s_})
            B[bi]["term"] = {"k": "switch", "op": {"move": {"l": d_loc, "p": []}}, "ty": "isize", "targets": [[odisc, b_other], [pdisc, b_some]], "otherwise": b_unreach, "s": s_}
            _splice(f, b_some, clo)
            SPLICED_CLOSURES.add(cdef[c["l"]])
            done += 1
            continue
        dest, target = t["dest"], t["target"]
        pdisc, odisc = ENUM_DISCR[(adt, pv)], ENUM_DISCR[(adt, ov)]
        nb = len(B)
        b_other, b_some, b_unreach = nb, nb + 1, nb + 2
        # other arm
        if kind == "pred":
            other_rv = {"use": {"const": {"ty": "bool", "val": {"int": 0}}}}
        elif kind == "pred_or_true":
            other_rv = {"use": {"const": {"ty": "bool", "val": {"int": 1}}}}
        elif kind == "map_or":
            other_rv = {"use": copy.deepcopy(t["args"][1])}
        elif kind == "map_pass":
            # the variant the closure does not see passes through with its payload
            other_rv = {"agg": "adt", "adt": adt, "variant": ov, "fields": ["0"],
                        "ops": [{"move": {"l": x["l"], "p": [{"downcast": ov, "vi": odisc}, {"f": 0, "n": "0", "adt": adt, "v": ov}]}}]}
        else:
            other_rv = {"agg": "adt", "adt": adt, "variant": ov, "fields": [], "ops": []}
        B.append({"cleanup": False, "stmts": [{"k": "assign", "place": copy.deepcopy(dest), "rv": other_rv, "s": s_}], "term": {"k": "goto", "target": target, "s": s_}})
        # payload arm: call the closure (spliced below)
        proj = [{"downcast": pv, "vi": pdisc}, {"f": 0, "n": "0", "adt": adt, "v": pv}]
        some_stmts = [{"k": "assign", "place": {"l": v_loc, "p": []}, "rv": {"use": {"move": {"l": x["l"], "p": proj}}}, "s": s_}]
        if kind in ("map", "map_pass"):
            r_loc = len(L)
            L.append(copy.deepcopy(clo["body"]["locals"][0]))
            b_wrap = nb + 3
            call_dest, call_target = {"l": r_loc, "p": []}, b_wrap
        else:
            call_dest, call_target = copy.deepcopy(dest), target
        cterm = {"k": "call", "func": {"const": {"ty": "closure", "fn": {"path": cdef[c["l"]], "local": True, "orig": cdef[c["l"]]}}},
                 "args": [{"move": {"l": c["l"], "p": []}}, {"move": {"l": v_loc, "p": []}}], "dest": call_dest, "target": call_target, "unwind": t.get("unwind"), "s": s_}
        B.append({"cleanup": False, "stmts": some_stmts, "term": cterm})
        B.append({"cleanup": False, "stmts": [], "term": {"k": "unreachable", "s": s_}})
        if kind in ("map", "map_pass"):
            B.append({"cleanup": False, "stmts": [{"k": "assign", "place": copy.deepcopy(dest), "rv": {"agg": "adt", "adt": adt, "variant": pv, "fields": ["0"], "ops": [{"move": {"l": r_loc, "p": []}}]}, "s": s_}],
                      "term": {"k": "goto", "target": target, "s": s_}})
        # the dispatching block
        B[bi]["stmts"].append({"k": "assign", "place": {"l": d_loc, "p": []}, "rv": {"discr": {"l": x["l"], "p": []}, "adt": adt}, "s": s_})
        B[bi]["term"] = {"k": "switch", "op": {"move": {"l": d_loc, "p": []}}, "ty": "isize", "targets": [[odisc, b_other], [pdisc, b_some]], "otherwise": b_unreach, "s": s_}
        _splice(f, b_some, clo)
        SPLICED_CLOSURES.add(cdef[c["l"]])
        done += 1
    return done


ENUM_DISCR = {("core::option::Option", "None"): 0, ("core::option::Option", "Some"): 1,
              ("core::result::Result", "Ok"): 0, ("core::result::Result", "Err"): 1}


def set_enums(adts):
    """variant -> discriminant of every enum of the analysed crates (for selector recognition and switch folding)"""
    for name, a in adts.items():
        if a.get("kind") == "enum":
            for v in a.get("variants", []):
                if v.get("discr") is not None:
                    ENUM_DISCR[(name, v["name"])] = v["discr"]


def _is_enum_agg(rv):
    return rv.get("agg") == "adt" and (rv.get("adt"), rv.get("variant")) in ENUM_DISCR


def fold_constant_switches(f):
    """Constant propagation through spliced-in parameters: a helper taking a flag (`fn answer(m, reject: bool)`) called
    with a literal is read, at that call site, as the branch the literal selects. A `switchInt` on a local whose only
    definition is a bool/int constant (directly or through plain copies), and that is never mutably borrowed, becomes
    a `goto`. Returns the number of folded switches."""
    body = f["body"]
    B = body["blocks"]
    ndefs, cdef, copyof, mutref = {}, {}, {}, set()
    for b in B:
        for st in b["stmts"]:
            if st["k"] != "assign":
                continue
            rv = st["rv"]
            if "ref" in rv and rv.get("mut"):
                mutref.add(rv["ref"]["l"])
            if "rawptr" in rv:
                mutref.add(rv["rawptr"]["l"])
            pl = st["place"]
            ndefs[pl["l"]] = ndefs.get(pl["l"], 0) + 1
            if pl["p"]:
                ndefs[pl["l"]] += 1   # partial write: not a plain constant
                continue
            if "use" in rv:
                u = rv["use"]
                if "const" in u and isinstance(u["const"].get("val"), dict) and "int" in u["const"]["val"] and u["const"].get("ty") in ("bool", "u8", "u16", "u32", "u64", "usize", "i32", "i64", "isize"):
                    cdef[pl["l"]] = u["const"]["val"]["int"]
                else:
                    src = u.get("copy") or u.get("move")
                    if src is not None and not src["p"]:
                        copyof[pl["l"]] = src["l"]
        t = b["term"]
        if t["k"] == "call" and t.get("dest"):
            ndefs[t["dest"]["l"]] = ndefs.get(t["dest"]["l"], 0) + 2
    argc = body["arg_count"]
    # locals holding an enum variant built in place (single definition), and the discriminant reads of them
    vdef = {}
    for b in B:
        for st in b["stmts"]:
            if st["k"] == "assign" and not st["place"]["p"] and _is_enum_agg(st["rv"]):
                vdef[st["place"]["l"]] = ENUM_DISCR[(st["rv"]["adt"], st["rv"]["variant"])]
    for b in B:
        for st in b["stmts"]:
            if st["k"] == "assign" and not st["place"]["p"] and "discr" in st["rv"]:
                src = st["rv"]["discr"]
                sl = src["l"]
                if not src["p"] and sl in vdef and ndefs.get(sl) == 1 and sl not in mutref and sl > argc:
                    cdef[st["place"]["l"]] = vdef[sl]
                elif not src["p"] and sl in copyof and ndefs.get(sl) == 1 and copyof[sl] in vdef and ndefs.get(copyof[sl]) == 1 and copyof[sl] not in mutref and copyof[sl] > argc and sl not in mutref:
                    cdef[st["place"]["l"]] = vdef[copyof[sl]]
    # a variant stored in a field of a plain value built once (`let plan = RolePlan { vote: None, .. }; .. match plan.vote`):
    # the discriminant read of `plan.vote` (through plain moves of `plan`) is the stored variant's
    aggdef = {}
    for b in B:
        for st in b["stmts"]:
            if st["k"] == "assign" and not st["place"]["p"] and st["rv"].get("agg") in ("adt", "tuple") and not _is_enum_agg(st["rv"]):
                aggdef[st["place"]["l"]] = st["rv"]

    def stable(l):
        return ndefs.get(l) == 1 and l not in mutref and l > argc

    def field_variant(l, proj, depth=0):
        if depth > 8 or not stable(l):
            return None
        if not proj:
            if l in vdef:
                return vdef[l]
            if l in copyof:
                return field_variant(copyof[l], proj, depth + 1)
            return None
        if l in copyof:
            return field_variant(copyof[l], proj, depth + 1)
        rv = aggdef.get(l)
        p0 = proj[0]
        if rv is None or not isinstance(p0, dict) or "f" not in p0 or p0.get("v") is not None:
            return None
        if rv["agg"] == "tuple":
            i = p0["f"]
        else:
            names = rv.get("fields", [])
            if p0.get("n") not in names:
                return None
            i = names.index(p0["n"])
        if i >= len(rv.get("ops", [])):
            return None
        op = rv["ops"][i]
        src = op.get("move") or op.get("copy")
        if src is None or src["p"]:
            return None
        return field_variant(src["l"], proj[1:], depth + 1)
    for b in B:
        for st in b["stmts"]:
            if st["k"] == "assign" and not st["place"]["p"] and "discr" in st["rv"] and st["rv"]["discr"]["p"] and st["place"]["l"] not in cdef:
                src = st["rv"]["discr"]
                v_ = field_variant(src["l"], src["p"])
                if v_ is not None:
                    cdef[st["place"]["l"]] = v_
    const = {l: v for l, v in cdef.items() if ndefs.get(l) == 1 and l not in mutref and l > argc}
    for _ in range(4):
        for l, srcl in copyof.items():
            if l not in const and ndefs.get(l) == 1 and l not in mutref and l > argc and srcl in const:
                const[l] = const[srcl]
    n = 0
    for b in B:
        t = b["term"]
        if t["k"] != "switch":
            continue
        op = t["op"].get("copy") or t["op"].get("move")
        if op is None or op["p"] or op["l"] not in const:
            continue
        v = const[op["l"]]
        tgt = t["otherwise"]
        for tv, tg in t["targets"]:
            if tv == v:
                tgt = tg
        b["term"] = {"k": "goto", "target": tgt, "s": t["s"]}
        n += 1
    return n


def _all_defs(B, l):
    out = []
    for b in B:
        for st in b["stmts"]:
            if st["k"] == "assign" and st["place"]["l"] == l and not st["place"]["p"]:
                out.append(st["rv"])
        t = b["term"]
        if t["k"] == "call" and t.get("dest") and t["dest"]["l"] == l:
            out.append(None)
    return out


def _selector_rv(B, rv, depth=0):
    """a value that *selects*: a constant, an enum/Option/Result variant built in place, or a copy / borrow of a
    local all of whose definitions are such values -- not a computed quantity"""
    if rv is None or depth > 3:
        return False
    if "use" in rv:
        u = rv["use"]
        if "const" in u:
            return True
        pl = u.get("move") or u.get("copy")
        if pl is not None and all(p == "*" for p in pl["p"]):
            ds = _all_defs(B, pl["l"])
            return bool(ds) and all(_selector_rv(B, d, depth + 1) for d in ds)
        return False
    if "ref" in rv:
        pl = rv["ref"]
        if all(p == "*" for p in pl["p"]):
            ds = _all_defs(B, pl["l"])
            return bool(ds) and all(_selector_rv(B, d, depth + 1) for d in ds)
        return False
    if rv.get("agg") == "adt":
        return rv.get("adt") in ("core::option::Option", "core::result::Result") or not rv.get("ops") or _is_enum_agg(rv)
    return False


def _selector_def(B, preds, p, L, ndefs):
    st = [x for x in B[p]["stmts"] if x["k"] == "assign"]
    if not st:
        return False
    return _selector_rv(B, st[-1]["rv"])


def split_selector_joins(f, rounds=6, max_stmts=16, max_new=200):
    """Tail duplication of selector joins (the inverse of hoisting a call out of an if-chain):

        let t = if a { X } else if b { Y } else { Z };  g(t)     ==>     if a { g(X) } else if b { g(Y) } else { g(Z) }

    A join block J all of whose predecessors reach it by `goto` right after assigning one and the same local L
    (which has no other definition: a pure phi), and which reads L, is copied once per predecessor. Semantics are
    unchanged; every copy sees a single reaching definition of L, so the rules read the arms as they were written
    before the value was hoisted. Returns the number of copies made."""
    body = f["body"]
    B = body["blocks"]
    made = 0
    for _ in range(rounds):
        # jump threading: a `goto` to an empty block that only jumps on goes where that block goes
        for _t in range(4):
            ch = False
            for b in B:
                t = b["term"]
                if t["k"] == "goto":
                    x = B[t["target"]]
                    if not x["stmts"] and x["term"]["k"] == "goto" and x["term"]["target"] != t["target"] and not x.get("cleanup") and b["stmts"]:
                        t["target"] = x["term"]["target"]
                        ch = True
            if not ch:
                break
        live, work_ = set(), [0]
        while work_:
            x_ = work_.pop()
            if x_ in live:
                continue
            live.add(x_)
            work_ += _succ(B[x_]["term"])
        preds = {}
        for bi, b in enumerate(B):
            if bi not in live:
                continue
            t = b["term"]
            for tg in _succ(t):
                preds.setdefault(tg, []).append((bi, t["k"]))
        ndefs = {}
        for bi, b in enumerate(B):
            if bi not in live:
                continue
            for st in b["stmts"]:
                if st["k"] == "assign":
                    ndefs[st["place"]["l"]] = ndefs.get(st["place"]["l"], 0) + 1
            t = b["term"]
            if t["k"] == "call" and t.get("dest"):
                ndefs[t["dest"]["l"]] = ndefs.get(t["dest"]["l"], 0) + 1
        todo = None
        for J, ps in sorted(preds.items()):
            if len(ps) < 2 or any(k != "goto" for _, k in ps) or len({p for p, _ in ps}) != len(ps):
                continue
            jb = B[J]
            if jb.get("cleanup") or len(jb["stmts"]) > max_stmts:
                continue
            ls = set()
            for p, _ in ps:
                st = [x for x in B[p]["stmts"] if x["k"] == "assign"]
                if st:
                    if st[-1]["place"]["p"]:
                        ls = None
                        break
                    ls.add(st[-1]["place"]["l"])
                    continue
                # no assignment in the block: it may be the return target of the call that defines the local
                qs = preds.get(p, [])
                if len(qs) == 1 and qs[0][1] == "call" and B[qs[0][0]]["term"].get("target") == p and B[qs[0][0]]["term"].get("dest") and not B[qs[0][0]]["term"]["dest"]["p"]:
                    ls.add(B[qs[0][0]]["term"]["dest"]["l"])
                    continue
                ls = None
                break
            if not ls or len(ls) != 1:
                continue
            L = next(iter(ls))
            if not all(_selector_def(B, preds, p, L, ndefs) for p, _ in ps):
                continue
            if body["locals"][L]["ty"] == "()" or ndefs.get(L, 0) != len(ps) or L <= body["arg_count"] and L != 0:
                continue
            if not (_reads_local(jb["stmts"], L) or _reads_local(jb["term"], L)) and not (L == 0 and jb["term"]["k"] == "return"):
                continue
            # not a loop header
            seen, work = set(), list(_succ(jb["term"]))
            loop = False
            while work:
                x = work.pop()
                if x == J:
                    loop = True
                    break
                if x in seen:
                    continue
                seen.add(x)
                work += _succ(B[x]["term"])
            if loop:
                continue
            todo = (J, [p for p, _ in ps])
            L_todo = L
            break
        if todo is None or made + len(todo[1]) > max_new:
            break
        J, ps = todo
        copies = [(ps[0], J)]
        for p in ps[1:]:
            B.append(copy.deepcopy(B[J]))
            B[p]["term"]["target"] = len(B) - 1
            copies.append((p, len(B) - 1))
            made += 1
        # each copy has a single predecessor: it continues that block (so that the one definition of L it sees, and a
        # `match` on it, sit in one straight line), and a switch decided by that line is folded
        for p, jc in copies:
            if B[p]["term"].get("k") == "goto" and B[p]["term"].get("target") == jc and jc != p:
                B[p]["stmts"] = B[p]["stmts"] + B[jc]["stmts"]
                B[p]["term"] = B[jc]["term"]
                B[jc] = {"cleanup": False, "stmts": [], "term": {"k": "unreachable", "s": B[jc]["term"]["s"]}}
                _fold_block(B[p])
    return made


def _fold_block(blk):
    """constant propagation inside one basic block: `X = Variant(..)`, `Y = move X`, `d = discriminant(Y)`,
    `switchInt(d)` -- the switch becomes a goto. Returns True if it folded."""
    variant, kint = {}, {}
    for x in blk["stmts"]:
        if x["k"] != "assign":
            continue
        pl, rv = x["place"], x["rv"]
        if "ref" in rv and rv.get("mut"):
            variant.pop(rv["ref"]["l"], None)
            kint.pop(rv["ref"]["l"], None)
        if "rawptr" in rv:
            variant.pop(rv["rawptr"]["l"], None)
            kint.pop(rv["rawptr"]["l"], None)
        if pl["p"]:
            variant.pop(pl["l"], None)
            kint.pop(pl["l"], None)
            continue
        l = pl["l"]
        variant.pop(l, None)
        kint.pop(l, None)
        if _is_enum_agg(rv):
            variant[l] = ENUM_DISCR[(rv["adt"], rv["variant"])]
        elif "use" in rv:
            u = rv["use"]
            if "const" in u and isinstance(u["const"].get("val"), dict) and "int" in u["const"]["val"]:
                kint[l] = u["const"]["val"]["int"]
            else:
                src = u.get("move") or u.get("copy")
                if src is not None and not src["p"]:
                    if src["l"] in variant:
                        variant[l] = variant[src["l"]]
                    if src["l"] in kint:
                        kint[l] = kint[src["l"]]
        elif "discr" in rv and not rv["discr"]["p"] and rv["discr"]["l"] in variant:
            kint[l] = variant[rv["discr"]["l"]]
    t = blk["term"]
    if t["k"] != "switch":
        return False
    op = t["op"].get("copy") or t["op"].get("move")
    if op is None or op["p"] or op["l"] not in kint:
        return False
    known = kint[op["l"]]
    tgt = t["otherwise"]
    for tv, tg in t["targets"]:
        if tv == known:
            tgt = tg
    blk["term"] = {"k": "goto", "target": tgt, "s": t["s"]}
    return True


def fn_renames(js):
    """{current short key: reference short key} for private functions of crate `raft` that were merely renamed:
    the reference function vanished, and exactly one new function of the same impl/module has its signature
    (ties are broken by an identical body summary). Everything else is left to the role finders."""
    ref = _ref_table()
    if ref is None:
        return {}
    fns = {}
    for j in js:
        if j["crate"] == "raft":
            fns.update(j["fns"])
    cur_short = {_short(k): k for k, f in fns.items() if f["kind"] != "Closure"}
    ref_sigs = ref["fns"]
    new = [s for s in cur_short if s not in ref_sigs]
    vanished = {s: v for s, v in ref_sigs.items() if s not in cur_short}
    if not new or not vanished:
        return {}
    m = {}
    for s in new:
        f = fns[cur_short[s]]
        if f.get("impl_trait"):
            continue
        sig = _sig(f)
        par = s.rsplit("::", 1)[0]
        cands = [o for o, v in vanished.items() if o.rsplit("::", 1)[0] == par and v[0] == sig[0] and v[1] == sig[1] and tuple(v[2]) == sig[2]]
        ft = _features(f)
        if f.get("vis") == "Public":
            # a `pub` function (of a type the crate need not export) counts as renamed only with an unchanged body summary
            cands = [o for o in cands if len(vanished[o]) > 3 and vanished[o][3] == ft]
            if len(cands) == 1:
                m[s] = cands[0]
            continue
        if len(cands) > 1:
            cands = [o for o in cands if len(vanished[o]) > 3 and vanished[o][3] == ft]
        elif len(cands) == 1 and len(vanished[cands[0]]) > 3:
            # a lone candidate must still look like the vanished body (a renamed function, possibly lightly edited):
            # a new function that merely shares a common signature such as `(&mut self) -> bool` is not a rename
            rf = vanished[cands[0]][3]
            a, b = set(rf[1]), set(ft[1])
            jac = 1.0 if not a and not b else len(a & b) / float(len(a | b))
            if jac < 0.5 or abs(rf[0] - ft[0]) > max(2, 0.34 * max(rf[0], ft[0])):
                cands = []
        if not cands and False:
            pass
        if not cands:
            # same receiver and parameters, another return type, and a body that still does what the vanished one
            # did (most of its outside calls): the function that took the role over (`-> Option<Message>` for the
            # caller to send became `-> ()` sending it itself)
            ft = _features(f)
            for o, v in vanished.items():
                if o.rsplit("::", 1)[0] == par and v[0] == sig[0] and v[1] == sig[1] and tuple(v[2][1:]) == sig[2][1:] and len(v) > 3 and v[3][1]:
                    a, b = set(v[3][1]), set(ft[1])
                    if len(a & b) >= 0.8 * len(a) and len(a & b) >= 3:
                        cands.append(o)
        if len(cands) == 1:
            m[s] = cands[0]
    # injective only
    tgt = {}
    for s, o in m.items():
        tgt.setdefault(o, []).append(s)
    return {s: o for s, o in m.items() if len(tgt[o]) == 1}


def apply_fn_renames(js, ren):
    """Rewrite the raw facts so that a renamed private function carries its reference name again (keys, names,
    callee paths, fn-item types, closure parents)."""
    if not ren:
        return
    pairs = [(n, o, n.rsplit("::", 1)[1], o.rsplit("::", 1)[1]) for n, o in ren.items()]
    pats = [(n, re.compile(r"::%s\b" % re.escape(nn)), "::" + on) for n, o, nn, on in pairs]

    def fix(v):
        if "::" not in v:
            return v
        sv = None
        for n, pat, rep in pats:
            if pat.search(v):
                if sv is None:
                    sv = _short(v)
                if n in sv:
                    v = pat.sub(rep, v)
                    sv = None
        return v

    def walk(o):
        if isinstance(o, dict):
            for k in list(o.keys()):
                v = o[k]
                if isinstance(v, str):
                    if k in ("orig", "path", "ty", "closure", "parent", "root", "callee"):
                        o[k] = fix(v)
                else:
                    walk(v)
        elif isinstance(o, list):
            for v in o:
                walk(v)

    for j in js:
        walk(j["fns"])
        if j["crate"] != "raft":
            continue
        for k in list(j["fns"].keys()):
            k2 = fix(k)
            f = j["fns"][k]
            if k2 != k:
                j["fns"][k2] = j["fns"].pop(k)
            for n, o, nn, on in pairs:
                if f.get("name") == nn and _short(k2).startswith(o):
                    f["name"] = on


def _map_place(pl, loff):
    pl["l"] += loff
    for pr in pl.get("p", []):
        if isinstance(pr, dict) and "index" in pr:
            pr["index"] += loff


def _walk_locals(o, loff, poff):
    """renumber locals / promoted indices inside a copied callee fragment"""
    if isinstance(o, dict):
        if "l" in o and "p" in o and isinstance(o["p"], list) and isinstance(o["l"], int):
            _map_place(o, loff)
            return
        if "promoted" in o and isinstance(o["promoted"], int) and "ty" in o:
            o["promoted"] += poff
        for k, v in o.items():
            _walk_locals(v, loff, poff)
    elif isinstance(o, list):
        for v in o:
            _walk_locals(v, loff, poff)


def _callee_key(t, fns):
    fn = t.get("func", {}).get("const", {}).get("fn") if isinstance(t.get("func"), dict) else None
    if not fn or not fn.get("local"):
        return None
    p = fn.get("path")
    return p if p in fns else None


def _splice(caller, bi, callee):
    cb = caller["body"]
    hb = copy.deepcopy(callee["body"])
    loff = len(cb["locals"])
    boff = len(cb["blocks"])
    poff = len(caller.get("promoted", []))
    t = cb["blocks"][bi]["term"]
    # locals
    cb["locals"] += hb["locals"]
    for v in hb.get("vars", []):
        v2 = copy.deepcopy(v)
        _map_place(v2["place"], loff)
        v2.pop("arg", None)
        v2["arg"] = None
        cb["vars"].append(v2)
    # blocks
    for blk in hb["blocks"]:
        for st in blk["stmts"]:
            _walk_locals(st, loff, poff)
        tt = blk["term"]
        for key in ("target", "otherwise", "unwind"):
            if isinstance(tt.get(key), int):
                tt[key] += boff
        if tt.get("targets"):
            tt["targets"] = [[v, tg + boff] for v, tg in tt["targets"]]
        for key in ("args", "dest", "op", "place", "cond", "func"):
            if key in tt:
                _walk_locals(tt[key], loff, poff)
        if tt["k"] == "return":
            if t.get("target") is None:
                blk["term"] = {"k": "unreachable", "s": tt["s"]}
            else:
                if hb["locals"][0]["ty"] != "()" or True:
                    blk["stmts"].append({"k": "assign", "place": copy.deepcopy(t["dest"]), "rv": {"use": {"move": {"l": loff, "p": []}}}, "s": tt["s"]})
                blk["term"] = {"k": "goto", "target": t["target"], "s": tt["s"]}
        elif tt["k"] == "resume" and isinstance(t.get("unwind"), int):
            blk["term"] = {"k": "goto", "target": t["unwind"], "s": tt["s"]}
        cb["blocks"].append(blk)
    caller.setdefault("promoted", [])
    caller["promoted"] += copy.deepcopy(callee.get("promoted", []))
    # the call site: parameters := arguments; jump to the callee's entry
    blk = cb["blocks"][bi]
    for i, arg in enumerate(t["args"]):
        blk["stmts"].append({"k": "assign", "place": {"l": loff + 1 + i, "p": []}, "rv": {"use": copy.deepcopy(arg)}, "s": t["s"]})
    blk["term"] = {"k": "goto", "target": boff, "s": t["s"]}


def inline_new_helpers(js):
    """Mutates the raw fact files; returns the list of inlined helper keys."""
    helpers = new_helpers(js)
    if not helpers:
        return []
    fns = {}
    owner = {}
    for j in js:
        if j["crate"] == "raft":
            for k, f in j["fns"].items():
                fns[k] = f
                owner[k] = j
    hs = set(helpers)
    done = []
    # bottom-up: a helper that calls another new helper gets that one inlined first
    for _ in range(4):
        progressed = False
        for h in list(hs):
            calls_other = any(_callee_key(b["term"], fns) in hs and _callee_key(b["term"], fns) != h for b in fns[h]["body"]["blocks"] if b["term"]["k"] == "call")
            recursive = any(_callee_key(b["term"], fns) == h for b in fns[h]["body"]["blocks"] if b["term"]["k"] == "call")
            if calls_other or recursive:
                continue
            for k, f in list(fns.items()):
                if k == h:
                    continue
                bodies = [f] if True else []
                n = 0
                while n < 8:
                    idx = [bi for bi, b in enumerate(f["body"]["blocks"]) if b["term"]["k"] == "call" and _callee_key(b["term"], fns) == h]
                    if not idx:
                        break
                    _splice(f, idx[0], fns[h])
                    n += 1
            hs.discard(h)
            done.append(h)
            progressed = True
        if not progressed:
            break
    # a helper that is also passed around as a value (`iter().any(is_conf_change_entry)`) stays a unit of analysis
    as_value = set()

    def walk(o, in_func=False):
        if isinstance(o, dict):
            if not in_func and "fn" in o and isinstance(o["fn"], dict) and o["fn"].get("local") and "path" in o["fn"]:
                as_value.add(o["fn"]["path"])
            for k, v in o.items():
                walk(v, k == "func")
        elif isinstance(o, list):
            for v in o:
                walk(v, False)
    for k, f in fns.items():
        walk(f["body"]["blocks"])
    for h in done:
        if h in as_value or h in KEEP_INLINED:
            continue
        # closures defined inside the helper keep their own bodies; the helper itself is no longer a unit of analysis
        owner[h]["fns"].pop(h, None)
        fns.pop(h, None)
    return done


def write_ref_table(js, path=None):
    path = path or os.path.join(HERE, "fn_table.json")
    tab = {}
    for j in js:
        if j["crate"] != "raft":
            continue
        for k, f in j["fns"].items():
            if f["kind"] == "Closure":
                continue
            s = _sig(f)
            tab[_short(k)] = [s[0], s[1], list(s[2]), _features(f), _body_hash(f)]
    json.dump({"fns": tab}, open(path, "w"), indent=0, sort_keys=True)
    return len(tab)
