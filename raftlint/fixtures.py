"""Positive/negative controls: the engine's primitives are exercised on /verif/fixtures on every run.
A control that does not behave as expected means the machinery is broken (exit 2, no verdict)."""
from .facts import load_dir
from .prog import Program, Site, killed_rooted
from .engine import Cx
from .pg import PG
from .templates import send_templates


def run(facts_dir):
    facts = load_dir(facts_dir)
    prog = Program(facts)
    cx = Cx(prog)
    out = []

    def expect(name, got, want):
        out.append({"control": name, "ok": got == want, "got": repr(got)[:120], "want": repr(want)[:120]})

    def sink_site(fn):
        for sp, s in prog.calls_out[fn.key]:
            if s.kind == "call" and sp.endswith("St::sink"):
                return s
        return None

    def is_check(lits):
        return any(l[0] == "is" and l[2] is True and l[1][0] == "call" and l[1][1].endswith("fixtures::check") for l in lits)
    for name, want in (("guarded_ok", True), ("guarded_bad", False)):
        f = prog.one("St::" + name)
        expect("guard:" + name, cx.pg(f).guarded(sink_site(f).at, is_check)[0], want)

    def p_or_check(lits):
        return is_check(lits) or any(l[0] == "is" and l[2] is True and l[1][0] == "param" and l[1][2] == "p" for l in lits)
    for name, want in (("split_ok", True), ("split_bad", False)):
        f = prog.one("St::" + name)
        expect("bool-split:" + name, cx.pg(f).guarded(sink_site(f).at, p_or_check)[0], want)
    for name, want in (("kill_ok", True), ("kill_bad", False)):
        f = prog.one("St::" + name)
        g = cx.pg(f)
        s = sink_site(f)
        acc = {}

        def ok_edge(lits, acc=acc):
            r = False
            for l in lits:
                if l[0] == "in" and l[1][0] == "field" and l[1][2] == "St.a":
                    acc[l] = True
                    r = True
            return r
        g.guarded(s.at, ok_edge)
        fp = set()
        for l in acc:
            fp |= prog.expr_footprint(l[1], f)
        res = g.guarded(s.at, ok_edge, lambda bi, upto, f=f, fp=fp: killed_rooted(prog.block_effects(f, bi, upto), fp))[0]
        expect("kill:" + name, res, want)
    f = prog.one("St::dispatch")
    g = cx.pg(f)
    karg = ("param", 2, "k")
    sinks = {s.block for sp, s in prog.calls_out[f.key] if s.kind == "call" and sp.endswith("St::sink")}
    for variant, want in (("A", False), ("B", True), ("C", False)):
        blocks = g.reach([("in", karg, frozenset([variant]), "fixtures::Kind")])
        expect("reach:kind=" + variant, bool(blocks & sinks), want)
    ts = [t for t in send_templates(prog, "St::send", 1, "Msg") if t.fn.name == "build_and_send"]
    expect("template:states", len(ts), 1)
    if ts:
        t = ts[0]
        expect("template:kind", t.get("kind"), ("int", 2))
        expect("template:flag", t.get("flag"), ("bool", True))
        expect("template:index", t.get("index")[0], "bin")
        expect("template:to", t.get("to")[0], "param")
    for name, want in (("pair_ok", True), ("pair_bad", False)):
        f = prog.one("St::" + name)
        g = cx.pg(f)
        sb = {sink_site(f).block}
        ok, ne = g.after_edge_must_pass(is_check, lambda b: b in sb)
        expect("pairing:" + name, ok and ne >= 1, want)
    f = prog.one("fixtures::three_way")
    rets = PG(prog, f).returns()
    vals = sorted(v[2] for _, v, _ in rets if v[0] == "enum")
    expect("returns:three_way", vals, ["A", "B", "C"])
    expect("getter-discovery", prog.getters.get("fixtures::Msg::get_to"), ("Msg.to",))
    expect("setter-discovery", prog.setters.get("fixtures::Msg::set_index"), ("Msg.index",))
    return out
