"""Structural role finders for *private* helper functions (DESIGN §3.4).

Rules address public API functions by name. Private helpers are addressed by name only as a
shortcut: when the name no longer exists (renamed, split, merged), the role is re-found from the
program's structure, so that a behaviour-preserving rename never raises an alarm. If neither works the
rule fails closed (anchor-missing)."""
from .an import strip_generics


def _callers_in_crate(cx, pred_callee):
    out = {}
    for c in cx.prog.all_calls:
        if c.fn.crate == "raft" and pred_callee(c.data["callee"]):
            out[c.fn.key] = c.fn
    return list(out.values())


def _callee_of(cx, fn, pred):
    out = []
    for sp, s in cx.prog.calls_out[fn.key]:
        if s.kind == "call" and sp in cx.prog.short and pred(sp, s):
            f = cx.facts.fns[cx.prog.short[sp][0]]
            if f not in out:
                out.append(f)
    return out


def _one(xs):
    xs = list(xs)
    return xs[0] if len(xs) == 1 else None


def _send(cx):
    fs = []
    for c in cx.prog.all_calls:
        if c.data["callee"] == "alloc::vec::Vec::push" and c.data["term"]["args"]:
            pl = c.data["term"]["args"][0].get("move") or c.data["term"]["args"][0].get("copy")
            if pl and not pl["p"] and c.fn.body.local_ty(pl["l"]).startswith("&mut alloc::vec::Vec<raft_proto::protos::eraftpb::Message"):
                fs.append(c.fn)
    return _one({f.key: f for f in fs}.values())


def _common_callee(cx, names, pred=lambda f: True):
    sets = []
    for n in names:
        f = cx.prog.one(n)
        if f is None:
            return None
        sets.append({sp for sp, s in cx.prog.calls_out[f.key] if s.kind == "call" and sp in cx.prog.short})
    common = set.intersection(*sets) if sets else set()
    cands = [cx.facts.fns[cx.prog.short[sp][0]] for sp in common]
    return _one([f for f in cands if pred(f)])


def _tick_heartbeat(cx):
    tk = cx.prog.one("Raft::tick")
    if tk is None:
        return None
    g = cx.pg(tk)
    for sp, s in cx.prog.calls_out[tk.key]:
        if s.kind == "call" and sp in cx.prog.short:
            ok, _ = g.guarded(s.at, lambda lits: any(l[0] == "in" and l[1][0] == "field" and l[1][2] == "RaftCore.state" and l[2] == frozenset(["Leader"]) for l in lits))
            if ok:
                return cx.facts.fns[cx.prog.short[sp][0]]
    return None


def _storage_callee(cx, method):
    fs = [f for f in cx.prog.find("Storage>::" + method) if "MemStorage" in f.key]
    if len(fs) != 1:
        return None
    return _one(_callee_of(cx, fs[0], lambda sp, s: "MemStorageCore" in sp))


ROLES = {
    "RaftCore::send": _send,
    "RaftCore::prepare_send_snapshot": lambda cx: _one(_callers_in_crate(cx, lambda p: p.endswith("Progress::become_snapshot"))),
    "RaftCore::try_batching": lambda cx: _one([f for f in _callers_in_crate(cx, lambda p: p.endswith("Progress::update_state")) if any(sp.endswith("is_continuous_ents") for sp in cx.prog.callees(f.key))]),
    "RaftCore::prepare_send_entries": lambda cx: _one([f for f in _callers_in_crate(cx, lambda p: p.endswith("Progress::update_state")) if not any(sp.endswith("is_continuous_ents") for sp in cx.prog.callees(f.key)) and f.impl_adt != "raft::tracker::progress::Progress"]),
    "Raft::tick_heartbeat": _tick_heartbeat,
    "Raft::handle_ready_read_index": lambda cx: _one([f for f in _callers_in_crate(cx, lambda p: p == "alloc::vec::Vec::push") if "Option<raft_proto::protos::eraftpb::Message>" in f.body.local_ty(0)]),
    "Raft::has_unapplied_conf_changes": lambda cx: _one(_callers_in_crate(cx, lambda p: p.endswith("RaftLog::scan"))),
    "RaftLog::applied_index_upper_bound": lambda cx: _common_callee(cx, ["RaftLog::next_entries_since", "RaftLog::has_next_entries_since"], lambda f: f.body.arg_count == 1 and f.body.local_ty(0) == "u64" and f.name not in ("first_index", "last_index")),
    "Progress::reset_state": lambda cx: _common_callee(cx, ["Progress::become_probe", "Progress::become_replicate", "Progress::become_snapshot"]),
    "UncommittedState::maybe_increase_uncommitted_size": lambda cx: _one({s.fn.key: s.fn for s in cx.prog.writes.get("UncommittedState.uncommitted_size", []) if "stmt" in s.data and s.data["stmt"]["rv"].get("bin", "").startswith("Add")}.values()),
    "UncommittedState::maybe_reduce_uncommitted_size": lambda cx: _one({s.fn.key: s.fn for s in cx.prog.writes.get("UncommittedState.uncommitted_size", []) if "stmt" in s.data and s.fn.impl_adt and s.fn.impl_adt.endswith("UncommittedState") and "UncommittedState.last_log_tail_index" in cx.prog.readset_short(__import__("raftlint.an", fromlist=["strip_generics"]).strip_generics(s.fn.key))}.values()),
    "MemStorageCore::first_index": lambda cx: _storage_callee(cx, "first_index"),
    "MemStorageCore::last_index": lambda cx: _storage_callee(cx, "last_index"),
    "MemStorageCore::snapshot": lambda cx: _storage_callee(cx, "snapshot"),
    "MemStorageCore::has_entry_at": lambda cx: _one(_callee_of(cx, cx.prog.one("MemStorageCore::commit_to"), lambda sp, s: cx.facts.fns[cx.prog.short[sp][0]].body.local_ty(0) == "bool")) if cx.prog.one("MemStorageCore::commit_to") else None,
    "Raft::check_quorum_active": lambda cx: _one([f for f in _callers_in_crate(cx, lambda p: p.endswith("ProgressTracker::quorum_recently_active")) if f.impl_adt == "raft::raft::Raft"]),
    "Raft::bcast_heartbeat_with_ctx": lambda cx: _one(_callee_of(cx, cx.prog.one("Raft::bcast_heartbeat"), lambda sp, s: sp.startswith("raft::raft::Raft::"))) if cx.prog.one("Raft::bcast_heartbeat") else None,
    "RaftLog::must_check_outofbounds": lambda cx: _one(_callee_of(cx, cx.prog.one("RaftLog::slice"), lambda sp, s: "Option<raft::errors::Error>" in cx.facts.fns[cx.prog.short[sp][0]].body.local_ty(0))) if cx.prog.one("RaftLog::slice") else None,
    "Changer::apply": lambda cx: _common_callee(cx, ["Changer::simple", "Changer::enter_joint"], lambda f: f.body.arg_count == 4),
    "Changer::check_and_copy": lambda cx: _common_callee(cx, ["Changer::simple", "Changer::enter_joint", "Changer::leave_joint"], lambda f: f.body.arg_count == 1 and f.impl_adt and "Changer" in f.impl_adt),
    "raw_node::is_response_msg": lambda cx: _one([f for f in _callee_of(cx, cx.prog.one("RawNode::step"), lambda sp, s: cx.facts.fns[cx.prog.short[sp][0]].body.local_ty(0) == "bool") if f is not cx.prog.one("raw_node::is_local_msg")]) if cx.prog.one("RawNode::step") else None,
}


def _changer_arm(variant):
    def find(cx):
        ap = cx.fn("Changer::apply")
        for sp, s in cx.prog.calls_out[ap.key]:
            if s.kind != "call" or sp not in cx.prog.short:
                continue
            for l in cx.guard_lits(s):
                if l[0] == "in" and l[1][0] == "field" and l[1][2] == "ConfChangeSingle.change_type" and l[2] == frozenset([variant]):
                    return cx.facts.fns[cx.prog.short[sp][0]]
        return None
    return find


ROLES["restore::to_conf_change_single"] = lambda cx: _one(_callee_of(cx, cx.prog.one("confchange::restore::restore"), lambda sp, s: sp.startswith("raft::confchange::restore::") and "ConfState" in cx.facts.fns[cx.prog.short[sp][0]].body.local_ty(1))) if cx.prog.one("confchange::restore::restore") else None
ROLES["Changer::make_voter"] = _changer_arm("AddNode")
ROLES["Changer::make_learner"] = _changer_arm("AddLearnerNode")
ROLES["Changer::remove"] = _changer_arm("RemoveNode")
ROLES["Changer::init_progress"] = lambda cx: _common_callee(cx, [strip_generics(cx.fn("Changer::make_voter").key), strip_generics(cx.fn("Changer::make_learner").key)], lambda f: f.impl_adt and "Changer" in f.impl_adt)
ROLES["IncrChangeMap::contains"] = lambda cx: _common_callee(cx, [strip_generics(cx.fn("Changer::make_voter").key), strip_generics(cx.fn("Changer::remove").key)], lambda f: f.body.local_ty(0) == "bool" and f.impl_adt and "IncrChangeMap" in f.impl_adt)
