"""Message templates: field-sensitive forward dataflow over an object that is built in place
(`let mut m = Message::default(); m.to = ..; m.set_msg_type(..); self.send(m)`), through setters,
constructor helpers (`new_message`) and `&mut Message` fragments (`prepare_send_entries`).

State: {field -> frozenset(value ids)}, key '*' = every field not mentioned. Values are expressions,
or the markers ('default',) (protobuf default), ('unchanged',) (fragment: caller's value survives),
('opaque', why).
"""
from .an import strip_generics, show, walk
from .pat import subst_params

DEFAULT = ("default",)
UNCHANGED = ("unchanged",)

_DEFAULT_CALLS = ("Default>::default", "::default_instance", "Message::new", "::new")


UNINIT = ("uninit",)
MAX_STATES = 96


def freeze(d):
    return tuple(sorted(d.items(), key=lambda kv: kv[0]))


class ObjFlow:
    """Disjunctive (path-sensitive up to MAX_STATES) forward dataflow of one object's fields.
    A state is a dict field -> value id, '*' for unmentioned fields, '$<local>' for bool results of
    fragment calls (so that `if !prepare(..) { return }` prunes the states of the failing paths)."""

    def __init__(self, prog, fn, designator, adt_suffix, init=DEFAULT, depth=0, with_lits=False):
        self.with_lits = with_lits
        self._pg = None
        self.prog = prog
        self.fn = fn
        self.a = prog.an[fn.key]
        self.D = designator
        self.adt = adt_suffix
        self.prefix = adt_suffix + "."
        self.init = init
        self.depth = depth
        self.vals = []
        self.vidx = {}
        self.IN = {}
        self.truncated = False
        self._run()

    def vid(self, v):
        i = self.vidx.get(v)
        if i is None:
            i = len(self.vals)
            self.vals.append(v)
            self.vidx[v] = i
        return i

    def _is_obj_place(self, pl):
        D = self.D
        if D[0] == "local":
            return pl["l"] == D[1] and (not pl["p"] or pl["p"][0] != "*")
        if D[0] == "param":
            return pl["l"] == D[1]
        return False

    def _field_of_place(self, pl):
        for p in pl["p"]:
            if isinstance(p, dict) and "f" in p and p.get("adt") and p["adt"].endswith(self.adt):
                return p["n"]
        return None

    # a set of states is a frozenset of frozen dicts
    def _transfer(self, bi, states, upto=None):
        b = self.fn.body.blocks[bi]
        a = self.a
        cur = [dict(st) for st in states]
        for si, s in enumerate(b["stmts"]):
            if upto is not None and upto != "term" and si >= upto:
                return frozenset(freeze(x) for x in cur)
            if s["k"] != "assign":
                continue
            pl = s["place"]
            if not pl["p"] and self.fn.body.local_ty(pl["l"]) == "bool" and not self._is_obj_place(pl):
                # remember constant bool locals (function results, `let ok = ..`) per state
                key = "$%d" % pl["l"]
                rv = s["rv"]
                src = rv.get("use") if "use" in rv else None
                for x in cur:
                    if src is not None and "const" in src and src["const"].get("val") and "int" in src["const"]["val"]:
                        x[key] = self.vid(("bool", bool(src["const"]["val"]["int"])))
                    elif src is not None and (src.get("copy") or src.get("move")) and not (src.get("copy") or src.get("move"))["p"] and ("$%d" % (src.get("copy") or src.get("move"))["l"]) in x:
                        x[key] = x["$%d" % (src.get("copy") or src.get("move"))["l"]]
                    else:
                        x.pop(key, None)
                continue
            if self._is_obj_place(pl):
                f = self._field_of_place(pl)
                if f is not None:
                    v = self.vid(self._pval(s["rv"], (bi, si)))
                    for x in cur:
                        x[f] = v
                elif not [p for p in pl["p"] if p != "*"]:
                    v = a.expr_rvalue(s["rv"], (bi, si))
                    cur = self._from_value(v, (bi, si))
        if upto is not None:
            return frozenset(freeze(x) for x in cur)
        t = b["term"]
        if t["k"] == "call":
            cur = self._call(bi, t, cur)
        out = frozenset(freeze(x) for x in cur)
        if len(out) > MAX_STATES:
            self.truncated = True
            out = frozenset(list(out)[:MAX_STATES])
        return out

    def _from_value(self, v, at=None):
        # an object that travels wrapped (`let m: Option<Message> = if .. { Some(build()) } else { None }; if let Some(m) = m`)
        if v[0] == "phi":
            out = []
            for alt_ in v[3]:
                for st in self._from_value(alt_, at):
                    if st not in out and not (len(st) == 1 and isinstance(self.vals[st.get("*", 0)], tuple) and self.vals[st.get("*", 0)][0] == "opaque" and str(self.vals[st.get("*", 0)][1]).startswith("none")):
                        out.append(st)
            return out or [{"*": self.vid(("opaque", "init:phi"))}]
        if v[0] == "vfield" and v[2].endswith("Option::Some") and v[3] == 0:
            base = v[1]
            if base[0] == "phi":
                from .an import mk_vfield
                return self._from_value(("phi", base[1], base[2], tuple(mk_vfield(x, v[2], 0) for x in base[3])), at)
            if base[0] == "enum" and base[2] == "None":
                return [{"*": self.vid(("opaque", "none"))}]
            if base[0] == "call":
                return self._from_value(base, at)
        if v[0] == "call" and v[1].endswith("Clone>::clone") and len(v[2]) == 1 and v[2][0][0] == "local":
            # `let mut m = template.clone();` -- a copy of an object built in place continues from its state
            v = v[2][0]
        if v[0] == "local" and at is not None and self.depth < 3 and v != self.D:
            # `let mut m = <object built in place in another local>` (a constructor helper spliced into the body,
            # `let m = tmp;`): the object continues the life of the one it was moved from
            ty = self.fn.body.local_ty(v[1]) or ""
            if ty.split("<")[0].endswith(self.adt):
                try:
                    src = ObjFlow(self.prog, self.fn, v, self.adt, UNINIT, self.depth + 1)
                    sts = src.states_at(at)
                except RecursionError:
                    sts = None
                if sts:
                    return [{f: self.vid(x) for f, x in st.items()} for st in sts]
        if v[0] == "adt" and isinstance(v[2], tuple) and v[1].rsplit("::", 1)[0].endswith(self.adt) and all(isinstance(x, tuple) and len(x) == 2 and isinstance(x[0], str) for x in v[2]):
            # a struct literal, possibly with `..Default::default()` for the fields it does not name
            st = {"*": self.vid(DEFAULT)}
            base = None
            for fname, fv in v[2]:
                if fv[0] == "field" and fv[1][0] == "call" and (fv[1][1].endswith("Default>::default") or fv[1][1].endswith("::default")) and not fv[1][2]:
                    continue
                if fv[0] == "field" and fv[2] == self.prefix + fname and fv[1][0] == "call" and fv[1][1].endswith("Clone>::clone") and len(fv[1][2]) == 1 and fv[1][2][0][0] == "local":
                    # `..template.clone()`: the fields not named continue the template built in place
                    base = fv[1][2][0]
                    continue
                if fv[0] == "call" and fv[1].endswith("::clone") and len(fv[2]) == 1 and fv[2][0][0] == "field" and fv[2][0][2] == self.prefix + fname and fv[2][0][1][0] == "local" \
                        and sum(1 for n2, v2 in v[2] if v2[0] == "call" and v2[1].endswith("::clone") and len(v2[2]) == 1 and v2[2][0][0] == "field" and v2[2][0][1] == fv[2][0][1] and v2[2][0][2] == self.prefix + n2) * 2 >= len(v[2]):
                    # the same, with the derived `clone` of the struct written out field by field (most fields, each under its own name)
                    base = fv[2][0][1]
                    continue
                if fv[0] == "field" and fv[2] == self.prefix + fname and fv[1][0] in ("param", "local") and (self.fn.body.local_ty(fv[1][1]) or "").split("<")[0].endswith(self.adt) \
                        and sum(1 for n2, v2 in v[2] if v2[0] == "field" and v2[1] == fv[1] and v2[2] == self.prefix + n2) * 2 >= len(v[2]):
                    # `Message { to: leader, ..m }`: the fields not named are moved out of another object of the type
                    # (at least half of all fields come from it under their own names -- one `index: m.index` does not)
                    base = fv[1]
                    continue
                st[fname] = self.vid(fv)
            if base is not None and at is not None and self.depth < 3 and base != self.D:
                self.literal_base = base
                try:
                    src = ObjFlow(self.prog, self.fn, base, self.adt, UNINIT if base[0] == "local" else UNCHANGED, self.depth + 1)
                    sts = src.states_at(at)
                except RecursionError:
                    sts = None
                if sts:
                    out = []
                    for s0 in sts:
                        x = {f: self.vid(val) for f, val in s0.items()}
                        for f, val in st.items():
                            if f != "*":
                                x[f] = val
                        out.append(x)
                    return out
                return [{"*": self.vid(("opaque", "init:clone-of-unknown"))}]
            return [st]
        if v[0] == "call":
            p = v[1]
            if p.endswith(self.adt + " as core::default::Default>::default") or p.endswith(self.adt + "::new") or p.endswith(self.adt + "::default"):
                return [{"*": self.vid(DEFAULT)}]
            ks = self.prog.short.get(p)
            if ks and self.depth < 3:
                rt = return_template(self.prog, self.prog.facts.fns[ks[0]], self.adt, self.depth + 1)
                if rt:
                    out = []
                    for st in rt:
                        out.append({f: self.vid(subst_params(x, list(v[2]))) for f, x in st.items()})
                    return out
        return [{"*": self.vid(("opaque", "init:" + show(v)[:40]))}]

    def _call(self, bi, t, cur):
        a = self.a
        at = (bi, "term")
        fc = t["func"]
        d = t["dest"]
        if self._is_obj_place(d) and not [p for p in d["p"] if p != "*"]:
            return self._from_value(a.expr_call(t, at), at)
        if not ("const" in fc and "fn" in fc["const"]):
            return cur
        sp = strip_generics(fc["const"]["fn"]["path"])
        hit = None
        for i, op in enumerate(t["args"]):
            pl = op.get("move") or op.get("copy")
            if pl is None or pl["p"]:
                continue
            ty = self.fn.body.local_ty(pl["l"])
            if not (ty.startswith("&mut ") or ty.startswith("*mut ")):
                continue
            if a.expr_operand(op, at) == self.D:
                hit = i
                break
        if hit is None:
            return cur
        args = [a.expr_operand(o, at) for o in t["args"]]
        setter = self.prog.setters.get(sp)
        if setter is not None and hit == 0 and len(setter) == 1 and setter[0].startswith(self.prefix):
            v = self.vid(args[1])
            for x in cur:
                x[setter[0][len(self.prefix):]] = v
            return cur
        ks = self.prog.short.get(sp)
        if ks and self.depth < 3:
            frag = fragment(self.prog, self.prog.facts.fns[ks[0]], hit + 1, self.adt, self.depth + 1)
            if frag:
                out = []
                dest_local = d["l"] if not d["p"] else None
                for x in cur:
                    for rv, fs in frag:
                        y = dict(x)
                        for f, val in fs.items():
                            if f.startswith("$"):
                                continue
                            if val == UNCHANGED:
                                continue
                            if f == "*":
                                vv = self.vid(subst_params(val, args))
                                for k in list(y):
                                    if not k.startswith("$") and fs.get(k) is None:
                                        y[k] = vv
                                y["*"] = vv
                            else:
                                y[f] = self.vid(subst_params(val, args))
                        if dest_local is not None and rv is not None and rv[0] == "bool":
                            y["$%d" % dest_local] = self.vid(rv)
                        out.append(y)
                return out
        m = None
        for pat in ("::take_", "::mut_", "::clear_"):
            if pat in sp:
                m = sp.split(pat)[-1]
        op = self.vid(("opaque", "extmut:" + sp.split("::")[-1]))
        for x in cur:
            if m:
                x[m] = op
            else:
                for k in list(x):
                    if not k.startswith("$"):
                        x[k] = op
                x["*"] = op
        return cur

    def _pval(self, rv, at):
        """value of an rvalue; where the function carries path-dependent selector values (an outcome enum matched further
        down) and every way of reaching the statement agrees on them, they are used (as engine.call_args does)"""
        a = self.a
        if self.fn.key in getattr(self.prog.facts, "changed_fns", ()):
            try:
                g = self.prog.pg_of(self.fn)
            except Exception:
                g = None
            if g is not None and g.tracked and not g.truncated:
                v = g.eval_at(at, lambda env: a.expr_rvalue(rv, at, 0, env))
                if v is not None:
                    return v
        return a.expr_rvalue(rv, at)

    def _edge_lits(self, b, succ):
        """literals of the CFG edge b -> succ (from the product graph; only when every node of b agrees)"""
        g = self.prog.pg_of(self.fn)
        found = None
        for n in g.by_block.get(b, []):
            for m, lits in g.edges[n] or []:
                if g.nodes[m][0] == succ:
                    ls = tuple(lits)
                    if found is None:
                        found = ls
                    elif found != ls:
                        return ()
        return found or ()

    def _edge_filter(self, b, succ, states):
        if self.with_lits:
            ls = self._edge_lits(b, succ)
            if ls:
                key = "$lit:%d:%d" % (b, succ)
                v = self.vid(("lits", ls))
                out = []
                for st in states:
                    d = dict(st)
                    d[key] = v
                    out.append(freeze(d))
                states = frozenset(out)
        t = self.fn.body.blocks[b]["term"]
        if t["k"] != "switch" or t.get("ty") != "bool":
            return states
        pl = t["op"].get("move") or t["op"].get("copy")
        if pl is None or pl["p"]:
            return states
        key = "$%d" % pl["l"]
        tmap = {v: bb for v, bb in t["targets"]}
        false_t = tmap.get(0)
        true_t = tmap.get(1, t["otherwise"])
        if false_t is None:
            false_t = t["otherwise"]
        out = []
        for st in states:
            d = dict(st)
            if key in d:
                val = self.vals[d[key]][1]
                want = true_t if val else false_t
                other = false_t if val else true_t
                if succ != want and succ == other:
                    continue
            out.append(st)
        return frozenset(out)

    def _run(self):
        a = self.a
        init = frozenset([freeze({"*": self.vid(self.init)})])
        IN = {0: init}
        OUT = {}
        work = [0]
        while work:
            b = work.pop(0)
            if b not in a.reach:
                continue
            o = self._transfer(b, IN[b])
            if OUT.get(b) == o:
                continue
            OUT[b] = o
            for s in a.succs[b]:
                os_ = self._edge_filter(b, s, o)
                cur = IN.get(s)
                new = os_ if cur is None else (cur | os_)
                if len(new) > MAX_STATES:
                    self.truncated = True
                    new = frozenset(list(new)[:MAX_STATES])
                if new != cur:
                    IN[s] = new
                    if s not in work:
                        work.append(s)
        self.IN = IN

    def states_at(self, at, with_ret=False):
        """List of dicts field -> value expression (states in which the object exists)."""
        bi, idx = at
        if bi not in self.IN:
            return None
        sts = self._transfer(bi, self.IN[bi], idx)
        out = []
        for st in sts:
            d = {k: self.vals[i] for k, i in st if not k.startswith("$") or (with_ret and k == "$0")}
            if d.get("*") == UNINIT:
                continue
            if self.with_lits:
                ls = []
                for k, i in st:
                    if k.startswith("$lit:"):
                        ls += [l for l in self.vals[i][1] if l not in ls]
                d["$lits"] = tuple(ls)
            if d not in out:
                out.append(d)
        return out


_rt_cache = {}
_frag_cache = {}


def return_template(prog, fn, adt, depth=0, with_lits=False):
    """States of the object a function returns (directly or as Some(obj)), over its parameters. with_lits: each state
    also carries, under "$lits", the branch literals of the paths that produce it."""
    key = (id(prog), fn.key, adt, with_lits)
    if key in _rt_cache:
        return _rt_cache[key]
    _rt_cache[key] = None
    a = prog.an[fn.key]
    out = []
    for bi in sorted(a.reach):
        b = fn.body.blocks[bi]
        if b["term"]["k"] != "return":
            continue
        v = a.expr_local(0, (bi, "term"))
        objs = []
        # the object returned as a struct literal (`Progress { matched: 0, .. }`, possibly wrapped in Some)
        for x in walk(v):
            if x[0] == "adt" and (x[1].endswith("::" + adt + "::" + adt) or x[1].endswith("::" + adt)) and x[2] and all(isinstance(n, str) and not n.isdigit() for n, _ in x[2]):
                st = {n: e for n, e in x[2]}
                if st not in out:
                    out.append(st)
                break
        for x in walk(v):
            if x[0] in ("local", "param") and len(x) == 3 and isinstance(x[1], int):
                la = fn.body.local_adt(x[1])
                if la and la.endswith("::" + adt) and not fn.body.local_ty(x[1]).startswith("&"):
                    if x not in objs:
                        objs.append(x)
        for D in objs:
            fl = ObjFlow(prog, fn, D, adt, UNINIT if D[0] == "local" else UNCHANGED, depth, with_lits)
            for st in fl.states_at((bi, "term")) or []:
                if st not in out:
                    out.append(st)
    _rt_cache[key] = out or None
    return _rt_cache[key]


def fragment(prog, fn, param, adt, depth=0):
    """What a function does to the object behind its `&mut` parameter:
    [(return value expression or None, {field -> value})] over its return paths."""
    key = (id(prog), fn.key, param, adt)
    if key in _frag_cache:
        return _frag_cache[key]
    _frag_cache[key] = None
    a = prog.an[fn.key]
    D = ("param", param, fn.body.local_name(param))
    fl = ObjFlow(prog, fn, D, adt, UNCHANGED, depth)
    out = []
    for bi in sorted(a.reach):
        if fn.body.blocks[bi]["term"]["k"] == "return":
            for st in fl.states_at((bi, "term"), with_ret=True) or []:
                rv = st.pop("$0", None)
                if (rv, st) not in out:
                    out.append((rv, st))
    _frag_cache[key] = out or None
    return _frag_cache[key]


class Template:
    """One possible state of a message at the point where it is consumed (sent / returned)."""

    def __init__(self, fn, site, obj, fields, via, nstates=1):
        self.fn = fn
        self.site = site
        self.obj = obj
        self.fields = fields      # field -> value expression ('*' = all others)
        self.via = via
        self.nstates = nstates

    def get(self, f):
        return self.fields.get(f, self.fields.get("*", ("opaque", "unset")))

    def types(self):
        v = self.get("msg_type")
        if v[0] == "enum":
            return {v[2]}
        if v == DEFAULT:
            return {"MsgHup"}   # protobuf default = first variant
        if v[0] == "phi" and all(x[0] == "enum" for x in v[3]):
            return {x[2] for x in v[3]}
        if v[0] == "call" and v[1].endswith("vote_resp_msg_type"):
            return {"MsgRequestVoteResponse", "MsgRequestPreVoteResponse"}
        return None

    def show_field(self, f):
        v = self.get(f)
        return show(v) if v not in (DEFAULT, UNCHANGED, UNINIT) else v[0]


def _unwrapped_objects(e, depth=0):
    """the objects an expression may denote when it is unwrapped out of Option values joined from several branches:
    `(phi(None | Some{0: m1} | Some{0: m2}) as Some).0` -> [m1, m2]"""
    if depth > 6:
        return None
    if e[0] == "vfield" and e[2].endswith("Option::Some") and e[3] == 0:
        b = e[1]
        if b[0] == "phi":
            out = []
            for x in b[3]:
                r = _unwrapped_objects(("vfield", x, e[2], 0), depth + 1)
                if r is None:
                    return None
                out += [y for y in r if y not in out]
            return out
        if b[0] == "enum" and b[2] == "None":
            return []
        if b[0] == "adt" and b[1].endswith("Option::Some") and b[2]:
            return _unwrapped_objects(b[2][0][1], depth + 1)
        if b[0] == "call":
            return [b]   # a function returning Option<object>: its return template covers the Some case
        return None
    if e[0] == "phi":
        out = []
        for x in e[3]:
            r = _unwrapped_objects(x, depth + 1)
            if r is None:
                return None
            out += [y for y in r if y not in out]
        return out
    if e[0] in ("local", "param", "call"):
        return [e]
    return None


def object_states(prog, fn, obj_expr, at, adt="Message"):
    e = obj_expr
    if e[0] in ("vfield", "phi"):
        objs = _unwrapped_objects(e)
        if objs and all(o[0] in ("local", "param", "call") for o in objs) and objs != [e]:
            sts, vias = [], []
            for o in objs:
                s1, via = object_states(prog, fn, o, at, adt)
                if not s1:
                    return None, "unknown"
                sts += [x for x in s1 if x not in sts]
                vias.append(via)
            return sts, "unwrapped:" + ",".join(sorted(set(vias)))
    if e[0] == "local":
        fl = ObjFlow(prog, fn, e, adt, UNINIT)
        return fl.states_at(at), "in-place"
    if e[0] == "adt" and isinstance(e[2], tuple) and e[1].rsplit("::", 1)[0].endswith(adt):
        # the object is a struct literal used where it is built (`send(Message { to, ..template.clone() })`)
        fl = ObjFlow(prog, fn, ("opaque", "literal"), adt, UNINIT)
        sts = fl._from_value(e, at)
        out = []
        for st in sts or []:
            d = {k: fl.vals[i] for k, i in st.items() if not k.startswith("$")}
            if isinstance(d.get("*"), tuple) and d["*"][0] == "opaque" and str(d["*"][1]).startswith("init:"):
                return None, "unknown"
            if d not in out:
                out.append(d)
        lb = getattr(fl, "literal_base", None)
        return (out or None), ("literal-of-param:%d" % lb[1] if lb is not None and lb[0] == "param" else "literal")
    if e[0] == "param":
        fl = ObjFlow(prog, fn, e, adt, UNCHANGED)
        return fl.states_at(at), "in-place(param)"
    c = e
    while c[0] in ("vfield", "tfield", "cast") and isinstance(c[1], tuple):
        c = c[1]
    if c[0] == "call":
        ks = prog.short.get(c[1])
        if ks:
            rt = return_template(prog, prog.facts.fns[ks[0]], adt)
            if rt:
                return [{f: subst_params(x, list(c[2])) for f, x in st.items()} for st in rt], "returned by " + c[1].split("::")[-1]
    return None, "unknown"


_send_cache = {}


def send_templates(prog, send_suffix="RaftCore::send", arg_index=1, adt="Message"):
    key = (id(prog), send_suffix, adt)
    if key in _send_cache:
        return _send_cache[key]
    out = []
    for s in prog.call_sites_of(send_suffix):
        a = prog.an[s.fn.key]
        args = [a.expr_operand(o, s.at) for o in s.data["term"]["args"]]
        obj = args[arg_index]
        sts, via = object_states(prog, s.fn, obj, s.at, adt)
        if not sts:
            out.append(Template(s.fn, s, obj, {"*": ("opaque", "unknown object")}, via))
            continue
        if via.startswith("literal-of-param:"):
            # a received message passed on with some fields replaced: the object is still that parameter
            pi = int(via.split(":")[1])
            obj = ("param", pi, s.fn.body.local_name(pi))
        for st in sts:
            out.append(Template(s.fn, s, obj, st, via, len(sts)))
    out = _instantiate_helpers(prog, out)
    _send_cache[key] = out
    return out


def _instantiate_helpers(prog, tmpls, depth=0):
    """A private helper that only builds one message from its scalar parameters and sends it
    unconditionally (`fn ack(&mut self, to, index) { let mut m = ..; m.to = to; m.index = index; send(m) }`)
    is transparent: its template is re-stated at every in-crate call site with the arguments substituted,
    so that rules see the same fields and the same guards as if the body were written inline."""
    from .pg import PG
    out = []
    byfn = {}
    for t in tmpls:
        byfn.setdefault(t.fn.key, []).append(t)
    for t in tmpls:
        f = t.fn
        uses_param = any(v[0] == "param" and f.body.local_ty(v[1]) in ("u64", "bool", "usize") for k, v in t.fields.items() if isinstance(v, tuple))
        if not uses_param or f.vis == "Public" or f.is_closure or len(byfn[f.key]) != 1 or t.nstates != 1 or depth > 1:
            out.append(t)
            continue
        g = PG(prog, f)
        # unconditional: no guard literal dominates the send inside the helper
        cond = False
        for n in range(len(g.nodes)):
            for m, lits in g.edges[n] or []:
                if lits and (g.nodes[m][0] == t.site.block or g.block_reaches(g.nodes[m][0], lambda b: b == t.site.block)):
                    cond = True
        callers = [c for c in prog.all_calls if c.kind == "call" and c.data["callee"] in prog.short and f.key in prog.short[c.data["callee"]] and c.fn.crate == f.crate]
        if cond or not callers:
            out.append(t)
            continue
        for c in callers:
            a = prog.an[c.fn.key]
            args = [a.expr_operand(o, c.at) for o in c.data["term"]["args"]]
            fields = {k: (subst_params(v, args) if isinstance(v, tuple) else v) for k, v in t.fields.items()}
            nt = Template(c.fn, c, t.obj, fields, t.via + " (built by helper %s)" % f.name, 1)
            nt.helper = f
            out.append(nt)
    return out
