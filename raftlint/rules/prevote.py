"""PREVOTE / LEASE (DESIGN §5.17) and XFER.forced_vote."""
from ..engine import obligation, require, require_all, fn_name, callers_of, call_args
from ..an import show, strip_generics, walk, mk_bin, subst
from ..pat import ANY, V, match, call, fld, alt, contains
from ..pg import show_lit, contradicts
from ..idioms import is_param_of_adt
from ..templates import send_templates
from ..prog import Site
from .commit import write_value
from .vote import is_f, TERM, VOTE, STATE, reset_fns, msg_type_in, _state_in
from .msg import tmpls, tkey, MT


def translate_to_callee(cx, caller_fn, callee_fn, args, lits):
    """Express facts known at a call site in the callee's vocabulary: (a) literals whose expressions
    only mention values passed as arguments, (b) `param_j == <expr over other params>` equalities."""
    # map caller expressions -> callee params
    m = {}
    for i, a in enumerate(args):
        if a[0] in ("param", "local") or a[0] == "field":
            m.setdefault(a, ("param", i + 1, callee_fn.body.local_name(i + 1)))
    out = []
    for l in lits:
        if l[0] not in ("is", "in", "notin"):
            continue
        e2 = subst(l[1], m)
        if _only_params(e2, m.values()):
            out.append((l[0], e2) + tuple(l[2:]))
    # equalities: argument j is a field path over an object that is itself passed as argument i
    objs = {a: p for a, p in m.items() if a[0] in ("param", "local")}
    for j, a in enumerate(args):
        if a[0] == "field":
            e2 = subst(a, objs)
            if _only_params(e2, objs.values()) and e2[0] == "field" and any(x[0] == "param" for x in walk(e2)):
                pj = ("param", j + 1, callee_fn.body.local_name(j + 1))
                out.append(("is", mk_bin("Eq", e2, pj), True))
    return out


def _only_params(e, allowed):
    allowed = set(allowed)
    for x in walk(e):
        if x[0] in ("local", "upvar", "opaque", "phi"):
            return False
        if x[0] == "param" and x not in allowed:
            return False
    return True


def reach_writes(cx, fn, assume, targets, depth=0, memo=None, stack=()):
    """Field keys in `targets` that may be written on some path of fn (and its callees) consistent with
    the assumption literals. Returns list of (function, block, field)."""
    if memo is None:
        memo = {}
    key = (fn.key, tuple(sorted(map(repr, assume))))
    if key in memo:
        return memo[key]
    if fn.key in stack or depth > 8:
        # recursion: fall back to the unconditional mod-set
        r = [(fn, -1, fk) for fk in cx.prog.mod[fn.key] if fk in targets]
        return r
    memo[key] = []
    g = cx.pg(fn)
    a = cx.prog.A(fn)
    blocks = g.reach(assume)
    out = []
    for bi in sorted(blocks):
        b = fn.body.blocks[bi]
        for si, st in enumerate(b["stmts"]):
            if st["k"] == "assign":
                from ..prog import last_field_key
                fk = last_field_key(st["place"])
                if fk in targets:
                    out.append((fn, bi, fk))
        t = b["term"]
        if t["k"] != "call" or not ("const" in t["func"] and "fn" in t["func"]["const"]):
            continue
        sp = strip_generics(t["func"]["const"]["fn"]["path"])
        ks = cx.prog.short.get(sp)
        if not ks:
            continue
        callee = cx.facts.fns[ks[0]]
        if not (cx.prog.mod[callee.key] & targets):
            continue
        args = [a.expr_operand(o, (bi, "term")) for o in t["args"]]
        # facts at the call site: the assumption + every literal that dominates the call
        site = Site(fn, bi, "term", "call")
        dom = cx.guard_lits(site)
        sub = translate_to_callee(cx, fn, callee, args, list(assume) + dom)
        out += reach_writes(cx, callee, sub, targets, depth + 1, memo, stack + (fn.key,))
    memo[key] = out
    return out


def _m_param(fn):
    for i in range(1, fn.body.arg_count + 1):
        ad = fn.body.local_adt(i)
        if ad and ad.endswith("eraftpb::Message"):
            return ("param", i, fn.body.local_name(i))
    return None


@obligation("PREVOTE.no_effect", ["C16"], floor=1, kind="must-not-reach under a message-type constraint (interprocedural)",
            why="handling a pre-vote request must never change the receiver's term or vote")
def no_effect(cx):
    step = cx.fn("Raft::step")
    m = _m_param(step)
    cx.need(m is not None, "Message parameter of Raft::step")
    assume = [("in", ("field", m, "Message.msg_type"), frozenset(["MsgRequestPreVote"]), MT)]
    hits = reach_writes(cx, step, assume, {TERM, VOTE})
    g = cx.pg(step)
    nblocks = len(g.reach(assume))
    cx.check(not hits, "Raft::step#MsgRequestPreVote", "with msg_type == MsgRequestPreVote no write of term or vote is reachable from Raft::step (found: %s)" % sorted({"%s bb%d %s" % (fn_name(f), b, fk) for f, b, fk in hits})[:6],
             Site(step, 0, "term", "region"), blocks_reachable_in_step=nblocks)
    # positive control of the query itself: with MsgRequestVote the vote write IS reachable
    ctl = reach_writes(cx, step, [("in", ("field", m, "Message.msg_type"), frozenset(["MsgRequestVote"]), MT)], {TERM, VOTE})
    cx.check(any(fk == VOTE for _, _, fk in ctl) and any(fk == TERM for _, _, fk in ctl), "control:MsgRequestVote", "control: with msg_type == MsgRequestVote both a term and a vote write are reachable (the query is not vacuous)")


@obligation("PREVOTE.no_adopt", ["C16"], floor=2, kind="must-not-reach under a message constraint",
            why="a pre-vote request, or a granted pre-vote response (stamped with the candidate's future term), must never make the receiver adopt that term")
def no_adopt(cx):
    step = cx.fn("Raft::step")
    m = _m_param(step)
    g = cx.pg(step)
    mt = ("field", m, "Message.msg_type")
    sites = []
    for c in cx.prog.calls_out[step.key]:
        sp, s = c
        if s.kind != "call" or sp not in cx.prog.short or TERM not in cx.prog.modset_short(sp):
            continue
        args = call_args(cx, s)
        if any(a == ("field", m, "Message.term") for a in args):
            sites.append(s)
    cx.check(bool(sites), "floor", "Raft::step has term-adopting calls (new term = m.term)")
    cases = [("MsgRequestPreVote", [("in", mt, frozenset(["MsgRequestPreVote"]), MT)]),
             ("granted MsgRequestPreVoteResponse", [("in", mt, frozenset(["MsgRequestPreVoteResponse"]), MT), ("is", ("field", m, "Message.reject"), False)])]
    for name, assume in cases:
        blocks = g.reach(assume)
        hit = [s for s in sites if s.block in blocks]
        cx.check(not hit, "no-adopt:" + name, "for a %s no call adopting m.term is reachable in Raft::step (reachable: %s)" % (name, [cx.where(s) for s in hit]), hit[0] if hit else None)
    # control: an ordinary higher-term append does reach an adoption
    blocks = g.reach([("in", mt, frozenset(["MsgAppend"]), MT)])
    cx.check(any(s.block in blocks for s in sites), "control:MsgAppend", "control: for MsgAppend the adoption is reachable (the query is not vacuous)")


@obligation("PREVOTE.precandidate", ["C16"], floor=1, kind="mod-set exclusion",
            why="a node that fails to gather a pre-vote quorum must not have raised its term")
def precandidate(cx):
    fs = {s.fn.key: s.fn for s in cx.prog.writes.get(STATE, []) if s.kind == "write" and "stmt" in s.data and write_value(cx, s) == ("enum", "raft::raft::StateRole", "PreCandidate")}
    cx.need(fs, "write of StateRole::PreCandidate")
    for f in fs.values():
        ms = cx.prog.mod[f.key]
        cx.check(TERM not in ms and VOTE not in ms, "modset:" + fn_name(f), "becoming a pre-candidate writes neither term nor vote (mod-set has: %s)" % sorted(ms & {TERM, VOTE}))


def bump_fns(cx):
    """candidate idiom: functions that call the reset function with self.term + 1"""
    out = {}
    for k, (rf, p) in reset_fns(cx).items():
        for c in callers_of(cx, rf):
            args = call_args(cx, c)
            x = args[p[1] - 1]
            b = match(("bin", "Add", V("a"), V("b")), x)
            if b and ("int", 1) in (b["a"], b["b"]) and (is_f(b["a"], TERM) or is_f(b["b"], TERM)):
                if any(s.fn is c.fn for s in cx.prog.writes.get(VOTE, [])):
                    out[c.fn.key] = c.fn
    return out


def is_item(e, name):
    return e[0] == "item" and e[1].endswith("::" + name)


@obligation("PREVOTE.term_bump_gate", ["C16"], floor=3, kind="who-may-call with caller context",
            why="with pre-vote on, a node may raise its own term only after winning a pre-vote (or on a transfer request)")
def term_bump_gate(cx):
    bumps = bump_fns(cx)
    cx.need(bumps, "candidate idiom function (reset(term + 1) + vote := self.id)")
    kinds = set()
    for f in bumps.values():
        for c in callers_of(cx, f):
            # the caller selects by campaign type: the bump is reached only for types != PRE_ELECTION
            def not_pre(l):
                if l[0] != "is" or l[2] is not False:
                    return False
                b = match(("bin", "Eq", V("a"), V("b")), l[1])
                return bool(b) and (is_item(b["a"], "CAMPAIGN_PRE_ELECTION") or is_item(b["b"], "CAMPAIGN_PRE_ELECTION"))
            key = cx.site_key(c, "call:" + fn_name(f))
            ok = require(cx, c, key, "the term bump is skipped for the pre-election campaign type", not_pre, kill=False)
            if not ok:
                continue
            # which parameter carries the type?
            ty = None
            for l in cx.guard_lits(c):
                if not_pre(l):
                    for x in l[1][2:4]:
                        if x[0] == "param":
                            ty = x
            cx.check(ty is not None, key + ":type-param", "the campaign type is a parameter of %s" % fn_name(c.fn), c)
            if ty is None:
                continue
            for cc in callers_of(cx, c.fn):
                args = call_args(cx, cc)
                t = args[ty[1] - 1]
                k2 = cx.site_key(cc, "call:" + fn_name(c.fn))
                if is_item(t, "CAMPAIGN_PRE_ELECTION"):
                    cx.ok(k2, "pre-election campaign (no term bump)", cc, arg=show(t))
                elif is_item(t, "CAMPAIGN_TRANSFER"):
                    def xfer(l):
                        return l[0] == "is" and l[2] is True and l[1][0] == "param" and cc.fn.body.local_ty(l[1][1]) == "bool"
                    ok = require(cx, cc, k2, "transfer campaign only on the explicit transfer flag", xfer, kill=False)
                    if ok:
                        kinds.add("transfer")
                        # the flag is true only in the MsgTimeoutNow arm
                        flag = [l[1] for l in cx.guard_lits(cc) if xfer(l)][0]
                        for c3 in callers_of(cx, cc.fn):
                            a3 = call_args(cx, c3)[flag[1] - 1]
                            k3 = cx.site_key(c3, "call:" + fn_name(cc.fn))
                            if a3 == ("bool", True):
                                from .commit import _in_msg_arm
                                cx.check(_in_msg_arm(cx, c3, {"MsgTimeoutNow"}), k3, "a forced (transfer) election is started only in the MsgTimeoutNow arm", c3)
                            else:
                                cx.check(a3 == ("bool", False), k3, "ordinary elections pass transfer = false (found %s)" % show(a3), c3)
                elif is_item(t, "CAMPAIGN_ELECTION"):
                    def no_prevote(l):
                        return l[0] == "is" and l[2] is False and is_f(l[1], "RaftCore.pre_vote")
                    def won(l):
                        return l[0] == "in" and l[2] == frozenset(["Won"])
                    def precand(l):
                        return l[0] == "in" and is_f(l[1], STATE) and l[2] == frozenset(["PreCandidate"])
                    g = cx.pg(cc.fn)
                    a_ok, _ = g.guarded(cc.at, lambda lits: any(no_prevote(l) for l in lits))
                    b_ok = g.guarded(cc.at, lambda lits: any(won(l) for l in lits))[0] and g.guarded(cc.at, lambda lits: any(precand(l) for l in lits))[0]
                    cx.check(a_ok or b_ok, k2, "a real election starts only if pre-vote is off, or after a won pre-vote as pre-candidate", cc, arg=show(t))
                    if a_ok:
                        kinds.add("no-prevote")
                    if b_ok:
                        kinds.add("prevote-won")
                else:
                    cx.bad(k2, "unrecognised campaign type %s" % show(t), cc)
    for k in ("transfer", "no-prevote", "prevote-won"):
        cx.check(k in kinds, "idiom:" + k, "a %s election path exists" % k)


def _preamble_role_changes(cx, step, m):
    """call sites in Raft::step that may change the role and are guarded by m.term > self.term"""
    out = []
    g = cx.pg(step)
    for sp, s in cx.prog.calls_out[step.key]:
        if s.kind != "call" or sp not in cx.prog.short:
            continue
        if STATE not in cx.prog.modset_short(sp):
            continue
        def higher(l):
            return l[0] == "is" and l[2] is True and l[1][0] == "bin" and l[1][1] == "Lt" and is_f(l[1][2], TERM) and l[1][3] == ("field", m, "Message.term")
        ok, _ = g.guarded(s.at, lambda lits: any(higher(l) for l in lits))
        if ok:
            out.append(s)
    return out


@obligation("LEASE.gate", ["C16", "C17", "C06", "C02", "C20"], floor=1, kind="guard (disjunctive) under assumption",
            why="a (pre)vote request at a higher term must not depose a leader heard from within the election timeout, unless it is a transfer")
def lease_gate(cx):
    step = cx.fn("Raft::step")
    m = _m_param(step)
    sites = _preamble_role_changes(cx, step, m)
    cx.check(bool(sites), "floor", "the higher-term preamble of Raft::step has a role change")
    mt = ("field", m, "Message.msg_type")

    def lease_open(l):
        # force
        if l[0] == "is" and l[2] is True:
            b = match(("bin", "Eq", V("a"), V("b")), l[1])
            if b and any(is_item(x, "CAMPAIGN_TRANSFER") for x in (b["a"], b["b"])) and any(x == ("field", m, "Message.context") for x in (b["a"], b["b"])):
                return True
        if l[0] == "is" and l[2] is False and is_f(l[1], "RaftCore.check_quorum"):
            return True
        if l[0] == "in" and is_f(l[1], "RaftCore.leader_id") and l[2] == frozenset([0]):
            return True
        if l[0] == "is" and l[2] is False and l[1][0] == "bin" and l[1][1] == "Lt" and is_f(l[1][2], "RaftCore.election_elapsed") and is_f(l[1][3], "RaftCore.election_timeout"):
            return True
        return False
    for s in sites:
        for ty in ("MsgRequestVote", "MsgRequestPreVote"):
            g = cx.pg(step)
            assume = [("in", mt, frozenset([ty]), MT)]
            if s.block not in g.reach(assume):
                cx.ok(cx.site_key(s, "lease:" + ty), "not reachable for %s" % ty, s)
                continue
            require(cx, s, cx.site_key(s, "lease:" + ty),
                    "for a %s at a higher term the role change needs force (context == CAMPAIGN_TRANSFER) or an expired lease (!check_quorum | leader_id == 0 | !(election_elapsed < election_timeout))" % ty,
                    lease_open, assume=assume)
    # the lease path returns without effect
    # (region: vote-request type, higher term, lease closed) -> no write to raft state
    g = cx.pg(step)
    lits = set()
    for n in range(len(g.nodes)):
        for _, ls in g.edges[n] or []:
            lits.update(ls)
    in_lease = [l for l in lits if l[0] == "is" and l[2] is True and l[1][0] == "bin" and l[1][1] == "Lt" and is_f(l[1][2], "RaftCore.election_elapsed") and is_f(l[1][3], "RaftCore.election_timeout")]
    cq = [l for l in lits if l[0] == "is" and l[2] is True and is_f(l[1], "RaftCore.check_quorum")]
    ld = [l for l in lits if l[0] in ("notin", "in") and is_f(l[1], "RaftCore.leader_id") and 0 not in l[2]] + [("notin", x[1], frozenset([0]), None) for x in lits if x[0] == "in" and is_f(x[1], "RaftCore.leader_id") and x[2] == frozenset([0])]
    notforce = [l for l in lits if l[0] == "is" and l[2] is False and l[1][0] == "bin" and l[1][1] == "Eq" and any(is_item(x, "CAMPAIGN_TRANSFER") for x in l[1][2:4])]
    higher = [l for l in lits if l[0] == "is" and l[2] is True and l[1][0] == "bin" and l[1][1] == "Lt" and is_f(l[1][2], TERM) and l[1][3] == ("field", m, "Message.term")]
    lease_assume = None
    if in_lease and cq:
        lease_assume = [in_lease[0], cq[0]] + ld[:1]
    else:
        # the three atoms may live in a small predicate function: use its call literal
        from ..engine import expand_call_literal
        for l in lits:
            if l[0] == "is" and l[2] is True and l[1][0] == "call":
                alts = expand_call_literal(cx, l)
                if alts and any(any(x[0] == "is" and x[1][0] == "bin" and x[1][1] == "Lt" and is_f(x[1][2], "RaftCore.election_elapsed") for x in alt) and any(x[0] == "is" and is_f(x[1], "RaftCore.check_quorum") for x in alt) for alt in alts):
                    lease_assume = [l]
    cx.check(bool(lease_assume and notforce and higher), "lease-atoms", "the lease test reads check_quorum, leader_id, election_elapsed < election_timeout and the transfer context")
    if lease_assume and notforce and higher:
        assume = [("in", mt, frozenset(["MsgRequestVote"]), MT), notforce[0], higher[0], ("notin", ("field", m, "Message.term"), frozenset([0]), None)] + lease_assume
        hits = reach_writes(cx, step, assume, {TERM, VOTE, STATE, "RaftCore.leader_id", "RaftCore.election_elapsed"})
        cx.check(not hits, "lease-closed-no-effect", "inside the lease a higher-term vote request changes neither term, vote, role, leader nor the election timer (found %s)" % sorted({fk for _, _, fk in hits}))


@obligation("LEASE.checkquorum", ["C16"], floor=3, kind="guard + pairing + value shape",
            why="a leader that lost its quorum must step down; one whose majority answers must not")
def checkquorum(cx):
    step_leader = None
    sites = []
    for k, (rf, p) in reset_fns(cx).items():
        pass
    from .commit import _in_msg_arm
    qra = cx.fn("ProgressTracker::quorum_recently_active")
    # call chain: MsgCheckQuorum arm -> ... -> quorum_recently_active
    arms = []
    for c in cx.prog.all_calls:
        sp = c.data["callee"]
        if sp in cx.prog.short and STATE in cx.prog.modset_short(sp) and _in_msg_arm(cx, c, {"MsgCheckQuorum"}, depth=0):
            arms.append(c)
    cx.check(bool(arms), "floor", "the MsgCheckQuorum arm contains a step-down")
    for c in arms:
        key = cx.site_key(c, "checkquorum:stepdown")
        def inactive(l):
            return l[0] == "is" and l[2] is False and l[1][0] == "call" and (l[1][1] == cx.sfx("Raft::check_quorum_active") or l[1][1].endswith("quorum_recently_active"))
        require(cx, c, key, "the leader steps down in the MsgCheckQuorum arm only if the quorum was not recently active", inactive, kill=False)
        args = call_args(cx, c)
        cx.check(any(is_f(a, TERM) for a in args[1:]), key + ":term", "the step-down keeps the current term", c)
        # converse: if inactive, the step-down is reached
        g = cx.pg(c.fn)
        lits = [l for l in cx.guard_lits(c) if inactive(l)]
        ret = None
        for bi in sorted(cx.prog.A(c.fn).reach):
            if c.fn.body.blocks[bi]["term"]["k"] == "return":
                ret = (bi, "term")
        mlit = [l for l in cx.guard_lits(c) if l[0] == "in" and is_f(l[1], "Message.msg_type")]
        ok = bool(lits) and ret is not None and g.dominated_by_block(ret, lambda b: b == c.block, assume=lits + mlit)
        cx.check(ok, key + ":converse", "whenever the quorum check fails in that arm, the step-down is executed", c)
    # check_quorum_active -> quorum_recently_active(self.id)
    for c in callers_of(cx, qra):
        args = call_args(cx, c)
        cx.check(is_f(args[1], "RaftCore.id"), cx.site_key(c, "call:quorum_recently_active"), "the activity check is taken from the node's own perspective (self.id)", c)
    rets = cx.pg(qra).returns(limit=20000)
    ok = bool(rets) and all(v[0] == "call" and v[1].endswith("ProgressTracker::has_quorum") for _, v, _ in rets)
    cx.check(ok, "shape:has_quorum", "quorum_recently_active answers has_quorum(active set)")
    ins = [c for c in cx.prog.call_sites_of("HashSet::insert") if c.fn is qra]
    cx.check(len(ins) >= 1, "shape:inserts", "the active set receives the node itself and the recently active peers (one insert under `is self || recent_active`, or one per case)")
    for c in ins:
        def cond(l):
            if l[0] == "is" and l[2] is True and is_f(l[1], "Progress.recent_active"):
                return True
            if l[0] == "is" and l[2] is True and l[1][0] == "bin" and l[1][1] == "Eq" and any(x[0] == "param" for x in l[1][2:4]):
                return True
            return False
        require(cx, c, cx.site_key(c, "insert"), "a peer counts as active only if it is the node itself or its recent_active flag is set", cond, kill=False)
    # converse: EVERY recently active peer (voter of either half, or learner -- has_quorum looks at ids) and the node itself count
    gq = cx.pg(qra)
    insb = {c.block for c in ins}
    ok1, n1 = gq.after_edge_must_pass(lambda lits: any(l[0] == "is" and l[2] is True and is_f(l[1], "Progress.recent_active") for l in lits), lambda b: b in insb)
    ok2, n2 = gq.after_edge_must_pass(lambda lits: any(l[0] == "is" and l[2] is True and l[1][0] == "bin" and l[1][1] == "Eq" and any(x[0] == "param" for x in l[1][2:4]) for l in lits), lambda b: b in insb)
    cx.check(ok1 and n1 >= 1 and ok2 and n2 >= 1, "shape:inserts:all", "every peer whose recent_active flag is set, and the node itself, is put into the active set (no further condition such as 'is an incoming voter')")


@obligation("LEASE.activity", ["C16"], floor=2, kind="who-may-write",
            why="a leader whose majority answers every heartbeat would still step down at the next check-quorum tick")
def activity(cx):
    from .commit import _in_msg_arm
    arms = set()
    for s in cx.prog.writes.get("Progress.recent_active", []):
        if s.kind != "write" or "stmt" not in s.data or write_value(cx, s) != ("bool", True):
            continue
        for ty in ("MsgAppendResponse", "MsgHeartbeatResponse"):
            if _in_msg_arm(cx, s, {ty}):
                arms.add(ty)
                # unconditional on the found progress
                gl = cx.guard_lits(s)
                only_lookup = all(l[0] == "in" and l[2] == frozenset(["Some"]) or (l[0] == "in" and is_f(l[1], "Message.msg_type")) for l in gl)
                cx.check(only_lookup, cx.site_key(s, "active:" + ty), "every %s from a known peer marks it recently active (no further condition)" % ty, s, guards=[show_lit(l) for l in gl])
    for ty in ("MsgAppendResponse", "MsgHeartbeatResponse"):
        cx.check(ty in arms, "arm:" + ty, "the %s arm sets recent_active on the sender's progress" % ty)
    ac = cx.fn("ProgressTracker::apply_conf")
    helpers = {ac.key}
    for sp, c in cx.prog.calls_out[ac.key]:
        hf = cx.prog.fn_by_short(sp) if c.kind == "call" and sp in cx.prog.short else None
        if hf is not None and hf.vis != "Public" and hf.impl_adt == ac.impl_adt:
            helpers.add(hf.key)
    ok = any(s.fn.key in helpers and "stmt" in s.data and write_value(cx, s) == ("bool", True) for s in cx.prog.writes.get("Progress.recent_active", []))
    if not ok:
        # or the progress is built with the flag already set (`Progress { recent_active: true, ..Progress::new(..) }`)
        from .commit import ctor_sites
        for f, bi, si, st in ctor_sites(cx, "progress::Progress"):
            if f.key in helpers and "recent_active" in st["rv"]["fields"]:
                v = cx.prog.A(f).expr_operand(st["rv"]["ops"][st["rv"]["fields"].index("recent_active")], (bi, si))
                ok = ok or v == ("bool", True)
    cx.check(ok, "apply_conf", "a freshly added peer starts recently active (it cannot have answered yet)")


def _flag_expr(g, key):
    for n in range(len(g.nodes)):
        for _, ls in g.edges[n] or []:
            for l in ls:
                if l[0] == "is" and is_f(l[1], key):
                    return l[1]
    return None


def _ret_blocks(cx, fn):
    return [bi for bi in sorted(cx.prog.A(fn).reach) if fn.body.blocks[bi]["term"]["k"] == "return"]


@obligation("LEASE.unstick", ["C10", "C04", "C01"], floor=2, kind="message template under assumption",
            why="a node that ran ahead in term, or a pre-candidate with a stale term, would otherwise be stuck forever")
def unstick(cx):
    step = cx.fn("Raft::step")
    m = _m_param(step)
    n1 = n2 = 0
    conv = {}
    for t in tmpls(cx, {"MsgAppendResponse"}):
        if t.fn is not step:
            continue
        def lower(l):
            return l[0] == "is" and l[2] is True and l[1][0] == "bin" and l[1][1] == "Lt" and l[1][2] == ("field", m, "Message.term") and is_f(l[1][3], TERM)
        g = cx.pg(step)
        if g.guarded(t.site.at, lambda lits: any(lower(l) for l in lits))[0]:
            n1 += 1
            def enabled(l):
                return l[0] == "is" and l[2] is True and (is_f(l[1], "RaftCore.check_quorum") or is_f(l[1], "RaftCore.pre_vote"))
            require_all(cx, t.site, tkey(cx, t, "unstick:leader-msg"), "a lower-term MsgAppend/MsgHeartbeat is answered with a bare MsgAppendResponse when check_quorum or pre_vote is on",
                        [("type in {MsgHeartbeat, MsgAppend}", msg_type_in(m, {"MsgHeartbeat", "MsgAppend"})), ("check_quorum or pre_vote", enabled)], kill=False)
            cx.check(t.get("to") == ("field", m, "Message.from"), tkey(cx, t, "unstick:to"), "the reply goes to the sender", t.site)
            # the reply only carries the (higher) term: a non-reject MsgAppendResponse with an index is an acknowledgement
            # of that index in the receiver's own log -- nothing of the sender's log was compared with anything here
            from ..templates import DEFAULT as _D
            carried = sorted(f_ for f_ in ("index", "commit", "log_term", "reject_hint", "entries") if t.get(f_) not in (_D, ("int", 0)))
            cx.check(not carried, tkey(cx, t, "unstick:bare"), "the reply to a lower-term leader acknowledges nothing: index, commit, log_term, reject_hint stay unset (set: %s)" % carried, t.site)
            lw = [l for l in cx.guard_lits(t.site) if lower(l)]
            for flag in ("RaftCore.check_quorum", "RaftCore.pre_vote"):
                for ty in ("MsgHeartbeat", "MsgAppend"):
                    assume = lw + [("in", ("field", m, "Message.msg_type"), frozenset([ty]), MT), ("is", _flag_expr(g, flag), True), ("notin", ("field", m, "Message.term"), frozenset([0]), None)]
                    ok = _flag_expr(g, flag) is not None and all(g.dominated_by_block((rb, "term"), lambda b, t=t: b == t.site.block, assume=assume) for rb in _ret_blocks(cx, step))
                    k_ = (flag.split(".")[1], ty)
                    conv[k_] = conv.get(k_, False) or ok
    # (the answer may be built at one site for both types or at one site per type: some site must cover each case)
    for (fl_, ty), ok in sorted(conv.items()):
        cx.check(ok, "converse:%s:%s" % (fl_, ty), "every lower-term %s is answered when %s is on" % (ty, fl_))
    for t in tmpls(cx, {"MsgRequestPreVoteResponse", "MsgRequestVoteResponse"}):
        # (the type may be the literal, or vote_resp_msg_type(m.msg_type) under the required guard m.msg_type == MsgRequestPreVote)
        if t.fn is not step or t.get("reject") != ("bool", True) or "MsgRequestPreVoteResponse" not in (t.types() or ()):
            continue
        g = cx.pg(step)
        def lower(l):
            return l[0] == "is" and l[2] is True and l[1][0] == "bin" and l[1][1] == "Lt" and l[1][2] == ("field", m, "Message.term") and is_f(l[1][3], TERM)
        if g.guarded(t.site.at, lambda lits: any(lower(l) for l in lits))[0]:
            n2 += 1
            require(cx, t.site, tkey(cx, t, "unstick:prevote"), "a lower-term pre-vote request is rejected explicitly", msg_type_in(m, {"MsgRequestPreVote"}), kill=False)
            mtv = t.get("msg_type")
            if mtv[0] == "call":
                of_req = len(mtv[2]) == 1 and (mtv[2][0] == ("field", m, "Message.msg_type") or (mtv[2][0][0] == "call" and mtv[2][0][1].endswith("get_msg_type") and mtv[2][0][2] and mtv[2][0][2][0] == m))
                cx.check(of_req, tkey(cx, t, "unstick:type"), "the rejection's type is the response type of the request's own type (found %s)" % show(mtv)[:100], t.site)
            cx.check(is_f(t.get("term"), TERM), tkey(cx, t, "unstick:term"), "the rejection carries the node's own (higher) term", t.site)
            lw = [l for l in cx.guard_lits(t.site) if lower(l)]
            assume = lw + [("in", ("field", m, "Message.msg_type"), frozenset(["MsgRequestPreVote"]), MT), ("notin", ("field", m, "Message.term"), frozenset([0]), None)]
            for flag in ("RaftCore.check_quorum", "RaftCore.pre_vote"):
                fe = _flag_expr(g, flag)
                if fe is not None:
                    assume.append(("is", fe, False))
            ok = all(g.dominated_by_block((rb, "term"), lambda b, t=t: b == t.site.block, assume=assume) for rb in _ret_blocks(cx, step))
            cx.check(ok, "converse:prevote", "every lower-term pre-vote request is rejected explicitly (even with check_quorum and pre_vote off)")
    cx.check(n1 >= 1, "floor:leader-msg", "the lower-term branch answers stale leader traffic")
    cx.check(n2 >= 1, "floor:prevote", "the lower-term branch rejects stale pre-vote requests")


@obligation("XFER.forced_vote", ["C16", "C17"], floor=2, kind="message template + guard",
            why="the transfer target must be able to win despite the voters' lease, and only it")
def forced_vote(cx):
    n = 0
    fns = {t.fn.key: t.fn for t in tmpls(cx, {"MsgRequestVote", "MsgRequestPreVote"})}
    for f in fns.values():
        for s in cx.prog.writes.get("Message.context", []):
            if s.fn is not f:
                continue
            n += 1
            v = write_value(cx, s) if "stmt" in s.data else cx.prog.A(f).expr_call(s.data["term"], s.at)
            def is_xfer(l, v=v):
                if l[0] != "is" or l[2] is not True:
                    return False
                b = match(("bin", "Eq", V("a"), V("b")), l[1])
                return bool(b) and any(is_item(x, "CAMPAIGN_TRANSFER") for x in (b["a"], b["b"])) and (v in (b["a"], b["b"]) or is_item(v, "CAMPAIGN_TRANSFER"))
            require(cx, s, cx.site_key(s, "write:Message.context"), "a vote request carries a context only for the transfer campaign, and it is CAMPAIGN_TRANSFER (found %s)" % show(v), is_xfer, kill=False)
    cx.check(n >= 1, "floor", "the transfer campaign marks its vote requests")
