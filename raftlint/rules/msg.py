"""MSG — outbound message templates (DESIGN §5.5) and the template-based halves of VOTE / APPEND / PREVOTE."""
from ..engine import obligation, require, require_all, fn_name, callers_of, call_args
from ..an import show, walk, strip_generics, strip_generics as sg
from ..pat import ANY, V, match, call, fld, alt
from ..pg import show_lit
from ..idioms import as_min, is_param_of_adt, strip_casts
from ..templates import send_templates, DEFAULT, UNCHANGED
from .vote import is_f, msg_type_in, TERM

VOTE_TYPES = {"MsgRequestVote", "MsgRequestPreVote", "MsgRequestVoteResponse", "MsgRequestPreVoteResponse"}
NO_TERM_STAMP = VOTE_TYPES | {"MsgPropose", "MsgReadIndex"}
MT = "raft_proto::protos::eraftpb::MessageType"


def tmpls(cx, types=None, exact=False):
    out = []
    for t in send_templates(cx.prog):
        ty = t.types()
        if types is None:
            out.append(t)
        elif ty is not None and (ty <= set(types)):
            out.append(t)
    return out


def tkey(cx, t, what):
    return cx.site_key(t.site, "send:" + what)


def is_committed(e):
    return is_f(e, "RaftLog.committed")


def is_log_call(e, name, nargs=0):
    return e[0] == "call" and e[1].endswith("RaftLog::" + name) and len(e[2]) == 1 + nargs


@obligation("MSG.single_exit", ["C06", "C13"], floor=2, kind="who-may-call",
            why="a message queued outside RaftCore::send bypasses term stamping and the persisted-message partition")
def single_exit(cx):
    prog = cx.prog
    send = cx.fn("RaftCore::send")
    n_push = 0
    for s in prog.all_calls:
        t = s.data["term"]
        if not t["args"]:
            continue
        pl = t["args"][0].get("move") or t["args"][0].get("copy")
        if pl is None or pl["p"]:
            continue
        ty = s.fn.body.local_ty(pl["l"])
        if not ty.startswith("&mut alloc::vec::Vec<raft_proto::protos::eraftpb::Message"):
            continue
        callee = s.data["callee"]
        if callee.endswith("DerefMut>::deref_mut") or callee in prog.short:
            continue
        key = cx.site_key(s, "vecmsg:" + callee.split("::")[-1])
        if callee == "alloc::vec::Vec::push":
            ok = s.fn is send
            n_push += ok
            cx.check(ok, key, "messages are queued (Vec<Message>::push) only inside RaftCore::send", s)
        elif callee == "core::mem::take":
            ok = s.fn is cx.fn("RawNode::gen_light_ready") or fn_name(s.fn) == "LightReady::take_messages"
            cx.check(ok, key, "the outbound queue is drained only by gen_light_ready / LightReady::take_messages", s)
        else:
            cx.bad(key, "unrecognised mutation of a Vec<Message>: %s" % callee, s)
    cx.check(n_push == 1, "push-in-send", "exactly one push of a Message exists, in RaftCore::send")
    # direct writers of the queue field
    for s in prog.writes.get("Raft.msgs", []):
        if s.kind == "extwrite" and s.data["callee"] in ("core::mem::take",):
            continue
        if s.kind == "extwrite" and s.data["callee"].endswith("deref_mut"):
            continue
        cx.bad(cx.site_key(s, "write:Raft.msgs"), "Raft.msgs written outside send/gen_light_ready (%s)" % s.data.get("callee", "assignment"), s)


@obligation("MSG.term_stamp", ["C02", "C06", "C08", "C16"], floor=10, kind="must-pass-through per message type",
            why="replies that do not carry the sender's term cannot depose a stale leader or be discarded as stale")
def term_stamp(cx):
    send = cx.fn("RaftCore::send")
    g = cx.pg(send)
    a = cx.prog.A(send)
    pushes = [s for s in cx.prog.call_sites_of("alloc::vec::Vec::push") if s.fn is send]
    cx.need(pushes, "Vec::push in RaftCore::send")
    push = pushes[0]
    margs = call_args(cx, push)
    mobj = margs[1]
    stamp_blocks = set()
    for s in cx.prog.writes.get("Message.term", []):
        if s.fn is send and s.kind == "write" and "stmt" in s.data:
            v = a.expr_rvalue(s.data["stmt"]["rv"], s.at)
            if is_f(v, TERM):
                stamp_blocks.add(s.block)
    variants = cx.facts.variants(MT)
    cx.need(variants, "enum MessageType")
    mt = ("field", mobj, "Message.msg_type")
    for v in variants:
        if v in NO_TERM_STAMP:
            continue
        ok = g.dominated_by_block(push.at, lambda b: b in stamp_blocks, assume=[("in", mt, frozenset([v]), MT)])
        if not ok:
            # the stamped value reaches the field through a computed result (`m.term = match self.outgoing_term(..) { Ok(t) => t, .. }`):
            # on every path of this type to the end of send() the last value stored into m.term is self.term
            tw = {}
            for s_ in cx.prog.writes.get("Message.term", []):
                if s_.fn is send and s_.kind == "write" and "stmt" in s_.data:
                    tw.setdefault(s_.block, []).append(s_)

            def write_eval(n, tw=tw):
                ws = tw.get(g.nodes[n][0])
                if not ws:
                    return None
                w = sorted(ws, key=lambda x: x.idx)[-1]
                val = a.expr_rvalue(w.data["stmt"]["rv"], w.at, 0, g.env_at(n, w.idx) or None)
                return bool(is_f(val, TERM))
            ok = bool(tw) and g.holds_at_exit(write_eval, assume=[("in", mt, frozenset([v]), MT)])[0]
        if not ok:
            # third form: one store `m.term = <value chosen earlier>` (a pure helper deciding the term, spliced in) that every
            # path to the push passes: on every path a message of this type can take, the stored value is self.term
            ok = _single_store_value(cx, g, a, send, push, v)
        cx.check(ok, "stamp:" + v, "a %s leaves send() only after `m.term := self.term`" % v, push)


_SSV = {}


def _single_store_value(cx, g, a, send, push, v):
    from ..engine import subst_phis
    ws = [s_ for s_ in cx.prog.writes.get("Message.term", []) if s_.fn is send and s_.kind == "write" and "stmt" in s_.data]
    if len(ws) != 1 or not g.dominated_by_block(push.at, lambda b: b == ws[0].block):
        return False
    w = ws[0]
    key = (id(cx.prog), w.at)
    if key not in _SSV:
        val = a.expr_rvalue(w.data["stmt"]["rv"], w.at)
        try:
            pv = g.site_values(w.at, lambda env: dict(env or {}), 4000)
        except OverflowError:
            pv = None
        _SSV.clear()
        _SSV[key] = None if pv is None else [(lits, subst_phis(val, env)) for lits, env in pv]
    rows = _SSV[key]
    if not rows:
        return False
    n = 0
    for lits, val in rows:
        poss = True
        for l in lits:
            if l[0] in ("in", "notin") and l[1][0] == "field" and l[1][2] == "Message.msg_type":
                if (v in l[2]) != (l[0] == "in"):
                    poss = False
        if not poss:
            continue
        n += 1
        if not is_f(val, TERM):
            return False
    return n > 0


@obligation("MSG.from_stamp", ["C08", "C10", "C20"], floor=1, kind="must-pass-through under assumption",
            why="a message that leaves the node without a sender cannot be answered: a forwarded read or proposal is then treated by the leader as its own")
def from_stamp(cx):
    send = cx.fn("RaftCore::send")
    g = cx.pg(send)
    a = cx.prog.A(send)
    pushes = [s for s in cx.prog.call_sites_of("alloc::vec::Vec::push") if s.fn is send]
    cx.need(pushes, "Vec::push in RaftCore::send")
    push = pushes[0]
    mobj = call_args(cx, push)[1]
    blocks = set()
    for s in cx.prog.writes.get("Message.from", []):
        if s.fn is send and s.kind == "write" and "stmt" in s.data and is_f(a.expr_rvalue(s.data["stmt"]["rv"], s.at), "RaftCore.id"):
            blocks.add(s.block)
    cx.check(bool(blocks), "site", "send() stamps m.from := self.id")
    unset = ("in", ("field", mobj, "Message.from"), frozenset([0]), None)
    ok = bool(blocks) and g.dominated_by_block(push.at, lambda b: b in blocks, assume=[unset])
    cx.check(ok, "stamp", "a message whose sender is unset leaves send() only after `m.from := self.id` (whatever its type)", push)


@obligation("MSG.forward_unchanged", ["C17", "C08", "C10"], floor=1, kind="message template (received object passed on)",
            why="a request a follower passes on to the leader must arrive as it was received: `from` names the transfer target / the node whose read or proposal it is, the payload is the request; only the addressee changes")
def forward_unchanged(cx):
    from ..templates import UNCHANGED
    n = 0
    for t in send_templates(cx.prog):
        if not (t.obj[0] == "param" and t.types() is None):
            continue
        if not is_param_of_adt(t.fn, t.obj, "Message"):
            continue
        changed = sorted(k for k, v in t.fields.items() if k != "*" and not k.startswith("$") and v != UNCHANGED)
        base_ok = t.fields.get("*") == UNCHANGED
        key = tkey(cx, t, "forward")
        ok = base_ok and changed == ["to"] and is_f(t.get("to"), "RaftCore.leader_id")
        cx.check(ok, key, "a received message is passed on with nothing but its addressee changed (to := leader_id); fields rewritten: %s" % changed, t.site, to=t.show_field("to"))
        n += 1
    cx.check(n >= 1, "floor", "the follower's forwarding of requests to the leader was found (which types are forwarded: STEP.type_partition)")


@obligation("MSG.priority_stamp", ["C10", "C03"], floor=3, kind="must-pass-through per message type",
            why="voters compare the candidate's priority with their own when logs are equally long; a vote or pre-vote request that does not carry it is refused by every voter with a positive priority, and nobody is ever elected")
def priority_stamp(cx):
    send = cx.fn("RaftCore::send")
    g = cx.pg(send)
    a = cx.prog.A(send)
    pushes = [s for s in cx.prog.call_sites_of("alloc::vec::Vec::push") if s.fn is send]
    cx.need(pushes, "Vec::push in RaftCore::send")
    push = pushes[0]
    mobj = call_args(cx, push)[1]
    blocks = set()
    for s in cx.prog.writes.get("Message.priority", []):
        if s.fn is send and s.kind == "write" and "stmt" in s.data and is_f(a.expr_rvalue(s.data["stmt"]["rv"], s.at), "RaftCore.priority"):
            blocks.add(s.block)
    pw = {}
    for s_ in cx.prog.writes.get("Message.priority", []):
        if s_.fn is send and s_.kind == "write" and "stmt" in s_.data:
            pw.setdefault(s_.block, []).append(s_)

    def write_eval(n):
        ws = pw.get(g.nodes[n][0])
        if not ws:
            return None
        w = sorted(ws, key=lambda x: x.idx)[-1]
        return bool(is_f(a.expr_rvalue(w.data["stmt"]["rv"], w.at, 0, g.env_at(n, w.idx) or None), "RaftCore.priority"))
    mt = ("field", mobj, "Message.msg_type")
    by_value = {v: bool(pw) and g.holds_at_exit(write_eval, assume=[("in", mt, frozenset([v]), MT)])[0] for v in ("MsgRequestVote", "MsgRequestPreVote")} if not blocks else {}
    cx.check(bool(blocks) or any(by_value.values()), "site", "send() stamps m.priority := self.priority")
    for v in ("MsgRequestVote", "MsgRequestPreVote"):
        ok = bool(blocks) and g.dominated_by_block(push.at, lambda b: b in blocks, assume=[("in", mt, frozenset([v]), MT)])
        if not ok:
            # the value reaches the field through a computed result: the last value stored on every path of this type
            ok = bool(pw) and g.holds_at_exit(write_eval, assume=[("in", mt, frozenset([v]), MT)])[0]
        cx.check(ok, "stamp:" + v, "a %s leaves send() only after `m.priority := self.priority`" % v, push)


@obligation("MSG.heartbeat.commit_cap", ["C01", "C04", "C05", "C13"], floor=1, kind="value shape",
            why="a follower whose tail diverges beyond `matched` would commit it on a heartbeat")
def heartbeat_cap(cx):
    ts = tmpls(cx, {"MsgHeartbeat"})
    cx.check(bool(ts), "floor", "at least one MsgHeartbeat template exists")
    for t in ts:
        key = tkey(cx, t, "MsgHeartbeat")
        c = t.get("commit")
        mn = as_min(c)
        ok = False
        pr = None
        if mn:
            for x, y in (mn, mn[::-1]):
                if is_f(x, "Progress.matched") and is_committed(y):
                    ok, pr = True, x[1]
                elif x[0] == "param" and is_committed(y) and not t.fn.is_closure:
                    # the builder is handed the number instead of the progress: every caller passes some pr.matched
                    cs = callers_of(cx, t.fn)
                    if cs and all(len(call_args(cx, c_)) >= x[1] and is_f(call_args(cx, c_)[x[1] - 1], "Progress.matched") for c_ in cs):
                        ok, pr = True, None
        cx.check(ok, key, "heartbeat commit = min(pr.matched, raft_log.committed) (found %s)" % t.show_field("commit"), t.site, value=t.show_field("commit"))
        if ok:
            # `pr` must be the progress of the addressee: (to, pr) come from one map entry at every caller
            to = t.get("to")
            if to[0] == "param" and pr[0] == "param":
                for c2 in callers_of(cx, t.fn):
                    args = call_args(cx, c2)
                    a_to, a_pr = args[to[1] - 1], args[pr[1] - 1]
                    same = a_to[0] == "tfield" and a_pr[0] == "tfield" and a_to[1] == a_pr[1] and (a_to[2], a_pr[2]) == (0, 1)
                    cx.check(same, cx.site_key(c2, "call:" + fn_name(t.fn)), "heartbeat (to, pr) are the key and value of one progress-map entry", c2, args=[show(a_to), show(a_pr)])
            else:
                cx.bad(key + ":addressee", "cannot relate the heartbeat's progress to its addressee", t.site)


def _ents_source(cx, t, e):
    """Resolve the `entries` value of an append template to the RaftLog::entries(..) call."""
    e0 = e
    for _ in range(3):
        b = match(call(ANY, V("x")), e)
        if b and (e[1].endswith("from_vec") or "Into" in e[1] or "From" in e[1]):
            e = b["x"]
            continue
        if e[0] == "local":
            init = cx.prog.A(t.fn).init_expr(e[1])
            if init is not None:
                e = init
                continue
        break
    return e


@obligation("MSG.append.anchor", ["C05", "C13", "C02", "C09"], floor=1, kind="value shape",
            why="a prev-anchor that is not the predecessor of the first entry makes followers accept a gap or reject forever")
def append_anchor(cx):
    ts = tmpls(cx, {"MsgAppend"})
    cx.check(bool(ts), "floor", "at least one MsgAppend template exists")
    for t in ts:
        key = tkey(cx, t, "MsgAppend")
        idx = t.get("index")
        b = match(("bin", "Sub", fld("Progress.next_idx", V("pr")), ("int", 1)), idx)
        cx.check(bool(b), key + ":index", "append index = pr.next_idx - 1 (found %s)" % t.show_field("index"), t.site, value=t.show_field("index"))
        if not b:
            continue
        pr = b["pr"]
        lt = t.get("log_term")
        ok = match(("vfield", call("~RaftLog::term", ANY, idx), "core::result::Result::Ok", 0), lt) is not None
        cx.check(ok, key + ":log_term", "append log_term = raft_log.term(pr.next_idx - 1)? (found %s)" % t.show_field("log_term"), t.site, value=t.show_field("log_term"))
        ents = _ents_source(cx, t, t.get("entries"))
        pat_e = ("vfield", call("~RaftLog::entries", ANY, ("field", pr, "Progress.next_idx"), V("max"), ANY), "core::result::Result::Ok", 0)
        bb = match(pat_e, ents)
        if bb is None:
            ents = cx.prog.inline_wrappers(ents)   # the read may sit behind a private straight-line helper
            bb = match(pat_e, ents)
        ok = bb is not None and is_f(bb["max"], "RaftCore.max_msg_size")
        cx.check(ok, key + ":entries", "append entries = raft_log.entries(pr.next_idx, self.max_msg_size, ..)? (found %s)" % show(ents)[:160], t.site, value=show(ents)[:200])
        cx.check(is_committed(t.get("commit")), key + ":commit", "append commit = raft_log.committed (found %s)" % t.show_field("commit"), t.site, value=t.show_field("commit"))
    # batching edit of an already queued append
    tb = cx.prog.one("RaftCore::try_batching")
    if tb is not None:
        g = cx.pg(tb)
        for s in cx.prog.call_sites_of("alloc::vec::Vec::append"):
            if s.fn is not tb:
                continue
            def cont(l):
                return l[0] == "is" and l[2] is True and l[1][0] == "call" and l[1][1].endswith("is_continuous_ents")
            require(cx, s, cx.site_key(s, "batch:append"), "entries are batched onto a queued MsgAppend only if is_continuous_ents(msg, ents)", cont, kill=False)
            def same_peer(l):
                if l[0] != "is" or l[2] is not True or l[1][0] != "bin" or l[1][1] != "Eq":
                    return False
                xs = l[1][2:4]
                return any(x[0] == "field" and x[2] == "Message.to" for x in xs) and any(x[0] == "param" for x in xs)
            def is_append(l):
                return l[0] == "in" and l[2] == frozenset(["MsgAppend"]) and any(x[0] == "field" and x[2] == "Message.msg_type" or x[0] == "call" and x[1].endswith("get_msg_type") for x in walk(l[1]))
            require_all(cx, s, cx.site_key(s, "batch:target"), "entries are batched only onto a queued MsgAppend addressed to the same peer",
                        [("msg.msg_type == MsgAppend", is_append), ("msg.to == to", same_peer)], kill=False)
        ws = [s for s in cx.prog.writes.get("Message.commit", []) if s.fn is tb]
        ok = any(is_committed(cx.prog.A(tb).expr_rvalue(s.data["stmt"]["rv"], s.at)) for s in ws if "stmt" in s.data)
        cx.check(ok, "batch:commit", "a batched MsgAppend has its commit refreshed to raft_log.committed")


@obligation("VOTE.grant_guard", ["C01", "C03"], floor=1, kind="message template + guard",
            why="a candidate lacking committed entries would be elected and overwrite them")
def grant_guard(cx):
    n = 0
    for t in tmpls(cx, {"MsgRequestVoteResponse", "MsgRequestPreVoteResponse"}):
        rj = t.get("reject")
        if rj == ("bool", True):
            continue
        n += 1
        key = tkey(cx, t, "vote-response(reject possibly false)")
        # the received request: the parameter whose `from` the response is addressed to
        to = t.get("to")
        m = to[1] if is_f(to, "Message.from") else None
        def utd(l, m=m):
            if l[0] != "is" or l[2] is not True:
                return False
            b = match(call("~RaftLog::is_up_to_date", ANY, V("i"), V("t")), l[1])
            return bool(b) and b["i"] == ("field", m, "Message.index") and b["t"] == ("field", m, "Message.log_term")
        cx.check(m is not None, key + ":to", "a vote response answers the sender of the request (to = m.from)", t.site, value=t.show_field("to"))
        require(cx, t.site, key, "a vote response whose reject may be false needs is_up_to_date(m.index, m.log_term) on every path", utd,
                detail={"reject": t.show_field("reject")})
    cx.check(n >= 1, "floor", "at least one granting vote response template exists")


@obligation("MSG.heartbeat_leader_only", ["C20", "C10", "C16"], floor=2, kind="who-may-call + guard",
            why="a heartbeat tells its receiver who leads the term: one sent by a node that is not the leader resets timers, installs a wrong leader id and lets a forwarded request loop until send() hits its fatal!")
def heartbeat_leader_only(cx):
    from .vote import _state_in, STATE
    n = 0
    for name in ("Raft::bcast_heartbeat", "Raft::bcast_heartbeat_with_ctx"):
        f = cx.fn(name)
        for c in callers_of(cx, f):
            if c.fn.key == cx.fn("Raft::bcast_heartbeat").key and name == "Raft::bcast_heartbeat_with_ctx":
                continue   # the wrapper itself: decided at its own callers
            def leader(l):
                return l[0] == "in" and is_f(l[1], STATE) and l[2] == frozenset(["Leader"])
            g = cx.pg(c.fn)
            ok = g.guarded(c.at, lambda lits: any(leader(l) for l in lits))[0]
            if not ok and c.fn.vis != "Public":
                ok = _state_in(cx, c, {"Leader"}, depth=2)
            cx.check(ok, cx.site_key(c, "call:" + fn_name(f)), "heartbeats are broadcast only while state == Leader (own guard; for a private handler, the dispatcher's)", c)
            n += 1
    cx.check(n >= 2, "floor", "heartbeat broadcast sites were found")


@obligation("MSG.vote_response_commit", ["C04", "C01", "C05"], floor=1, kind="message template",
            why="a (pre)candidate fast-forwards its commit index to the (commit, commit_term) pair a vote response carries: anything but the voter's own commit point there lets a non-leader commit what no leader committed")
def vote_response_commit(cx):
    n = 0
    for t in tmpls(cx, {"MsgRequestVoteResponse", "MsgRequestPreVoteResponse"}):
        c, ct = t.get("commit"), t.get("commit_term")
        key = tkey(cx, t, "vote-response:commit")
        if c in (DEFAULT, ("int", 0)) and ct in (DEFAULT, ("int", 0)):
            continue
        n += 1

        def proj(e):
            # one projection of raft_log.commit_info(): .0/.1, or a named field of a small wrapper built from it
            if e[0] == "tfield" and is_log_call(e[1], "commit_info"):
                return e[1], e[2]
            if e[0] == "field" and is_log_call(e[1], "commit_info"):
                return e[1], e[2]
            return None, None
        b1, p1 = proj(c)
        b2, p2 = proj(ct)
        ok = b1 is not None and b1 == b2 and p1 != p2
        if ok and isinstance(p1, int):
            ok = (p1, p2) == (0, 1)
        elif ok:
            ok = "term" not in str(p1).lower() and "term" in str(p2).lower()
        cx.check(ok, key, "a vote response carries the voter's own commit point: (commit, commit_term) = raft_log.commit_info() (found %s, %s)" % (t.show_field("commit")[:80], t.show_field("commit_term")[:80]), t.site)
    cx.check(n >= 1, "floor", "a vote response carrying commit info exists")


@obligation("VOTE.request_fields", ["C03", "C16", "C01", "C04"], floor=1, kind="message template",
            why="advertising a better log than it has wins votes it must not get")
def request_fields(cx):
    ts = tmpls(cx, {"MsgRequestVote", "MsgRequestPreVote"})
    cx.check(bool(ts), "floor", "at least one vote request template exists")
    seen = set()
    for t in ts:
        if (t.site.block, t.fn.key) in seen:
            continue
        seen.add((t.site.block, t.fn.key))
        key = tkey(cx, t, "vote-request")
        ok = is_log_call(t.get("index"), "last_index")
        cx.check(ok, key + ":index", "vote request index = raft_log.last_index() (found %s)" % t.show_field("index"), t.site, value=t.show_field("index"))
        ok = is_log_call(t.get("log_term"), "last_term")
        cx.check(ok, key + ":log_term", "vote request log_term = raft_log.last_term() (found %s)" % t.show_field("log_term"), t.site, value=t.show_field("log_term"))
        c, ct = t.get("commit"), t.get("commit_term")
        ok = c[0] == "tfield" and ct[0] == "tfield" and c[1] == ct[1] and (c[2], ct[2]) == (0, 1) and is_log_call(c[1], "commit_info")
        cx.check(ok, key + ":commit", "vote request (commit, commit_term) = raft_log.commit_info() (found %s, %s)" % (t.show_field("commit"), t.show_field("commit_term")), t.site)
        # (type, term) pairs
        ty, tm = t.get("msg_type"), t.get("term")
        pairs = None
        if ty[0] == "phi" and tm[0] == "phi" and ty[1] == tm[1] and len(ty[3]) == len(tm[3]):
            pairs = list(zip(ty[3], tm[3]))
        elif ty[0] == "enum":
            pairs = [(ty, tm)]
        elif ty[0] == "phi" or tm[0] == "phi":
            # chosen in separate places from one selector: the pairs that occur along the paths to the send
            from ..engine import path_variants
            pairs = path_variants(cx, t.site, (ty, tm))
            if pairs is not None and any(a[0] == "phi" or b[0] == "phi" for a, b in pairs):
                pairs = None
        ok = pairs is not None
        if ok:
            for a, b in pairs:
                if a == ("enum", MT, "MsgRequestPreVote"):
                    mm = match(("bin", "Add", V("x"), V("y")), b)
                    ok = ok and bool(mm) and {mm["x"][0], mm["y"][0]} == {"field", "int"} and (("int", 1) in (mm["x"], mm["y"])) and (is_f(mm["x"], TERM) or is_f(mm["y"], TERM))
                elif a == ("enum", MT, "MsgRequestVote"):
                    ok = ok and is_f(b, TERM)
                else:
                    ok = False
        cx.check(ok, key + ":term", "pre-vote requests carry term+1, real vote requests the (already incremented) term (found type=%s term=%s)" % (t.show_field("msg_type"), t.show_field("term")), t.site)


@obligation("PREVOTE.response_terms", ["C16"], floor=2, kind="message template",
            why="a grant must echo the request's term (pre-votes are for a future term); a rejection must carry the rejecter's own")
def response_terms(cx):
    n = 0
    for t in tmpls(cx, {"MsgRequestVoteResponse", "MsgRequestPreVoteResponse"}):
        key = tkey(cx, t, "vote-response:term")
        rj = t.get("reject")
        tm = t.get("term")
        to = t.get("to")
        m = to[1] if is_f(to, "Message.from") else None
        if rj == ("bool", True):
            ok = is_f(tm, TERM)
            cx.check(ok, key, "a rejection carries term = self.term (found %s)" % t.show_field("term"), t.site)
        else:
            ok = m is not None and tm == ("field", m, "Message.term")
            cx.check(ok, key, "a grant carries term = m.term (found %s)" % t.show_field("term"), t.site)
        n += 1
    cx.check(n >= 2, "floor", "grant and rejection templates exist")


@obligation("APPEND.ack_index", ["C04", "C05", "C10"], floor=2, kind="message template",
            why="acknowledging more than was matched feeds the leader's match index a false value")
def ack_index(cx):
    n_acc = n_rej = 0
    for t in tmpls(cx, {"MsgAppendResponse"}):
        idx = t.get("index")
        # only the handler that appends: its index mentions maybe_append or the received m.index
        b = match(("tfield", ("vfield", call("~RaftLog::maybe_append", ANY, V("i"), V("t"), V("c"), V("e")), "core::option::Option::Some", 0), 1), idx)
        key = tkey(cx, t, "MsgAppendResponse")
        if b:
            n_acc += 1
            ok = t.get("reject") in (DEFAULT, ("bool", False))
            cx.check(ok, key + ":accept", "the accepting response acknowledges maybe_append's last new index and does not reject", t.site, index=show(idx))
            cx.check(is_committed(t.get("commit")), key + ":commit", "append response commit = raft_log.committed", t.site)
            continue
        if t.get("reject") == ("bool", True) and is_f(idx, "Message.index") and is_param_of_adt(t.fn, idx[1], "Message"):
            m = idx[1]
            n_rej += 1
            hint = t.get("reject_hint")
            lt = t.get("log_term")
            hb = match(("tfield", call("~RaftLog::find_conflict_by_term", ANY, V("hi"), V("ht")), 0), hint)
            ok = bool(hb) and hb["ht"] == ("field", m, "Message.log_term")
            if ok:
                mn = as_min(hb["hi"])
                ok = mn is not None and ("field", m, "Message.index") in mn and any(is_log_call(x, "last_index") for x in mn)
            cx.check(ok, key + ":hint", "rejection hint = find_conflict_by_term(min(m.index, last_index), m.log_term).0 (found %s)" % show(hint)[:120], t.site)
            from ..idioms import unwrapped
            inner = unwrapped(lt) if lt is not None else None
            lb = inner is not None and match(("tfield", call("~RaftLog::find_conflict_by_term", ANY, ANY, ANY), 1), inner)
            cx.check(bool(lb), key + ":hint_term", "rejection log_term = the term found by find_conflict_by_term (found %s)" % show(lt)[:120], t.site)
            cx.check(is_committed(t.get("commit")), key + ":commit", "append response commit = raft_log.committed", t.site)
    cx.check(n_acc >= 1, "floor:accept", "an accepting append response template exists")
    cx.check(n_rej >= 1, "floor:reject", "a rejecting append response template (index = m.index, reject = true) exists")
