"""SNAP (DESIGN §5.10) and XFER (§5.11)."""
from ..engine import obligation, require, require_all, fn_name, callers_of, call_args
from ..an import show, strip_generics, walk
from ..pat import ANY, V, match, call, fld, alt, contains
from ..pg import show_lit
from ..idioms import term_is, as_max, is_param_of_adt
from ..prog import Site
from .commit import write_value, _in_msg_arm
from .vote import is_f, TERM, STATE, reset_fns, msg_type_in
from .msg import tmpls, tkey, MT
from .flow import call_blocks, lit_state
from .prevote import _ret_blocks


def install_fn(cx):
    lr = cx.fn("RaftLog::restore")
    cs = callers_of(cx, lr)
    cx.need(len(cs) == 1, "single caller of RaftLog::restore (snapshot install function)")
    return cs[0]


def _follower_setters(cx):
    out = {}
    by_fn = {}
    for s in cx.prog.writes.get(STATE, []):
        if "stmt" in s.data:
            by_fn.setdefault(s.fn.key, []).append(s)
    for k, ws in by_fn.items():
        if all(write_value(cx, w) == ("enum", "raft::raft::StateRole", "Follower") for w in ws):
            out[k] = ws[0].fn
    return out


@obligation("SNAP.install_as_follower", ["C15", "C16"], floor=2, kind="typestate (caller context / dominating transition)",
            why="the install function bumps the term of a non-follower as defence in depth; reaching it as (pre)candidate raises a term nobody won and deposes a healthy leader")
def install_as_follower(cx):
    from ..engine import _clause_holds
    inst = install_fn(cx).fn
    setters = _follower_setters(cx)
    cx.check(bool(setters), "setters", "a function that establishes state == Follower exists")

    def follower(l):
        return l[0] == "in" and is_f(l[1], STATE) and l[2] == frozenset(["Follower"])
    def site_ok(c, depth):
        ok, _, _, _ = _clause_holds(cx, c, follower, True)
        if ok:
            return True, "dispatched under state == Follower"
        g = cx.pg(c.fn)
        setblocks = set()
        for sp, x in cx.prog.calls_out[c.fn.key]:
            if x.kind == "call" and any(k in setters for k in cx.prog.short.get(sp, [])):
                setblocks.add(x.block)
        if setblocks and g.dominated_by_block(c.at, lambda b: b in setblocks):
            clean = True
            for sp, x in cx.prog.calls_out[c.fn.key]:
                if x.kind != "call" or x.block in setblocks or x.block == c.block:
                    continue
                if STATE in cx.prog.modset_short(sp) and any(g.block_reaches(sb, lambda b, x=x: b == x.block) for sb in setblocks) and g.block_reaches(x.block, lambda b: b == c.block):
                    clean = False
            if clean:
                return True, "after a transition to Follower in the same arm"
        if c.fn.vis != "Public" and depth > 0:
            cs = callers_of(cx, c.fn)
            if cs and all(site_ok(cc, depth - 1)[0] for cc in cs):
                return True, "every caller of %s establishes state == Follower" % fn_name(c.fn)
        return False, "neither dispatched under state == Follower nor preceded by a transition to Follower"
    n = 0
    for c in callers_of(cx, inst):
        # the direct caller (the MsgSnapshot handler) and, through it, each dispatcher arm
        sites = [c]
        ok, how = site_ok(c, 0)
        if not ok and c.fn.vis != "Public":
            sites = callers_of(cx, c.fn)
        for sc in sites:
            ok, how = site_ok(sc, 2)
            cx.check(ok, cx.site_key(sc, "as-follower"), "the snapshot install is reached only as a follower (%s)" % how, sc)
            n += 1
    cx.check(n >= 2, "floor", "in-crate paths into the snapshot install were found")


@obligation("STEP.leader_msg_arms", ["C16", "C10", "C06"], floor=6, kind="arm shape (dominating writes / transition) with caller context",
            why="a follower that does not restart its election timer on leader traffic campaigns against a healthy leader; a candidate that handles leader traffic without stepping down first changes its log while still soliciting votes")
def leader_msg_arms(cx):
    from ..engine import _clause_holds
    setters = _follower_setters(cx)
    n = 0
    seen = set()
    kinds = set()
    shared_role = {}
    for T in ("MsgAppend", "MsgHeartbeat", "MsgSnapshot"):
        for c in cx.prog.all_calls:
            if c.fn.crate != "raft" or c.kind != "call" or c.data["callee"] not in cx.prog.short:
                continue
            callee = cx.prog.fn_by_short(c.data["callee"])
            if callee is None or callee.crate != "raft" or callee.impl_adt is None or "raft::Raft" not in callee.impl_adt:
                continue
            arm_types = {T}
            if not _in_msg_arm(cx, c, {T}, depth=0):
                # the three kinds of leader traffic may share one arm (the handler then tells them apart itself)
                LT_ = {"MsgAppend", "MsgHeartbeat", "MsgSnapshot"}
                if not _in_msg_arm(cx, c, LT_, depth=0):
                    continue
                allv_ = cx.facts.variants(MT)
                pv_ = cx.pg(c.fn).possible_values(c.at, lambda e: e[0] == "field" and e[2] == "Message.msg_type", allv_) if allv_ else set()
                if T not in pv_:
                    continue
                arm_types = set(pv_) & LT_
            args = call_args(cx, c)
            m = [a for a in args[1:] if a[0] == "param" and is_param_of_adt(c.fn, a, "Message")]
            if not m:
                # the handler is given parts of the message (`handle_snapshot(m.from, m.take_snapshot())`)
                m = [x for a in args[1:] for x in walk(a) if x[0] == "param" and is_param_of_adt(c.fn, x, "Message")][:1]
            if not m or callee.key in setters:
                continue
            m = m[0]
            if (c.fn.key, c.block) in seen:
                if len(arm_types) > 1 and (c.fn.key, c.block) in shared_role:
                    kinds.add((T, shared_role[(c.fn.key, c.block)]))
                continue
            seen.add((c.fn.key, c.block))
            g = cx.pg(c.fn)
            key = cx.site_key(c, T)

            def st_in(names):
                def acc(l):
                    return l[0] == "in" and is_f(l[1], STATE) and l[2] <= frozenset(names)
                return acc
            as_follower = _clause_holds(cx, c, st_in({"Follower"}), False)[0]
            as_cand = _clause_holds(cx, c, st_in({"Candidate", "PreCandidate"}), False)[0]
            if as_follower:
                ez = {w.block for w in cx.prog.writes.get("RaftCore.election_elapsed", []) if w.fn is c.fn and "stmt" in w.data and write_value(cx, w) == ("int", 0) and _in_msg_arm(cx, w, {"MsgAppend", "MsgHeartbeat", "MsgSnapshot"}, depth=0)}
                lz = {w.block for w in cx.prog.writes.get("RaftCore.leader_id", []) if w.fn is c.fn and "stmt" in w.data and write_value(cx, w) == ("field", m, "Message.from") and _in_msg_arm(cx, w, {"MsgAppend", "MsgHeartbeat", "MsgSnapshot"}, depth=0)}
                in_arm = [("in", ("field", m, "Message.msg_type"), frozenset([T]), MT)]
                ok1 = bool(ez) and (c.block in ez or g.dominated_by_block(c.at, lambda b: b in ez, assume=in_arm))
                ok2 = bool(lz) and (c.block in lz or g.dominated_by_block(c.at, lambda b: b in lz, assume=in_arm))
                cx.check(ok1, key + ":timer", "a follower restarts its election timer on every %s from the leader" % T, c)
                cx.check(ok2, key + ":leader", "a follower records the sender of a %s as its leader" % T, c)
                kinds.add((T, "follower"))
                shared_role[(c.fn.key, c.block)] = "follower"
                n += 1
            elif as_cand:
                setblocks = {}
                for sp, x in cx.prog.calls_out[c.fn.key]:
                    if x.kind == "call" and any(k in setters for k in cx.prog.short.get(sp, [])) and _in_msg_arm(cx, x, {"MsgAppend", "MsgHeartbeat", "MsgSnapshot"}, depth=0):
                        setblocks[x.block] = x
                ok = bool(setblocks) and g.dominated_by_block(c.at, lambda b: b in setblocks)
                cx.check(ok, key + ":stepdown", "a (pre)candidate becomes follower before it handles a %s of its own term" % T, c)
                for x in setblocks.values():
                    a = call_args(cx, x)
                    oka = len(a) >= 3 and a[1] == ("field", m, "Message.term") and a[2] == ("field", m, "Message.from")
                    cx.check(oka, cx.site_key(x, T + ":stepdown-args"), "it follows the sender at the message's term: become_follower(m.term, m.from) (found %s)" % [show(y) for y in a[1:]], x)
                kinds.add((T, "candidate"))
                shared_role[(c.fn.key, c.block)] = "candidate"
                n += 1
    # a follower arm whose handler was spliced in (no call that is handed the message is left): decided on the arm itself --
    # in the function that restarts the timer under leader traffic, every path that enters through an edge selecting T
    # passes both the timer reset and the leader assignment
    LT_ = {"MsgAppend", "MsgHeartbeat", "MsgSnapshot"}
    for T in ("MsgAppend", "MsgHeartbeat", "MsgSnapshot"):
        if (T, "follower") in kinds:
            continue
        for w in cx.prog.writes.get("RaftCore.election_elapsed", []):
            F = w.fn
            if "stmt" not in w.data or write_value(cx, w) != ("int", 0) or not _in_msg_arm(cx, w, LT_, depth=0):
                continue
            gF = cx.pg(F)
            ezF = {x.block for x in cx.prog.writes.get("RaftCore.election_elapsed", []) if x.fn is F and "stmt" in x.data and write_value(cx, x) == ("int", 0) and _in_msg_arm(cx, x, LT_, depth=0)}
            lzF = {x.block for x in cx.prog.writes.get("RaftCore.leader_id", []) if x.fn is F and "stmt" in x.data and is_f(write_value(cx, x), "Message.from") and _in_msg_arm(cx, x, LT_, depth=0)}
            def selects(l, T=T):
                return l[0] == "in" and l[1][0] == "field" and l[1][2] == "Message.msg_type" and T in l[2] and l[2] <= LT_
            ok1, n1 = gF.after_edge_must_pass(lambda lits: any(selects(l) for l in lits), lambda b: b in ezF, fresh_only=True)
            ok2, n2 = gF.after_edge_must_pass(lambda lits: any(selects(l) for l in lits), lambda b: b in lzF, fresh_only=True)
            if n1 >= 1 and bool(ezF) and bool(lzF):
                cx.check(ok1, "%s#%s:timer" % (fn_name(F), T), "a follower restarts its election timer on every %s from the leader" % T, w)
                cx.check(ok2, "%s#%s:leader" % (fn_name(F), T), "a follower records the sender of a %s as its leader" % T, w)
                kinds.add((T, "follower"))
                n += 1
                break
    for T in ("MsgAppend", "MsgHeartbeat", "MsgSnapshot"):
        for role in ("follower", "candidate"):
            cx.check((T, role) in kinds, "arm:%s:%s" % (role, T), "the %s handles %s in an arm of its own" % (role, T))
    cx.check(n >= 6, "floor", "follower and candidate arms for leader traffic were found")


@obligation("SNAP.install_guards", ["C15", "C20"], floor=4, kind="guard (CNF) + must-not-reach",
            why="a stale or foreign snapshot must not replace the log; an already-matching one must discard nothing")
def install_guards(cx):
    c = install_fn(cx)
    f = c.fn
    snap = call_args(cx, c)[1]
    meta_idx = None
    def not_behind(l):
        return l[0] == "is" and l[2] is False and l[1][0] == "bin" and l[1][1] == "Lt" and is_f(l[1][2], "SnapshotMetadata.index") and is_f(l[1][3], "RaftLog.committed")
    def follower(l):
        return l[0] == "in" and is_f(l[1], STATE) and l[2] == frozenset(["Follower"])
    def member(l):
        # !(conf state ids).all(|id| id != self.id)   or   ids.any(|id| id == self.id)
        from ..idioms import self_member_lit
        return self_member_lit(cx.prog, l) is not None
    def not_matching_or_requested(l):
        if l[0] == "notin" and is_f(l[1], "RaftCore.pending_request_snapshot") and 0 in l[2]:
            return True
        if l[0] == "is" and l[2] is False:
            r = term_is(cx.prog, ("is", l[1], True))
            return r is not None and is_f(r[1], "SnapshotMetadata.index") and is_f(r[2], "SnapshotMetadata.term")
        # the log has no term at all for the snapshot's index: it cannot match
        if l[0] == "in" and l[2] == frozenset(["Err"]):
            from ..idioms import TERM_CALL
            b = match(TERM_CALL, l[1])
            return bool(b) and is_f(b["idx"], "SnapshotMetadata.index")
        return False
    require_all(cx, c, cx.site_key(c, "install"), "a snapshot replaces the log only if it is not behind the commit index, the node is a follower and a member, and it is not an already-matching unrequested snapshot",
                [("!(snap.index < committed)", not_behind), ("state == Follower", follower), ("self.id listed in the snapshot's ConfState", member),
                 ("pending_request_snapshot != 0 || !match_term(snap.index, snap.term)", not_matching_or_requested)], kill=False)
    # the boolean result tells the caller which index to acknowledge: true exactly when the snapshot was installed
    rets = {}
    for bi, blk in enumerate(f.body.blocks):
        for si, st in enumerate(blk["stmts"]):
            if st.get("k") == "assign" and st["place"]["l"] == 0 and not st["place"]["p"]:
                cst = st["rv"].get("use", {}).get("const", {})
                rets[(bi, si)] = cst.get("val", {}).get("int") if cst.get("ty") == "bool" else "?"
    gi = cx.pg(f)
    inst_blk = c.block
    okr = bool(rets) and f.body.local_ty(0) == "bool"
    for (bi, si), val in rets.items():
        if bi not in cx.prog.A(f).reach:
            continue
        if val == 1:
            okr = okr and (gi.dominated_by_block((bi, si), lambda b: b == inst_blk))
        elif val == 0:
            okr = okr and not gi.block_reaches(inst_blk, lambda b, bi=bi: b == bi)
        else:
            okr = False
    cx.check(okr, "result", "the install function returns true exactly on the path that replaced the log (the caller acknowledges last_index only then, the commit index otherwise)")
    # member test covers voters, learners and voters_outgoing
    a = cx.prog.A(f)
    chain = None
    for l in cx.guard_lits(c):
        if member(l):
            it = l[1][2][0]
            chain = a.init_expr(it[1]) if it[0] == "local" else it
    if chain is None or not any(contains(fld("ConfState." + n_), chain) for n_ in ("voters", "learners", "voters_outgoing")):
        # the collections are tested one after the other (`a.contains(&id) || b.contains(&id) || ..`): every one of
        # those tests that leads to the install counts
        from ..idioms import self_member_lit
        g_ = cx.pg(f)
        parts = []
        for n_ in range(len(g_.nodes)):
            for _, ls_ in g_.edges[n_] or []:
                for l in ls_:
                    if l[0] == "is" and l[1][0] == "call" and l[1][1].endswith("::contains") and self_member_lit(cx.prog, l) is not None:
                        it = l[1][2][0]
                        parts.append(a.init_expr(it[1]) if it[0] == "local" and a.init_expr(it[1]) else it)
        if parts:
            chain = ("tuple", tuple(parts))
    for fld_name in ("voters", "learners", "voters_outgoing"):
        ok = chain is not None and (contains(fld("ConfState." + fld_name), chain) or any(x[0] == "call" and x[1].endswith("ConfState::get_" + fld_name) for x in walk(chain)))
        cx.check(ok, "member:" + fld_name, "the membership test looks at ConfState.%s (iterated: %s)" % (fld_name, show(chain)[:160] if chain else None))
    # on the matching path nothing is discarded
    g = cx.pg(f)
    lits = set()
    for n in range(len(g.nodes)):
        for _, ls in g.edges[n] or []:
            lits.update(ls)
    pend0 = [l for l in lits if l[0] == "in" and is_f(l[1], "RaftCore.pending_request_snapshot") and l[2] == frozenset([0])]
    mt = [l for l in lits if l[0] == "is" and l[2] is True and (lambda r: r is not None and is_f(r[1], "SnapshotMetadata.index"))(term_is(cx.prog, l))]
    cx.check(bool(pend0) and bool(mt), "matching:atoms", "the matching-snapshot test (no pending request and log.term(snap.index) == snap.term) exists")
    if pend0 and mt:
        blocks = g.reach([pend0[0], mt[0]], presuppose=True)   # one evaluation of term(snap.index): no loop in the install function re-reads it
        destructive = call_blocks(f, "RaftLog::restore") | call_blocks(f, "ProgressTracker::clear") | call_blocks(f, "confchange::restore::restore")
        cx.check(not (blocks & destructive), "matching:no-discard", "an already-matching unrequested snapshot reaches neither RaftLog::restore nor a reset of the progress tracker")
        cm = call_blocks(f, "RaftLog::commit_to")
        cx.check(bool(blocks & cm), "matching:commit", "an already-matching snapshot only advances the commit index")


@obligation("SNAP.log_reset", ["C14", "C15", "C07"], floor=4, kind="value shape",
            why="after an install the log must continue right after the snapshot index")
def log_reset(cx):
    lr = cx.fn("RaftLog::restore")
    ws = [s for s in cx.prog.writes.get("RaftLog.committed", []) if s.fn is lr and "stmt" in s.data]
    cx.check(len(ws) == 1 and is_f(write_value(cx, ws[0]), "SnapshotMetadata.index"), "committed", "RaftLog::restore: committed := snapshot.index")
    cx.check(bool(call_blocks(lr, "Unstable::restore")), "unstable", "RaftLog::restore resets the unstable part")
    ur = cx.fn("Unstable::restore")
    a = cx.prog.A(ur)
    ws = cx.prog.direct_writes(ur.key)
    d = {}
    for s, fk, pl in ws:
        if "stmt" in s.data:
            d[fk] = a.expr_rvalue(s.data["stmt"]["rv"], s.at)
    off = d.get("Unstable.offset")
    ok = off is not None and match(("bin", "Add", alt(fld("SnapshotMetadata.index"), ("int", 1)), alt(fld("SnapshotMetadata.index"), ("int", 1))), off) is not None
    cx.check(ok, "offset", "Unstable::restore: offset := snapshot.index + 1 (found %s)" % (show(off) if off else None))
    sn = d.get("Unstable.snapshot")
    ok = sn is not None and sn[0] == "adt" and sn[1].endswith("Option::Some") and sn[2][0][1][0] == "param"
    cx.check(ok, "snapshot", "Unstable::restore: snapshot := Some(the given snapshot)")
    cx.check(bool(call_blocks(ur, "Vec::clear")) and d.get("Unstable.entries_size") == ("int", 0), "entries", "Unstable::restore clears the unstable entries")


@obligation("SNAP.send_gate", ["C15"], floor=3, kind="guard + pairing",
            why="a snapshot is sent only when the needed entries are unavailable or it was asked for, and then replication pauses on it")
def send_gate(cx):
    ts = tmpls(cx, {"MsgSnapshot"})
    cx.check(bool(ts), "floor", "a MsgSnapshot template exists")
    psn = cx.fn("RaftCore::prepare_send_snapshot")
    g = cx.pg(psn)
    bs = [c for c in cx.prog.call_sites_of("Progress::become_snapshot") if c.fn is psn]
    cx.check(len(bs) == 1, "become_snapshot", "building a snapshot message moves the progress to Snapshot")
    for c in bs:
        def active(l):
            return l[0] == "is" and l[2] is True and is_f(l[1], "Progress.recent_active")
        require(cx, c, cx.site_key(c, "recent_active"), "a snapshot is built only for a recently active follower", active, kill=False)
        a = call_args(cx, c)
        cx.check(is_f(a[1], "SnapshotMetadata.index"), cx.site_key(c, "pending"), "become_snapshot(snapshot.index)", c)
    # true is returned only after become_snapshot
    rets = cx.pg(psn).returns(limit=20000)
    bsb = call_blocks(psn, "Progress::become_snapshot")
    ok = True
    for lits, v, b in rets:
        if v == ("bool", True):
            pass
    tr_ok, n_e = True, 0
    # every assignment `_0 = true` is dominated by become_snapshot
    a = cx.prog.A(psn)
    for d in a.defs[0]:
        if d[2] == "assign" and "use" in d[3] and "const" in d[3]["use"] and d[3]["use"]["const"].get("val", {}).get("int") == 1:
            n_e += 1
            tr_ok = tr_ok and g.dominated_by_block((d[0], d[1]), lambda b: b in bsb)
        # the same report made by handing the message out: `-> Option<Message>`, success = Some(m)
        if d[2] == "assign" and d[3].get("agg") == "adt" and d[3].get("adt") == "core::option::Option" and d[3].get("variant") == "Some":
            n_e += 1
            tr_ok = tr_ok and g.dominated_by_block((d[0], d[1]), lambda b: b in bsb)
    cx.check(tr_ok and n_e >= 1, "true-after-pause", "prepare_send_snapshot reports success only after the snapshot was attached and the progress paused")
    for c in callers_of(cx, psn):
        def wanted(l):
            return l[0] == "notin" and is_f(l[1], "Progress.pending_request_snapshot") and 0 in l[2]
        def unavailable(l):
            if l[0] != "in" or l[2] != frozenset(["Err"]) or l[1][0] != "call":
                return False
            e = l[1]
            if not (e[1].endswith("RaftLog::term") or e[1].endswith("RaftLog::entries")):
                e = cx.prog.inline_wrappers(e)   # the read may sit behind a private straight-line helper
            return e[0] == "call" and (e[1].endswith("RaftLog::term") or e[1].endswith("RaftLog::entries"))
        require(cx, c, cx.site_key(c, "why"), "a snapshot is sent only if the follower asked for one or the term/entries it needs are unavailable", lambda l: wanted(l) or unavailable(l), kill=False)
    # LogTemporarilyUnavailable must not fall through to a snapshot
    msa = [c.fn for c in callers_of(cx, psn)][0]
    gg = cx.pg(msa)
    okt = False
    for n in range(len(gg.nodes)):
        for m2, lits in gg.edges[n] or []:
            for l in lits:
                if l[0] == "in" and "LogTemporarilyUnavailable" in l[2]:
                    # from here no prepare_send_snapshot
                    seen, work = set(), [m2]
                    hit = False
                    while work:
                        x = work.pop()
                        if x in seen:
                            continue
                        seen.add(x)
                        if gg.nodes[x][0] in call_blocks(msa, "prepare_send_snapshot"):
                            hit = True
                        work.extend(y for y, _ in gg.edges[x] or [])
                    okt = not hit
    cx.check(okt, "temporarily-unavailable", "entries that are only temporarily unavailable (async fetch) do not trigger a snapshot")


@obligation("SNAP.resume_point", ["C15", "C10"], floor=1, kind="value shape",
            why="after a snapshot the leader must resume right after it, not re-send what the snapshot covered")
def resume_point(cx):
    bp = cx.fn("Progress::become_probe")
    ws = [s for s in cx.prog.writes.get("Progress.next_idx", []) if s.fn is bp and "stmt" in s.data]
    seen = False
    g = cx.pg(bp)
    a = cx.prog.A(bp)
    for s in ws:
        # the value written on the paths that come from the Snapshot state (the value may be chosen by a `match` on
        # the old state before the state is reset, and stored afterwards)
        try:
            rows = g.site_values(s.at, lambda env, s=s: a.expr_rvalue(s.data["stmt"]["rv"], s.at, 0, env))
        except OverflowError:
            rows = [(tuple(cx.guard_lits(s)), write_value(cx, s))]
        vals = []
        for lits, v in rows:
            if any(lit_state("Snapshot")(l) for l in lits) and v not in vals:
                vals.append(v)
        for v in vals:
            mx = as_max(v)
            ok = mx is not None and all(x[0] == "bin" and x[1] == "Add" and ("int", 1) in x[2:] for x in mx) and \
                {("matched" if contains(fld("Progress.matched"), x) else "pending" if (contains(fld("Progress.pending_snapshot"), x) or any(y[0] in ("local", "param") for y in walk(x))) else "?") for x in mx} == {"matched", "pending"}
            cx.check(ok, cx.site_key(s, "from-snapshot"), "leaving Snapshot: next_idx := max(matched + 1, pending_snapshot + 1) (found %s)" % show(v), s)
            seen = True
    cx.check(seen, "floor", "become_probe has a Snapshot branch")


@obligation("SNAP.response", ["C15"], floor=2, kind="message template + guard",
            why="the leader learns where to resume from the follower's acknowledgement")
def response(cx):
    c = install_fn(cx)
    inst = c.fn
    hs = [x.fn for x in callers_of(cx, inst)]
    n = 0
    done_fns = set()
    for t in tmpls(cx, {"MsgAppendResponse"}):
        if t.fn not in hs:
            continue
        idx = t.get("index")
        gl = cx.guard_lits(t.site)
        restored = [l for l in gl if l[0] == "is" and l[1][0] == "call" and strip_generics(inst.key) == l[1][1]]
        if not restored and idx is not None and (idx[0] == "phi" or t.fn.key not in done_fns):
            if t.fn.key in done_fns:
                continue
            done_fns.add(t.fn.key)
            # one reply for both outcomes, its index chosen beforehand: `let ack = if self.restore(..) { last_index() }
            # else { committed }; reply.index = ack;` -- read the stored value per path
            g = cx.pg(t.fn)
            a = cx.prog.A(t.fn)
            from ..engine import subst_phis
            sites_ = [(w, (lambda env, w=w: a.expr_rvalue(w.data["stmt"]["rv"], w.at, 0, env))) for w in cx.prog.writes.get("Message.index", []) if w.fn is t.fn and "stmt" in w.data]
            if not sites_ and idx[0] == "phi":
                # the index reaches the reply through a constructor argument: the value chosen on each path to the send
                sites_ = [(t.site, (lambda env, idx=idx: subst_phis(idx, env or {})))]
            for w, ev in sites_:
                try:
                    rows = g.site_values(w.at, ev)
                except OverflowError:
                    continue
                seen_rows = set()
                for lits, v in rows:
                    r = [l for l in lits if l[0] == "is" and l[1][0] == "call" and strip_generics(inst.key) == l[1][1]]
                    if not r or (r[-1][2], v) in seen_rows:
                        continue
                    seen_rows.add((r[-1][2], v))
                    n += 1
                    if r[-1][2] is True:
                        cx.check(v[0] == "call" and v[1].endswith("RaftLog::last_index"), cx.site_key(w, "installed"), "after an install the follower acknowledges last_index() (found %s)" % show(v)[:80], w)
                    else:
                        cx.check(is_f(v, "RaftLog.committed"), cx.site_key(w, "ignored"), "an ignored snapshot is answered with the commit index (found %s)" % show(v)[:80], w)
            continue
        if not restored:
            continue
        n += 1
        if restored[0][2] is True:
            ok = idx[0] == "call" and idx[1].endswith("RaftLog::last_index")
            cx.check(ok, tkey(cx, t, "installed"), "after an install the follower acknowledges last_index() (found %s)" % t.show_field("index"), t.site)
        else:
            cx.check(is_f(idx, "RaftLog.committed"), tkey(cx, t, "ignored"), "an ignored snapshot is answered with the commit index (found %s)" % t.show_field("index"), t.site)
    cx.check(n >= 2, "floor", "both outcomes of a snapshot install are acknowledged")


@obligation("SNAP.request_index", ["C15", "C03", "C05", "C01"], floor=3, kind="value shape + guard + argument pass-through",
            why="a requested snapshot is installed unconditionally and replaces the whole log: it must cover everything the follower has acknowledged, i.e. be asked for at last_index()")
def request_index(cx):
    PRS = "RaftCore.pending_request_snapshot"
    f = cx.fn("Raft::request_snapshot")
    ws = [s for s in cx.prog.writes.get(PRS, []) if s.fn is f and "stmt" in s.data]
    cx.check(len(ws) == 1, "request:site", "request_snapshot records the requested index at one site (found %d)" % len(ws))
    n = 0
    for s in ws:
        v = write_value(cx, s)
        key = cx.site_key(s, "request")
        cx.check(v[0] == "call" and v[1].endswith("RaftLog::last_index"), key + ":value", "the requested index is raft_log.last_index() (found %s)" % show(v)[:100], s, value=show(v))
        def own_term(l):
            if l[0] != "is" or l[2] is not True or l[1][0] != "bin" or l[1][1] != "Eq":
                return False
            xs = l[1][2:4]
            return any(is_f(x, TERM) for x in xs) and any(any(y[0] == "call" and y[1].endswith("RaftLog::term") and any(z[0] == "call" and z[1].endswith("RaftLog::last_index") for z in walk(y)) for y in walk(x)) for x in xs)
        def not_leader(l):
            return l[0] == "in" and is_f(l[1], STATE) and "Leader" not in l[2]
        def none_pending(l):
            return l[0] == "in" and is_f(l[1], PRS) and l[2] == frozenset([0])
        require_all(cx, s, key + ":guards", "a snapshot is requested only by a non-leader whose last entry is of the current term and that has no request outstanding",
                    [("state != Leader", not_leader), ("term(last_index) == self.term", own_term), ("no request pending", none_pending)], kill=False)
        n += 1
    # every other writer clears it, or restores a value saved in the same function (the follower transition)
    for s in cx.prog.writes.get(PRS, []):
        if s.fn is f or "stmt" not in s.data:
            continue
        v = write_value(cx, s)
        ok = v == ("int", 0) or is_f(v, PRS)
        cx.check(ok, cx.site_key(s, "write:" + PRS), "elsewhere pending_request_snapshot is only cleared or carried over (found %s)" % show(v)[:80], s)
        n += 1
    # on the leader the request travels message -> progress -> storage unchanged: what a progress records as requested
    # is the `request_snapshot` field of the follower's message (or nothing)
    PPR = "Progress.pending_request_snapshot"
    for s in cx.prog.writes.get(PPR, []):
        if "stmt" not in s.data or s.fn.impl_trait:
            continue
        v = write_value(cx, s)
        key = cx.site_key(s, "write:" + PPR)
        if v == ("int", 0) or s.fn.name == "new":
            continue
        ok = False
        if is_f(v, "Message.request_snapshot"):
            ok = True
        elif v[0] == "param":
            cs = callers_of(cx, s.fn)
            ok = bool(cs) and all(is_f(call_args(cx, c)[v[1] - 1], "Message.request_snapshot") for c in cs if c.fn.crate == "raft" and "test" not in c.fn.key.split("::")[-2:])
        cx.check(ok, key, "a progress records as requested exactly the request_snapshot index of the follower's message (found %s)" % show(v)[:80], s)
        n += 1
    # the leader hands the requested index on to the storage, which must not answer with an older snapshot
    for c in cx.prog.call_sites_of("RaftLog::snapshot"):
        a0 = call_args(cx, c)[1]
        cx.check(is_f(a0, "Progress.pending_request_snapshot"), cx.site_key(c, "storage-request"), "the snapshot is fetched for the follower's requested index (found %s)" % show(a0)[:80], c)
        n += 1
    cx.check(n >= 3, "floor", "request-snapshot sites were found")


def _not_in_voters(cx, l):
    """literal: !<voters>.contains(x)"""
    return l[0] == "is" and l[2] is False and l[1][0] == "call" and l[1][1].endswith("::contains") and any(is_f(x, "Configuration.voters") for x in walk(l[1]))


def _left_voters(cx, l):
    """literal: lead_transferee.is_some_and(|e| !conf.voters.contains(e))  or  !conf.voters.contains(<transferee>)"""
    from ..idioms import closure_returns
    LT = "RaftCore.lead_transferee"
    if _not_in_voters(cx, l) and any(is_f(x, LT) for x in walk(l[1])):
        return True
    if l[0] == "is" and l[2] is True and l[1][0] == "call" and l[1][1].endswith("is_some_and") and any(is_f(x, LT) for x in walk(l[1][2][0])):
        for a in l[1][2][1:]:
            if a[0] == "closure":
                rets = closure_returns(cx.prog, a[1])
                if rets and len(rets) == 1 and not rets[0][0]:
                    r = rets[0][1]
                    if r[0] == "un" and r[1] == "Not" and r[2][0] == "call" and r[2][1].endswith("::contains"):
                        args = r[2][2]
                        return any(is_f(x, "Configuration.voters") for x in walk(args[0])) and any(x[0] == "param" for x in walk(args[1]))
    return False


# ---------------------------------------------------------------------------------------------- XFER
@obligation("XFER.timeout_now_gate", ["C17"], floor=2, kind="guard with caller context",
            why="a target told to campaign before it holds the leader's entire log could lose committed entries or fail and wedge the transfer")
def timeout_now_gate(cx):
    ts = tmpls(cx, {"MsgTimeoutNow"})
    cx.check(bool(ts), "floor:template", "a MsgTimeoutNow template exists")
    n = 0
    for t in ts:
        to = t.get("to")
        sites = [(t.site, to)]
        if to[0] == "param":
            sites = [(c, call_args(cx, c)[to[1] - 1]) for c in callers_of(cx, t.fn)]
        for s, target in sites:
            n += 1
            def caught_up(l, target=target):
                if l[0] != "is" or l[2] is not True or l[1][0] != "bin" or l[1][1] != "Eq":
                    return False
                xs = l[1][2:4]
                li = [x for x in xs if x[0] == "call" and x[1].endswith("RaftLog::last_index")]
                mm = [x for x in xs if is_f(x, "Progress.matched")]
                if not li or not mm:
                    return False
                from .match import _receiver_id
                return _receiver_id(mm[0][1]) == target
            require(cx, s, cx.site_key(s, "timeout-now"), "MsgTimeoutNow goes to %s only if prs[%s].matched == raft_log.last_index()" % (show(target), show(target)), caught_up)
            # ... and only to the node the pending transfer names: the guard compares it with lead_transferee, or
            # lead_transferee was set to it on the way here, or it is read out of lead_transferee
            LT = "RaftCore.lead_transferee"
            def is_target(l, target=target):
                if l[0] != "is" or l[2] is not True or l[1][0] != "bin" or l[1][1] != "Eq":
                    return False
                xs = l[1][2:4]
                lt = [x for x in xs if is_f(x, LT) or (x[0] == "vfield" and is_f(x[1], LT))]
                other = [x for x in xs if x not in lt]
                if not lt or not other:
                    return False
                o = other[0]
                return o == target or (o[0] == "adt" and o[1].endswith("Option::Some") and o[2] and o[2][0][1] == target)
            okt = target[0] == "vfield" and is_f(target[1], LT)
            if not okt:
                from ..engine import _clause_holds
                okt = _clause_holds(cx, s, is_target, False)[0]
            if not okt:
                g_ = cx.pg(s.fn)
                sets_ = {w.block for w in cx.prog.writes.get(LT, []) if w.fn is s.fn and "stmt" in w.data and (lambda v: v[0] == "adt" and v[1].endswith("Option::Some") and v[2] and v[2][0][1] == target)(write_value(cx, w))}
                okt = bool(sets_) and (s.block in sets_ or g_.dominated_by_block(s.at, lambda b: b in sets_))
            cx.check(okt, cx.site_key(s, "timeout-now:target"), "MsgTimeoutNow goes only to the node the pending transfer names (lead_transferee)", s, target=show(target))
    cx.check(n >= 2, "floor", "both places that can complete a transfer (request arrival, later acknowledgement) were found")


@obligation("XFER.proposal_block", ["C17"], floor=1, kind="guard",
            why="proposals accepted during a transfer could be lost with the old leadership or keep the target from ever catching up")
def proposal_block(cx):
    n = 0
    for c in cx.prog.call_sites_of("Raft::append_entry"):
        if _in_msg_arm(cx, c, {"MsgPropose"}, depth=0):
            n += 1
            def no_transfer(l):
                return l[0] == "in" and is_f(l[1], "RaftCore.lead_transferee") and l[2] == frozenset(["None"])
            require(cx, c, cx.site_key(c, "propose"), "proposals are appended only while no leadership transfer is pending", no_transfer)
    cx.check(n >= 1, "floor", "the MsgPropose arm's append was found")


@obligation("XFER.writers", ["C17"], floor=4, kind="who-may-write + guard + pairing",
            why="a transfer to a learner/unknown node/self, or one that is never abandoned, wedges the leader (it refuses proposals)")
def writers(cx):
    LT = "RaftCore.lead_transferee"
    sets, clears = [], []
    for s in cx.prog.writes.get(LT, []):
        if "stmt" not in s.data:
            cx.bad(cx.site_key(s, "write"), "lead_transferee written by a call", s)
            continue
        v = write_value(cx, s)
        if v == ("enum", "core::option::Option", "None"):
            clears.append(s)
        elif v[0] == "adt" and v[1].endswith("Option::Some"):
            sets.append((s, v[2][0][1]))
        else:
            cx.bad(cx.site_key(s, "write"), "unrecognised write of lead_transferee: %s" % show(v), s)
    cx.check(len(sets) >= 1, "floor:set", "a transfer can be started")
    for s, x in sets:
        def known(l, x=x):
            return l[0] == "in" and l[2] == frozenset(["Some"]) and match(call(alt("~ProgressTracker::get", "~ProgressTracker::get_mut"), ANY, x), l[1]) is not None
        def not_learner(l, x=x):
            return l[0] == "is" and l[2] is False and l[1][0] == "call" and l[1][1].endswith("::contains") and contains(fld("Configuration.learners"), l[1]) and x in l[1][2]
        def not_self(l, x=x):
            return l[0] == "is" and l[2] is False and l[1][0] == "bin" and l[1][1] == "Eq" and x in l[1][2:4] and any(is_f(y, "RaftCore.id") for y in l[1][2:4])
        require_all(cx, s, cx.site_key(s, "set"), "a transfer starts only towards a tracked node that is not a learner and not the leader itself",
                    [("prs.get(x).is_some()", known), ("x is not a learner", not_learner), ("x != self.id", not_self)], kill=False)
        g = cx.pg(s.fn)
        rz = {w.block for w in cx.prog.writes.get("RaftCore.election_elapsed", []) if w.fn is s.fn and "stmt" in w.data and write_value(cx, w) == ("int", 0)}
        cx.check(bool(rz) and g.dominated_by_block(s.at, lambda b: b in rz) or any(w.block == s.block for w in cx.prog.writes.get("RaftCore.election_elapsed", []) if w.fn is s.fn),
                 cx.site_key(s, "timer"), "starting a transfer restarts the election timer (the transfer must finish within one election timeout)", s)
    abort_fns = {s.fn.key: s.fn for s in clears}
    cx.check(len(abort_fns) == 1, "abort:one", "lead_transferee is cleared in one function")
    for af in abort_fns.values():
        cs = callers_of(cx, af)
        resets = set(reset_fns(cx))
        kinds = set()
        for c in cs:
            if c.fn.key in resets:
                kinds.add("reset")
                continue
            gl = cx.guard_lits(c)
            if any(l[0] == "is" and l[2] is False and l[1][0] == "bin" and l[1][1] == "Lt" and is_f(l[1][2], "RaftCore.election_elapsed") and is_f(l[1][3], "RaftCore.election_timeout") for l in gl):
                kinds.add("timeout")
                # converse: at the election timeout a pending transfer is always dropped
                g = cx.pg(c.fn)
                et = lambda l: l[0] == "is" and l[2] is False and l[1][0] == "bin" and l[1][1] == "Lt" and is_f(l[1][2], "RaftCore.election_elapsed") and is_f(l[1][3], "RaftCore.election_timeout")
                some = [("in", l[1], frozenset(["Some"]), l[3]) for l in gl if l[0] == "in" and is_f(l[1], LT)][:1]
                lead = [l for l in gl if l[0] == "in" and is_f(l[1], STATE)][:1]
                ok, ne = g.after_edge_must_pass(lambda lits: any(et(l) for l in lits), lambda b, c=c: b == c.block, assume=some + lead)
                cx.check(ok and ne >= 1, cx.site_key(c, "abort:timeout"), "a transfer still pending when the election timeout elapses is abandoned", c)
                continue
            if any(l[0] == "is" and l[2] is True and l[1][0] == "call" and l[1][1].endswith("is_some_and") and contains(fld(LT), l[1]) for l in gl) or \
               (any(l[0] == "in" and is_f(l[1], LT) and l[2] == frozenset(["Some"]) for l in gl) and any(_not_in_voters(cx, l) for l in gl) and not any(s.fn is c.fn for s, _ in sets)):
                kinds.add("removed")
                # the test is membership in the VOTERS (either half of a joint config), not mere presence in the tracker:
                # a target demoted to learner keeps its progress but must no longer be handed the leadership
                okp = any(_left_voters(cx, l) for l in gl)
                cx.check(okp, cx.site_key(c, "abort:left-voters"), "the transfer is abandoned when the target is no longer in conf().voters (found %s)" % "; ".join(show_lit(l)[:140] for l in gl if "lead_transferee" in show_lit(l))[:300], c)
                g = cx.pg(c.fn)
                ok, ne = g.after_edge_must_pass(lambda lits: any(_left_voters(cx, l) for l in lits), lambda b, c=c: b == c.block)
                cx.check(ok and ne >= 1, cx.site_key(c, "abort:left-voters:converse"), "whenever the target has left the voters the transfer is abandoned", c)
                # ... and the test itself is not skippable: once the function has established that this node is the
                # leader of a configuration with voters, every way out passes the test (an early return out of an
                # unrelated block -- pending reads without a quorum yet -- must not bypass it)
                test_blocks = {g.nodes[n_][0] for n_ in range(len(g.nodes)) for _, ls in g.edges[n_] or [] if any(_left_voters(cx, l) or (l[0] == "in" and is_f(l[1], LT)) for l in ls)}
                lead_l = [l for n_ in range(len(g.nodes)) for _, ls in g.edges[n_] or [] for l in ls if l[0] == "in" and is_f(l[1], STATE) and l[2] == frozenset(["Leader"])]
                nonempty = [l for n_ in range(len(g.nodes)) for _, ls in g.edges[n_] or [] for l in ls if l[0] == "is" and l[2] is False and l[1][0] == "call" and l[1][1].endswith("is_empty") and "voters" in show(l[1])]
                voter = [l for n_ in range(len(g.nodes)) for _, ls in g.edges[n_] or [] for l in ls if l[0] == "is" and l[2] is True and l[1][0] == "call" and l[1][1].endswith("::contains") and any(is_f(x, "Configuration.voters") for x in walk(l[1])) and any(is_f(x, "RaftCore.id") for x in walk(l[1]))]
                rbs = [bi for bi in sorted(cx.prog.A(c.fn).reach) if c.fn.body.blocks[bi]["term"]["k"] == "return"]
                okr = bool(lead_l) and bool(test_blocks) and all(g.dominated_by_block((rb, "term"), lambda b: b in test_blocks, assume=lead_l[:1] + nonempty[:1] + voter[:1]) for rb in rbs)
                nr = len(rbs)
                cx.check(okr and nr >= 1, cx.site_key(c, "abort:left-voters:reached"), "as leader the function always gets to the transfer-target test (no early return bypasses it)", c)
                continue
            if any(l[0] == "in" and is_f(l[1], LT) and l[2] == frozenset(["Some"]) for l in gl) and any(s.fn is c.fn for s, _ in sets):
                kinds.add("retarget")
                # only a request that could itself start a transfer (a tracked non-learner, or the leader itself) may
                # cancel the pending one: a request naming a learner or an unknown node is ignored entirely
                for s_, x in sets:
                    if s_.fn is not c.fn:
                        continue
                    def known(l, x=x):
                        return l[0] == "in" and l[2] == frozenset(["Some"]) and match(call(alt("~ProgressTracker::get", "~ProgressTracker::get_mut"), ANY, x), l[1]) is not None
                    def not_learner(l, x=x):
                        return l[0] == "is" and l[2] is False and l[1][0] == "call" and l[1][1].endswith("::contains") and contains(fld("Configuration.learners"), l[1]) and x in l[1][2]
                    require_all(cx, c, cx.site_key(c, "abort:retarget"), "a pending transfer is cancelled by a new request only if that request names a tracked node that is not a learner",
                                [("prs.get(x).is_some()", known), ("x is not a learner", not_learner)], kill=False)
                    break
                continue
            cx.bad(cx.site_key(c, "abort"), "unrecognised abort of a leadership transfer", c)
        for k in ("reset", "timeout", "removed"):
            cx.check(k in kinds, "abort:" + k, "a pending transfer is abandoned on %s" % {"reset": "every role/term reset", "timeout": "the election timeout", "removed": "removal of the target from the voters"}[k])


@obligation("SNAP.tracker_clear", ["C15", "C20", "C09", "C12"], floor=2, kind="exhaustiveness over ADT fields",
            why="a snapshot install rebuilds the configuration from scratch; a field surviving the clear makes the rebuild fail its invariant check (fatal) or yields a configuration that is not the snapshot's")
def tracker_clear(cx):
    cf = cx.fn("tracker::Configuration::clear")
    ad = cx.facts.adt("raft::tracker::Configuration")
    cx.need(ad, "struct tracker::Configuration")
    fields = [f["name"] for f in ad["variants"][0]["fields"]]
    a = cx.prog.A(cf)
    touched = set()
    for s, fk, pl in cx.prog.direct_writes(cf.key):
        if fk == "Configuration.*":
            touched |= set(fields)
        elif fk.startswith("Configuration."):
            touched.add(fk.split(".")[1])
    for sp, s in cx.prog.calls_out[cf.key]:
        if s.kind == "call" and sp.rsplit("::", 1)[-1] in ("clear", "drain", "take"):
            a0 = call_args(cx, s)[0]
            for f in fields:
                if is_f(a0, "Configuration." + f) or contains(fld("Configuration." + f), a0):
                    touched.add(f)
    missing = [f for f in fields if f not in touched]
    cx.check(not missing, "Configuration::clear", "Configuration::clear resets every field of the configuration (not reset: %s)" % missing)
    # written values for scalar fields are the defaults
    for s, fk, pl in cx.prog.direct_writes(cf.key):
        if fk == "Configuration.auto_leave" and "stmt" in s.data:
            v = a.expr_rvalue(s.data["stmt"]["rv"], s.at)
            cx.check(v == ("bool", False), "Configuration::clear:auto_leave", "auto_leave is reset to false", s)
    # ... and one level down: the voters are a joint configuration of two halves, both are emptied
    jc = cx.prog.one("quorum::joint::Configuration::clear")
    jad = cx.facts.adt("raft::quorum::joint::Configuration")
    if jc is not None and jad:
        jfields = [f["name"] for f in jad["variants"][0]["fields"]]
        jt = set()
        for s_, fk, pl in cx.prog.direct_writes(jc.key):
            if fk == "Configuration.*":
                jt |= set(jfields)
            elif fk.startswith("Configuration."):
                jt.add(fk.split(".")[1])
        for sp, s_ in cx.prog.calls_out[jc.key]:
            if s_.kind == "call" and sp.rsplit("::", 1)[-1] in ("clear", "drain", "take"):
                a0 = call_args(cx, s_)[0]
                for f_ in jfields:
                    if contains(fld("Configuration." + f_), a0):
                        jt.add(f_)
        jm = [f_ for f_ in jfields if f_ not in jt]
        cx.check(not jm, "JointConfig::clear", "the joint voter configuration's clear empties both halves (not emptied: %s)" % jm)
    pc = cx.fn("ProgressTracker::clear")
    cleared = set()
    for sp, s in cx.prog.calls_out[pc.key]:
        if s.kind == "call" and sp.rsplit("::", 1)[-1] == "clear":
            a0 = call_args(cx, s)[0]
            for f in ("progress", "conf", "votes"):
                if is_f(a0, "ProgressTracker." + f):
                    cleared.add(f)
    cx.check(cleared == {"progress", "conf", "votes"}, "ProgressTracker::clear", "ProgressTracker::clear empties the progress map, the configuration and the votes (cleared: %s)" % sorted(cleared))
    c = install_fn(cx)
    g = cx.pg(c.fn)
    clr = call_blocks(c.fn, "ProgressTracker::clear")
    rst = [s for sp, s in cx.prog.calls_out[c.fn.key] if s.kind == "call" and sp.endswith("confchange::restore::restore")]
    ok = bool(clr) and bool(rst) and all(g.dominated_by_block(s.at, lambda b: b in clr) for s in rst)
    cx.check(ok, "install:clear-before-restore", "the snapshot install clears the tracker before rebuilding the configuration from the snapshot")
    # ... and the rebuild is not optional: once the log was reset to the snapshot, every way out of the install function
    # passes the configuration rebuild (membership entries covered by the snapshot are never handed out for apply, so a
    # skipped rebuild leaves the old configuration in force for good)
    rb = {s.block for s in rst}
    if rst and not g.truncated:
        seen, work, leak = set(), [n_ for n_ in range(len(g.nodes)) if g.nodes[n_][0] == c.block], None
        while work:
            n_ = work.pop()
            if n_ in seen:
                continue
            seen.add(n_)
            bi = g.nodes[n_][0]
            if bi in rb and bi != c.block:
                continue
            if c.fn.body.blocks[bi]["term"]["k"] == "return":
                leak = bi
                break
            work.extend(m for m, _ in g.edges[n_] or [])
        cx.check(leak is None, "install:rebuild-always", "after RaftLog::restore every path to the end of the install function rebuilds the tracker from the snapshot's configuration", c)
