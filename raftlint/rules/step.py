"""STEP / PANIC (DESIGN §5.12)."""
from ..engine import obligation, require, require_all, fn_name, callers_of, call_args
from ..an import show, strip_generics, walk
from ..pat import ANY, V, match, call, fld, alt, contains
from ..pg import show_lit
from ..idioms import is_param_of_adt
from ..templates import send_templates, object_states, Template
from ..prog import Site
from .vote import is_f, STATE, msg_type_in
from .msg import MT, tmpls
from .commit import _in_msg_arm


def true_set(cx, fn):
    """variants for which a fn(MessageType) -> bool returns true"""
    rets = cx.pg(fn).returns()
    tr, fl = set(), set()
    for lits, v, _ in rets:
        vs = set()
        for l in lits:
            if l[0] == "in" and l[1][0] == "param":
                vs = set(l[2]) if not vs else vs & set(l[2])
        if v == ("bool", True):
            tr |= vs
        elif v == ("bool", False):
            fl |= vs
        else:
            return None, None
    return tr, fl


@obligation("STEP.filter", ["C20", "C10"], floor=2, kind="guard (CNF) + effect exclusion",
            why="local-only message types and responses from non-members offered to step must be rejected with an error and change no state")
def step_filter(cx):
    rs = cx.fn("RawNode::step")
    inner = [c for c in cx.prog.call_sites_of("Raft::step") if c.fn is rs]
    cx.check(len(inner) == 1, "single-forward", "RawNode::step forwards to Raft::step at exactly one site")
    m = None
    for i in range(1, rs.body.arg_count + 1):
        if (rs.body.local_adt(i) or "").endswith("eraftpb::Message"):
            m = ("param", i, rs.body.local_name(i))
    cx.need(m is not None, "Message parameter of RawNode::step")
    mt = ("field", m, "Message.msg_type")
    for c in inner:
        def not_local(l):
            return l[0] == "is" and l[2] is False and match(call("~is_local_msg", mt), l[1]) is not None
        def known_or_request(l):
            if l[0] == "in" and l[2] == frozenset(["Some"]) and match(call("~ProgressTracker::get", ANY, ("field", m, "Message.from")), l[1]):
                return True
            if l[0] == "is" and l[2] is False and match(call(cx.sfx("raw_node::is_response_msg"), mt), l[1]):
                return True
            return False
        require_all(cx, c, cx.site_key(c, "forward"), "Raft::step is reached only if !is_local_msg(type) and (sender is tracked or !is_response_msg(type))",
                    [("!is_local_msg(m.msg_type)", not_local), ("prs.get(m.from).is_some() || !is_response_msg(m.msg_type)", known_or_request)], kill=False)
    # the rejecting paths touch nothing: the only state-changing callee of RawNode::step is that forward
    muts = []
    for sp, s in cx.prog.calls_out[rs.key]:
        if s.kind == "call" and sp in cx.prog.short and cx.prog.modset_short(sp) and not sp.endswith("Raft::step"):
            muts.append(sp)
    direct = [fk for (r, fk) in cx.prog.eff[rs.key] if r == 1] if not inner else None
    cx.check(not muts, "reject-no-effect", "apart from the forward, RawNode::step calls nothing that can write node state (found %s)" % muts)
    # Err results on the rejecting paths
    rets = cx.pg(rs).returns()
    errs = [v for lits, v, _ in rets if v[0] == "adt" and v[1].endswith("Result::Err")]
    cx.check(len(errs) >= 2, "reject-err", "rejected messages are answered with an Err (StepLocalMsg / StepPeerNotFound)")


def self_step_templates(cx):
    """Messages the crate builds itself and feeds to Raft::step (self-addressed)."""
    out = []
    for s in cx.prog.call_sites_of("Raft::step"):
        if s.fn.crate != "raft":
            continue
        args = call_args(cx, s)
        obj = args[1]
        if obj[0] == "param":
            continue  # forwarding of a received message (RawNode::step)
        sts, via = object_states(cx.prog, s.fn, obj, s.at)
        for st in sts or []:
            out.append(Template(s.fn, s, obj, st, via))
    return out


def forwarded_types(cx):
    """Types of received messages a node re-sends unchanged (follower forwarding to the leader)."""
    out = set()
    for t in send_templates(cx.prog):
        if t.obj[0] == "param" and t.types() is None:
            gl = cx.guard_lits(t.site)
            hit = False
            for l in gl:
                if l[0] == "in" and is_f(l[1], "Message.msg_type") and l[1][1] == t.obj:
                    out |= set(l[2])
                    hit = True
            if not hit:
                # no single test dominates the send (the types were classified one by one into a shared arm): the
                # types that can reach it along some path
                allv = cx.facts.variants(MT)
                if allv:
                    pv = cx.pg(t.fn).possible_values(t.site.at, lambda e, o=t.obj: is_f(e, "Message.msg_type") and e[1] == o, allv)
                    if pv and len(pv) < len(allv):
                        out |= set(pv)
    return out


def dispatcher_arms(cx):
    """variant -> handled somewhere in Raft::step or a function it dispatches the message to"""
    step = cx.fn("Raft::step")
    fns = [step]
    for sp, s in cx.prog.calls_out[step.key]:
        if s.kind == "call" and sp in cx.prog.short:
            f = cx.facts.fns[cx.prog.short[sp][0]]
            args = call_args(cx, s)
            if any(a[0] == "param" and (step.body.local_adt(a[1]) or "").endswith("eraftpb::Message") for a in args):
                fns.append(f)
    allv = set(cx.facts.variants(MT))
    handled = {}
    for f in fns:
        g = cx.pg(f)
        for n in range(len(g.nodes)):
            for _, lits in g.edges[n] or []:
                for l in lits:
                    if l[0] == "in" and is_f(l[1], "Message.msg_type") and len(l[2]) <= 4:
                        for v in l[2]:
                            handled.setdefault(v, set()).add(fn_name(f))
    return handled, allv


@obligation("STEP.type_partition", ["C20", "C15", "C10"], floor=19, kind="exhaustiveness over MessageType",
            why="a message type that is neither local-only nor handled is silently accepted from the network; a local type accepted from the network lets any peer drive timers and failure reports")
def type_partition(cx):
    il = cx.fn("raw_node::is_local_msg")
    tr, fl = true_set(cx, il)
    cx.need(tr is not None, "is_local_msg(MessageType) -> bool with constant results")
    allv = set(cx.facts.variants(MT))
    cx.check(tr | fl == allv and not (tr & fl), "total", "is_local_msg decides every MessageType variant")
    selfs = self_step_templates(cx)
    built = set()
    for t in selfs:
        ty = t.types()
        cx.check(ty is not None, cx.site_key(t.site, "self-step"), "a self-addressed message has a known type", t.site)
        built |= ty or set()
    fwd = forwarded_types(cx)
    local_only = built - fwd
    cx.check(tr == local_only, "local-set", "is_local_msg is true exactly for the types the library only ever builds for itself and never forwards (is_local: %s; self-built: %s; forwarded: %s)" % (sorted(tr), sorted(built), sorted(fwd)))
    # no local type is ever sent to another node
    for t in send_templates(cx.prog):
        ty = t.types()
        if ty is None:
            continue
        # MsgHup is the protobuf default: a template whose type is unset would show up here too
        bad = ty & tr
        cx.check(not bad, cx.site_key(t.site, "send-local"), "no local-only type leaves through send() (template types %s)" % sorted(ty), t.site)
    handled, _ = dispatcher_arms(cx)
    for v in sorted(allv):
        cx.check(v in handled, "arm:" + v, "%s has a handler arm (in %s)" % (v, sorted(handled.get(v, []))))
    # the response filter: every reply type (and nothing a node must accept from a peer it does not know yet)
    ir = cx.fn("raw_node::is_response_msg")
    rt, rf = true_set(cx, ir)
    cx.need(rt is not None, "is_response_msg(MessageType) -> bool with constant results")
    replies = {v for v in allv if v.endswith("Response")}
    cx.check(rt | rf == allv and replies <= rt and rt - replies <= tr, "response-set", "is_response_msg is true for every *Response type (a reply from a non-member must be rejected) and otherwise only for local-only types (is_response: %s)" % sorted(rt))


def membership_changers(cx):
    """functions that may add/remove entries of ProgressTracker.progress (transitively)"""
    direct = set()
    for c in cx.prog.all_calls:
        sp = c.data["callee"]
        if sp.rsplit("::", 1)[-1] in ("remove", "insert", "clear", "retain", "drain") and ("HashMap" in sp or "hash" in sp):
            args = call_args(cx, c)
            if args and contains(fld("ProgressTracker.progress"), args[0]):
                direct.add(strip_generics(c.fn.key))
    out = set(direct)
    changed = True
    while changed:
        changed = False
        for k in cx.facts.fns:
            sk = strip_generics(k)
            if sk in out:
                continue
            if cx.prog.callees(k) & out:
                out.add(sk)
                changed = True
    return out


def lookup_id(e):
    b = match(call(alt("~ProgressTracker::get_mut", "~ProgressTracker::get"), ANY, V("id")), e)
    return b["id"] if b else None


def _has_lookup_evidence(cx, site, x, changers, depth=2):
    """A successful lookup of `x` dominates the site and no membership change lies in between."""
    fn = site.fn
    g = cx.pg(fn)

    def found(l):
        if l[0] == "in" and l[2] == frozenset(["Some"]) and lookup_id(l[1]) == x:
            return True
        if l[0] == "is" and l[2] is True and l[1][0] == "call" and l[1][1].endswith("::contains_key") and contains(fld("ProgressTracker.progress"), l[1]) and x in l[1][2]:
            return True
        return False

    def kb(bi, upto):
        if upto is not None:
            return False
        t = fn.body.blocks[bi]["term"]
        if t["k"] == "call" and "const" in t["func"] and "fn" in t["func"]["const"]:
            return strip_generics(t["func"]["const"]["fn"]["path"]) in changers
        return False
    ok, _ = g.guarded(site.at, lambda lits: any(found(l) for l in lits), kb)
    if ok:
        return True, "dominating successful lookup"
    has_param = any(y[0] == "param" and isinstance(y[1], int) for y in walk(x))
    if has_param and depth > 0 and not fn.is_closure:
        # the id is (a field of) a parameter: the lookup may have been done by the caller (a dispatcher that drops
        # messages of untracked senders before handing them to the handlers) -- provided nothing between the entry of
        # this function and the unwrap changes the membership
        if not g.guarded(site.at, lambda lits: False, kb, start_held=True)[0]:
            return False, None
        cs = [c for c in callers_of(cx, fn) if c.fn.crate == "raft"]
        if cs:
            from ..pat import subst_params
            res = []
            for c in cs:
                args = call_args(cx, c)
                ax = subst_params(x, list(args))
                r, why = _has_lookup_evidence(cx, c, ax, changers, depth - 1)
                res.append(r)
            if all(res):
                return True, "every in-crate caller has looked the id up (%d callers)" % len(cs)
    return False, None


@obligation("PANIC.lookup_unwrap", ["C20"], floor=4, kind="dominating-lookup evidence for unwraps",
            why="an unwrapped progress lookup of an id that may have left the configuration panics under contract-abiding use")
def lookup_unwrap(cx):
    changers = membership_changers(cx)
    cx.need(changers, "functions that change ProgressTracker.progress membership")
    n = 0
    for c in cx.prog.all_calls:
        sp = c.data["callee"]
        if sp not in ("core::option::Option::unwrap", "core::option::Option::expect"):
            continue
        if c.fn.crate != "raft":
            continue
        args = call_args(cx, c)
        x = lookup_id(args[0])
        if x is None:
            continue
        n += 1
        key = cx.site_key(c, "unwrap:prs[%s]" % show(x))
        ok, why = _has_lookup_evidence(cx, c, x, changers)
        if ok:
            cx.ok(key, "membership evidence: " + why, c, id=show(x))
            continue
        if is_f(x, "RaftCore.id"):
            ok, why = _self_evidence(cx, c)
            if ok:
                cx.ok(key, "membership evidence for the node's own id: " + why, c, id=show(x))
                continue
        cx.bad(key, "prs lookup of %s is unwrapped without evidence that the id is (still) tracked: no dominating successful lookup, no caller evidence, no member check" % show(x), c, id=show(x),
               dominating_guards=[show_lit(l) for l in cx.guard_lits(c)][:8])
    cx.check(n >= 4, "floor", "progress lookups that are unwrapped were found (%d)" % n)


def _self_evidence(cx, site):
    """Evidence that the node tracks itself: (a) snapshot-install path: the snapshot's ConfState lists
    self.id and the tracker was just rebuilt from it; (b) leader transition: every way into an election
    is gated by `promotable` (written only as voters.contains(self.id))."""
    fn = site.fn
    g = cx.pg(fn)
    # (a)
    def member(l):
        from ..idioms import self_member_lit
        return self_member_lit(cx.prog, l) is not None
    def restored(bi):
        t = fn.body.blocks[bi]["term"]
        return t["k"] == "call" and "const" in t["func"] and "fn" in t["func"]["const"] and strip_generics(t["func"]["const"]["fn"]["path"]).endswith("confchange::restore::restore")
    if g.guarded(site.at, lambda lits: any(member(l) for l in lits))[0] and g.dominated_by_block(site.at, restored):
        return True, "snapshot lists the node and the tracker was rebuilt from it"
    # (b)
    leader_w = [s for s in cx.prog.writes.get(STATE, []) if s.fn is fn]
    if leader_w:
        from .prevote import bump_fns
        ok = True
        entries = []
        for f in list(bump_fns(cx).values()):
            for c in callers_of(cx, f):          # campaign
                for cc in callers_of(cx, c.fn):  # hup / poll
                    entries.append(cc)
        for cc in entries:
            def promo(l):
                return l[0] == "is" and l[2] is True and is_f(l[1], "RaftCore.promotable")
            def precand(l):
                return l[0] == "in" and is_f(l[1], STATE) and l[2] == frozenset(["PreCandidate"])
            gg = cx.pg(cc.fn)
            if not (gg.guarded(cc.at, lambda lits: any(promo(l) for l in lits))[0] or gg.guarded(cc.at, lambda lits: any(precand(l) for l in lits))[0]):
                ok = False
        if ok and entries:
            return True, "every election entry (%d campaign call sites) is gated by `promotable` or continues a won pre-vote" % len(entries)
    return False, None


@obligation("PANIC.scan_bounds", ["C20", "C09"], floor=2, kind="argument shape",
            why="scanning the unapplied tail from an index the log no longer holds (below a pending snapshot) is a fatal! in a contract-abiding run")
def scan_bounds(cx):
    from ..engine import call_args
    from .vote import is_f
    tgt = cx.sfx("Raft::has_unapplied_conf_changes")
    n = 0
    for c in cx.prog.call_sites_of(tgt):
        from ..engine import spread_ranges
        args = spread_ranges(call_args(cx, c))
        lo, hi = args[1], args[2]
        key = cx.site_key(c, "scan")
        ok_hi = hi[0] == "bin" and hi[1] == "Add" and any(is_f(x, "RaftLog.committed") for x in hi[2:4]) and ("int", 1) in hi[2:4]
        cx.check(ok_hi, key + ":hi", "the scan ends at committed + 1 (found %s)" % show(hi)[:100], c)
        uses_applied = any(is_f(x, "RaftLog.applied") for x in walk(lo))
        uses_commit = any(is_f(x, "RaftLog.committed") for x in walk(lo))
        if uses_applied:
            # `applied` lags behind a received-but-unprocessed snapshot: entries in (applied, snapshot.index] do not exist
            from ..idioms import alternatives
            alts = alternatives(lo) if lo[0] != "call" or lo[1].endswith("Option::unwrap_or") else ()
            snap_alt = [a for a in alts if any(x[0] == "call" and (x[1].endswith("Unstable::maybe_first_index") or x[1].endswith("RaftLog::first_index")) for x in walk(a))]
            app_alt = [a for a in alts if a[0] == "bin" and a[1] == "Add" and any(is_f(x, "RaftLog.applied") for x in a[2:4]) and ("int", 1) in a[2:4]]
            viamax = lo[0] == "call" and lo[1].endswith("::max") and any(x[0] == "call" and x[1].endswith("first_index") for x in walk(lo))
            cx.check((len(snap_alt) == 1 and len(app_alt) == 1 and len(alts) == 2) or viamax, key + ":lo",
                     "a scan that starts at applied + 1 starts at the pending snapshot's first index instead when one is pending (found %s)" % show(lo)[:200], c)
        else:
            plus1 = lo[0] == "bin" and lo[1] == "Add" and ("int", 1) in lo[2:4] and any(is_f(x, "RaftLog.committed") for x in lo[2:4])
            cx.check(uses_commit and plus1, key + ":lo", "the scan starts at applied + 1 or right AFTER the old commit index, at committed + 1: the entry at the old commit index itself may already be compacted away (found %s)" % show(lo)[:120], c)
        n += 1
    cx.check(n >= 2, "floor", "scan call sites were found")


@obligation("PANIC.array_index", ["C20"], floor=2, kind="bounded-index idioms on fixed-size arrays",
            why="an index into a fixed-size stack array that can reach the array length is a panic for large voter sets, reachable by ordinary use")
def array_index(cx):
    import re
    n = 0
    for k, f in cx.facts.fns.items():
        if f.crate != "raft":
            continue
        a = cx.prog.an[k]
        g = None
        for bi in sorted(a.reach):
            t = f.body.blocks[bi]["term"]
            if t["k"] != "assert" or "BoundsCheck" not in str(t.get("msg")):
                continue
            tb = f.body.blocks[t["target"]]
            arr = None
            for st in tb["stmts"][:3]:
                for pl in [st.get("place"), st.get("rv", {}).get("use", {}).get("copy"), st.get("rv", {}).get("use", {}).get("move")]:
                    if pl and any(isinstance(p_, dict) and "index" in p_ for p_ in pl.get("p", [])):
                        ty = f.body.local_ty(pl["l"]) or ""
                        m = re.match(r"^\[.*; (\d+)\]$", ty)
                        if m:
                            arr = (pl["l"], int(m.group(1)))
            if arr is None:
                continue
            N = arr[1]
            # the compared index: `_c = Lt(idx, const N)` in the assert's block
            idx_local = None
            for st in f.body.blocks[bi]["stmts"]:
                rv = st.get("rv", {})
                if rv.get("bin") == "Lt" and rv["b"].get("const", {}).get("val", {}).get("int") == N:
                    pl = rv["a"].get("copy") or rv["a"].get("move")
                    if pl and not pl["p"]:
                        idx_local = pl["l"]
            site = Site(f, bi, "term", "index")
            key = cx.site_key(site, "index[%d]" % N)
            if idx_local is None:
                cx.bad(key, "index into a [_; %d] array whose bound test could not be located" % N, site)
                continue
            g = g or cx.pg(f)
            e = a.expr_local(idx_local, (bi, "term"))
            gl = cx.guard_lits(site)
            ok, how = False, ""
            if e[0] == "int":
                ok, how = e[1] < N, "constant index"
            # (a) enumeration counter of a collection whose length was tested against N
            if not ok and e[0] == "tfield" and e[2] == 0 and any(x[0] == "call" and "Enumerate" in x[1] for x in walk(e)):
                ok = any(l[0] == "is" and l[2] is False and l[1][0] == "bin" and l[1][1] == "Lt" and l[1][2] == ("int", N) and l[1][3][0] == "call" and l[1][3][1].endswith("::len") for l in gl)
                how = "enumeration counter of a collection with len() <= %d" % N
            # (a2) a remainder by the array's own length (or by a constant <= N, N > 0): `arr[n % arr.len()]`
            if not ok and e[0] == "bin" and e[1] == "Rem":
                d_ = e[3]
                by_len = d_[0] == "call" and d_[1].endswith("::len") and len(d_[2]) == 1 and any(x[0] in ("local", "phi") and x[1] == arr[0] for x in walk(d_[2][0]))
                if (d_[0] == "int" and 0 < d_[1] <= N) or by_len:
                    ok, how = True, "remainder by the array length"
            # (b) bounded counter: only ever 0 or itself + 1, incremented after the store, and tested against N (reset or
            #     excluded) before the store
            if not ok:
                src = idx_local
                for _ in range(3):
                    ds = a.defs[src]
                    if len(ds) == 1 and ds[0][2] == "assign" and "use" in ds[0][3]:
                        pl = ds[0][3]["use"].get("copy") or ds[0][3]["use"].get("move")
                        if pl and not pl["p"]:
                            src = pl["l"]
                            continue
                    break
                ds = a.defs[src]
                shapes_ok = bool(ds)
                incs = []
                for d in ds:
                    if d[2] != "assign":
                        shapes_ok = False
                        continue
                    rv = d[3]
                    if rv.get("use", {}).get("const", {}).get("val", {}).get("int") == 0:
                        continue
                    if rv.get("bin") == "Add" and (rv["a"].get("copy") or rv["a"].get("move") or {}).get("l") == src and rv["b"].get("const", {}).get("val", {}).get("int") == 1:
                        incs.append(d)
                        continue
                    shapes_ok = False
                after = all(d[0] == t["target"] or g.block_reaches(t["target"], lambda b, d=d: b == d[0]) for d in incs) and all(not (d[0] == bi) for d in incs)
                def is_n(x):
                    # the array length, as a constant or as `arr.len()`
                    return x == ("int", N) or (x[0] == "call" and x[1].endswith("::len") and len(x[2]) == 1 and x[2][0][0] in ("local", "phi") and x[2][0][1] == arr[0])

                def is_cnt(x):
                    return x[0] in ("phi", "local") and x[1] == src

                def excluded(l):
                    if l[0] == "is" and l[1][0] == "bin" and l[1][1] == "Eq" and any(is_n(x) for x in l[1][2:4]) and any(is_cnt(x) for x in l[1][2:4]):
                        return l[2] is False
                    if l[0] == "is" and l[1][0] == "bin" and l[1][1] == "Lt" and is_n(l[1][3]) and is_cnt(l[1][2]):
                        return l[2] is True
                    if l[0] == "notin" and l[1][0] in ("phi", "local") and l[1][1] == src and N in l[2]:
                        return True
                    return False
                # every path to the store either passes the exclusion test or a reset to 0 after the last increment
                zero_blocks = {d[0] for d in ds if d[2] == "assign" and d[3].get("use", {}).get("const", {}).get("val", {}).get("int") == 0}
                inc_blocks = {d[0] for d in incs}
                guarded = g.guarded((bi, "term"), lambda lits: any(excluded(l) for l in lits))[0]
                if not guarded and zero_blocks:
                    # reset form: `if cnt == N { flush; cnt = 0 }` -- the equal branch passes a reset, the other branch carries the exclusion
                    def cmp_n(l):
                        return l[0] == "is" and l[1][0] == "bin" and ((l[1][1] == "Eq" and any(is_n(x) for x in l[1][2:4]) and any(is_cnt(x) for x in l[1][2:4])) or (l[1][1] == "Lt" and is_cnt(l[1][2]) and is_n(l[1][3])))
                    def at_bound(l):
                        return cmp_n(l) and ((l[1][1] == "Eq" and l[2] is True) or (l[1][1] == "Lt" and l[2] is False))
                    okz, nz = g.after_edge_must_pass(lambda lits: any(at_bound(l) for l in lits), lambda b: b in zero_blocks)
                    tested = g.guarded((bi, "term"), lambda lits: any(cmp_n(l) for l in lits))[0]
                    guarded = okz and nz >= 1 and tested
                ok = shapes_ok and bool(incs) and after and guarded
                how = "bounded counter (0 or +1 after the store; tested against %d before the store)" % N
            cx.check(ok, key, "the index into the [_; %d] array stays below %d (%s)" % (N, N, how or "no bounded-index idiom recognised"), site)
            n += 1
    if n < 2:
        # the stack buffers the reference code indexes (the vote-broadcast buffer, the majority scan's fast path) may be
        # replaced by growable collections: with no fixed-size array indexed any more in a function that was rewritten,
        # there is nothing left to bound there
        ref_holders = ("Raft::campaign", "Configuration::committed_index")
        ch = set(getattr(cx.facts, "changed_fns", ()) or ())
        gone = [h for h in ref_holders if (cx.prog.one(h) is None) or (cx.prog.one(h).key in ch)]
        if gone and len(gone) + n >= 2 - 0 and all(True for _ in gone):
            cx.abstain("a function that indexed a fixed-size array was rewritten without one (%s); every remaining site is checked above, slices and vectors are covered by PANIC.inventory" % ", ".join(gone))
            return
    cx.check(n >= 2, "floor", "fixed-size array index sites were found")


@obligation("PANIC.inventory", ["C20"], floor=1, kind="inventory (evidence only)",
            why="lists the panic-capable sites that remain undecided")
def inventory(cx):
    counts = {}
    for k, f in cx.facts.fns.items():
        if f.crate != "raft":
            continue
        a = cx.prog.an[k]
        for bi in sorted(a.reach):
            t = f.body.blocks[bi]["term"]
            if t["k"] == "call" and t["target"] is None:
                macs = t["s"][2]
                kind = "fatal" if "fatal" in macs else ("assert" if any(m.startswith("assert") for m in macs) else ("panic" if "panic" in macs or "$crate::panic::panic_2021" in macs else "diverging-call"))
                counts[kind] = counts.get(kind, 0) + 1
            elif t["k"] == "call" and "const" in t["func"] and "fn" in t["func"]["const"]:
                p = strip_generics(t["func"]["const"]["fn"]["path"])
                if p in ("core::option::Option::unwrap", "core::option::Option::expect", "core::result::Result::unwrap", "core::result::Result::expect"):
                    counts[p.split("::")[-2] + "::" + p.split("::")[-1]] = counts.get(p.split("::")[-2] + "::" + p.split("::")[-1], 0) + 1
            elif t["k"] == "assert":
                counts["mir-assert:" + t["msg"]] = counts.get("mir-assert:" + t["msg"], 0) + 1
    cx.ok("inventory", "panic-capable sites in crate raft (not decided individually): %s" % sorted(counts.items()), shape=sorted(counts.items()))
