"""READY — the RawNode hand-off (DESIGN §5.6)."""
from ..engine import obligation, require, require_all, fn_name, callers_of, call_args
from ..an import show, strip_generics, walk, mk_bin, mk_field
from ..pat import ANY, V, match, call, fld, alt, contains
from ..pg import show_lit, norm_lit, implies
from ..idioms import as_min, as_max, is_param_of_adt, bool_rows, table_is_condition
from ..templates import ObjFlow, UNINIT, DEFAULT
from ..prog import Site
from .commit import write_value
from .vote import is_f, TERM, VOTE, STATE

FLAG = "Ready.is_persisted_msg"


def _ret_site(cx, fn):
    a = cx.prog.A(fn)
    for bi in sorted(a.reach):
        if fn.body.blocks[bi]["term"]["k"] == "return":
            return Site(fn, bi, "term", "return")
    return None


def _write_blocks(cx, fn, field, value=None):
    out = set()
    for s in cx.prog.writes.get(field, []):
        if s.fn is fn and s.kind == "write" and "stmt" in s.data:
            if value is None or write_value(cx, s) == value:
                out.add(s.block)
    return out



def _release_gate(cx, s):
    """Every path to the store of Ready.is_persisted_msg: the value stored is `true`, unless the path shows a leader
    (`state == Leader`) whose hard state carries no new term and no new vote w.r.t. prev_hs (finding F4)."""
    from ..engine import subst_phis
    g = cx.pg(s.fn)
    a = cx.prog.A(s.fn)
    if "stmt" not in s.data:
        return False, "not a plain store"
    v0 = a.expr_rvalue(s.data["stmt"]["rv"], s.at)
    try:
        pv = g.site_values(s.at, lambda env: dict(env or {}), 20000)
    except OverflowError:
        return False, "paths cannot be enumerated"
    if not pv:
        return False, "no path"

    def hs_field(e, name):
        return e[0] == "field" and e[2] == "HardState." + name

    def cmp_of(l, name):
        # literal comparing prev_hs.<name> with another hard state's <name>: returns True (equal) / False (differs) / None
        if l[0] == "is" and l[1][0] == "bin" and l[1][1] == "Eq" and hs_field(l[1][2], name) and hs_field(l[1][3], name):
            if any(any(y[0] == "field" and y[2] == "RawNode.prev_hs" for y in walk(x)) for x in l[1][2:4]):
                return l[2]
        return None

    def whole_equal(l):
        # hs == prev_hs as a whole (the outer `if hs != self.prev_hs` not taken)
        if l[0] != "is":
            return False
        e = l[1]
        args = e[2:4] if e[0] == "bin" and e[1] == "Eq" else (e[2] if e[0] == "call" and (e[1].endswith("::eq") or e[1].endswith("::ne")) else ())
        if len(args) != 2 or not any(any(y[0] == "field" and y[2] == "RawNode.prev_hs" for y in walk(x)) for x in args):
            return False
        if any(hs_field(x, "term") or hs_field(x, "vote") or hs_field(x, "commit") for x in args):
            return False
        eq = (e[0] == "bin") or e[1].endswith("::eq")
        return l[2] is eq

    def leader(l):
        if l[0] in ("in", "notin") and is_f(l[1], STATE):
            if l[0] == "in":
                return True if l[2] == frozenset(["Leader"]) else (False if "Leader" not in l[2] else None)
            return False if "Leader" in l[2] else None
        return None

    def hs_none(l):
        return l[0] == "in" and l[2] == frozenset(["None"]) and any(y[0] == "field" and y[2] == "Ready.hs" for y in walk(l[1]))
    n = 0
    for lits, env in pv:
        v = subst_phis(v0, env)
        n += 1
        if v == ("bool", True):
            continue
        unchanged = any(hs_none(l) or whole_equal(l) for l in lits) or (any(cmp_of(l, "term") is True for l in lits) and any(cmp_of(l, "vote") is True for l in lits))
        is_leader = any(leader(l) is True for l in lits)
        if v == ("bool", False):
            if is_leader and unchanged:
                continue
            return False, "`false` stored on a path without evidence of a leader with unchanged term and vote"
        lv = norm_lit(cx.facts, v, True)
        if leader(lv) is False:
            # the value is `state != Leader`: nothing else may make the messages wait on this path
            if unchanged:
                continue
            return False, "`state != Leader` stored on a path on which the term or the vote may have changed"
        ct, cv = cmp_of(lv, "term"), cmp_of(lv, "vote")
        if ct is False and is_leader and any(cmp_of(l, "vote") is True for l in lits):
            continue
        if cv is False and is_leader and any(cmp_of(l, "term") is True for l in lits):
            continue
        return False, "unrecognised value %s" % show(v)[:80]
    return True, "%d paths" % n


@obligation("READY.persisted_partition", ["C02", "C04", "C06"], floor=5, kind="value shape + sibling agreement",
            why="a follower's vote grant or append ack must not be sendable before its hard state / entries are persisted")
def persisted_partition(cx):
    ws = [s for s in cx.prog.writes.get(FLAG, []) if s.kind == "write"]
    cx.check(len(ws) >= 1 and len({s.fn.key for s in ws}) == 1, "single-writer", "Ready.is_persisted_msg is written in one function, the one that builds the Ready (found %d sites)" % len(ws))
    for s in ws:
        ok, why = _release_gate(cx, s)
        cx.check(ok, cx.site_key(s, "write:" + FLAG), "is_persisted_msg := (raft.state != Leader) || the Ready carries a new term or vote: messages are immediate only for a "
                 "leader whose term and vote are already durable (%s)" % why, s, value=show(write_value(cx, s))[:160])
    spec = {"Ready::messages": False, "Ready::take_messages": False, "Ready::persisted_messages": True, "Ready::take_persisted_messages": True}
    for name, when in spec.items():
        f = cx.fn(name)
        rets = cx.pg(f).returns()
        ok = len(rets) >= 2
        seen_light = False
        for lits, v, _ in rets:
            flag = None
            for l in lits:
                if l[0] == "is" and is_f(l[1], FLAG):
                    flag = l[2]
            is_light = contains(fld("Ready.light"), v) and ((v[0] == "call" and "LightReady::" in v[1] and "messages" in v[1]) or contains(fld("LightReady.messages"), v))
            if flag is None:
                ok = False
            elif flag == when:
                ok = ok and is_light
                seen_light = seen_light or is_light
            else:
                ok = ok and not is_light and not contains(fld("Ready.light"), v)
        cx.check(ok and seen_light, "accessor:" + name, "%s returns the light ready's messages exactly when is_persisted_msg == %s, else nothing" % (name, str(when).lower()),
                 shape=[(show(v), [show_lit(l) for l in lits]) for lits, v, _ in rets])

HS = "raft_proto::protos::eraftpb::HardState"


@obligation("READY.must_sync", ["C02", "C06", "C07"], floor=3, kind="must-pass-through under assumption",
            why="the application would be told it may defer the fsync of a vote, a snapshot or entries")
def must_sync(cx):
    rd = cx.fn("RawNode::ready")
    g = cx.pg(rd)
    ret = _ret_site(cx, rd)
    cx.need(ret is not None, "return of RawNode::ready")
    sites = {}
    for s in cx.prog.writes.get("Ready.must_sync", []):
        if s.fn is rd:
            sites.setdefault(s.block, []).append(s)
    cx.need(sites, "a write of `must_sync` in RawNode::ready")

    def truth(assume):
        # the value stored by the node's last write of must_sync, evaluated in the node's environment: constant
        # true, or a condition the assumption implies (`must_sync = vote_changed || term_changed`)
        def ev(n):
            ss = sites.get(g.nodes[n][0])
            if not ss:
                return None
            s = max(ss, key=lambda s: (s.idx == "term", s.idx if s.idx != "term" else 0))
            if "stmt" not in s.data:
                return False
            v = g.an.expr_rvalue(s.data["stmt"]["rv"], s.at, 0, g.envs[n] or None)
            lit = norm_lit(cx.facts, v, True)
            return lit == ("const", True) or any(implies(a, lit) for a in assume)
        return ev

    def forced(assume):
        return g.holds_at_exit(truth(assume), assume=assume)[0]
    # collect the condition literals as they appear in ready()
    lits = set()
    for n in range(len(g.nodes)):
        for _, ls in g.edges[n] or []:
            lits.update(ls)

    def find(pred):
        return [l for l in lits if pred(l)]
    hs_diff = find(lambda l: l[0] == "is" and l[2] is False and l[1][0] == "bin" and l[1][1] == "Eq" and contains(call("~Raft::hard_state", ANY), l[1]) and not contains(fld("HardState.vote"), l[1]) and not contains(fld("HardState.term"), l[1]))
    for fld_name in ("vote", "term"):
        # the assumption `hs.<f> != prev_hs.<f>`, built from the operands of the whole-struct comparison (the code
        # need not branch on it: `must_sync = vote_changed || term_changed` stores the comparison itself)
        cand = [norm_lit(cx.facts, mk_bin("Eq", mk_field(l[1][2], HS, fld_name), mk_field(l[1][3], HS, fld_name)), False) for l in hs_diff
                if any(contains(fld("RawNode.prev_hs"), x) for x in l[1][2:4])]
        ok = bool(cand)
        for c in cand:
            ok = ok and forced([c] + hs_diff)
        cx.check(ok, "hs." + fld_name, "ready(): if hs.%s differs from prev_hs.%s, the Ready is returned with must_sync = true" % (fld_name, fld_name), ret)
    snap = find(lambda l: l[0] == "in" and l[2] == frozenset(["Some"]) and is_f(l[1], "Unstable.snapshot"))
    ok = bool(snap) and all(forced([c]) for c in snap)
    cx.check(ok, "snapshot", "ready(): an unstable snapshot forces must_sync", ret)
    ents = find(lambda l: l[0] == "in" and l[2] == frozenset(["Some"]) and l[1][0] == "call" and l[1][1].endswith("::last") and contains(fld("Ready.entries"), l[1]))
    ok = bool(ents) and all(forced([c]) for c in ents)
    cx.check(ok, "entries", "ready(): non-empty entries force must_sync", ret)
    # and rd.entries really is the unstable suffix
    ok = False
    for s in cx.prog.writes.get("Ready.entries", []):
        if s.fn is rd:
            v = write_value(cx, s) if "stmt" in s.data else cx.prog.A(rd).expr_call(s.data["term"], s.at)
            ok = ok or contains(call("~RaftLog::unstable_entries", ANY), v)
    cx.check(ok, "entries-source", "ready(): rd.entries is a copy of raft_log.unstable_entries()")


def _handed_out_entries(cx, glr):
    """what gen_light_ready hands out as committed entries: the LightReady field itself, or the value it is given
    (by a field write or in the struct literal) in that function"""
    from .commit import ctor_sites
    out = []
    a = cx.prog.A(glr)
    for s in cx.prog.writes.get("LightReady.committed_entries", []):
        if s.fn is glr:
            out.append(write_value(cx, s))
    for f, bi, si, st in ctor_sites(cx, "raw_node::LightReady"):
        if f is glr and "committed_entries" in st["rv"].get("fields", []):
            out.append(a.expr_operand(st["rv"]["ops"][st["rv"]["fields"].index("committed_entries")], (bi, si)))
    return out


def _obj_fields(cx, fn, adt):
    """Fields of the object returned by fn (built in place)."""
    from ..templates import return_template
    return return_template(cx.prog, fn, adt)


@obligation("READY.hardstate", ["C02", "C06", "C07"], floor=4, kind="value shape + exhaustiveness",
            why="term, vote and commit are what a restart restores; a field missing from the hand-off or the reload is lost across a crash")
def hardstate(cx):
    hsf = cx.fn("Raft::hard_state")
    sts = _obj_fields(cx, hsf, "HardState")
    cx.need(sts, "object built by Raft::hard_state")
    want = {"term": TERM, "vote": VOTE, "commit": "RaftLog.committed"}
    for st in sts:
        for f, key in want.items():
            v = st.get(f, st.get("*"))
            cx.check(is_f(v, key), "hard_state." + f, "hard_state().%s = %s (found %s)" % (f, key, show(v)))
    # exhaustiveness over the protobuf struct's data fields
    ad = cx.facts.adt("raft_proto::protos::eraftpb::HardState")
    cx.need(ad, "struct HardState")
    data = [f["name"] for f in ad["variants"][0]["fields"] if f["name"] not in ("unknown_fields", "cached_size")]
    cx.check(sorted(data) == sorted(want), "fields", "HardState has exactly the fields the hand-off fills: %s" % data)
    ls = cx.fn("Raft::load_state")
    a = cx.prog.A(ls)
    loaded = set()
    for key, hf in ((TERM, "HardState.term"), (VOTE, "HardState.vote"), ("RaftLog.committed", "HardState.commit")):
        for s in cx.prog.writes.get(key, []):
            if s.fn is ls and "stmt" in s.data and is_f(write_value(cx, s), hf):
                loaded.add(hf)
    cx.check(len(loaded) == 3, "load_state", "load_state writes back term, vote and commit (found %s)" % sorted(loaded))
    # ... and the constructor calls it whenever the stored hard state is not the empty one -- whatever else the store
    # holds (a node may have persisted nothing but a vote)
    for c in callers_of(cx, ls):
        gc = cx.pg(c.fn)
        def nondefault(l):
            if l[0] != "is" or l[1][0] != "bin" or l[1][1] not in ("Eq", "Ne"):
                return False
            xs = l[1][2:4]
            isdef = lambda x: (x[0] == "call" and x[1].endswith("Default>::default")) or (x[0] == "adt" and x[1].endswith("HardState"))
            ishs = lambda x: any(y[0] == "field" and y[2] == "RaftState.hard_state" for y in walk(x))
            if not (any(isdef(x) for x in xs) and any(ishs(x) for x in xs)):
                return False
            return l[2] is (l[1][1] == "Ne")
        okl, nl = gc.after_edge_must_pass(lambda lits: any(nondefault(l) for l in lits), lambda b, c=c: b == c.block)
        cx.check(okl and nl >= 1, cx.site_key(c, "reload"), "%s reloads term, vote and commit whenever the stored HardState differs from the default one" % fn_name(c.fn), c)
        # ... and that test is made on every path on which the constructor succeeds (no "nothing to recover" shortcut around it)
        tested = {gc.nodes[n_][0] for n_ in range(len(gc.nodes)) for _, ls_ in gc.edges[n_] or [] if any(nondefault(l) or nondefault((l[0], l[1], not l[2]) if l[0] == "is" and isinstance(l[2], bool) else l) for l in ls_)}
        oks = [(bi, si) for bi in sorted(cx.prog.A(c.fn).reach) for si, st in enumerate(c.fn.body.blocks[bi]["stmts"])
               if st["k"] == "assign" and st["place"] == {"l": 0, "p": []} and st["rv"].get("agg") == "adt" and st["rv"].get("adt") == "core::result::Result" and st["rv"].get("variant") == "Ok"]
        if oks and not gc.truncated:
            cx.check(bool(tested) and all(gc.dominated_by_block(at, lambda b: b in tested) for at in oks), cx.site_key(c, "reload:always"),
                     "%s compares the stored HardState with the default one on every path on which it succeeds" % fn_name(c.fn), c)
    # ready(): hs handed out iff different from prev_hs; commit_ready stores it
    rd = cx.fn("RawNode::ready")
    g = cx.pg(rd)
    ret = _ret_site(cx, rd)
    hs_blocks = _write_blocks(cx, rd, "Ready.hs")
    lits = set()
    for n in range(len(g.nodes)):
        for _, ls_ in g.edges[n] or []:
            lits.update(ls_)
    diff = [l for l in lits if l[0] == "is" and l[2] is False and l[1][0] == "bin" and l[1][1] == "Eq" and contains(call("~Raft::hard_state", ANY), l[1]) and contains(fld("RawNode.prev_hs"), l[1])
            and not any(x[0] == "field" and x[2].startswith("HardState.") for x in walk(l[1]))]
    ok = bool(diff) and bool(hs_blocks) and all(g.dominated_by_block(ret.at, lambda b: b in hs_blocks, assume=[c]) for c in diff)
    cx.check(ok, "ready.hs", "ready(): the hard state is handed out whenever it differs from prev_hs", ret)
    cr = cx.fn("RawNode::commit_ready")
    ok = False
    for s in cx.prog.writes.get("RawNode.prev_hs", []):
        if s.fn is cr and "stmt" in s.data:
            v = write_value(cx, s)
            ok = ok or contains(fld("Ready.hs"), v)
    cx.check(ok, "commit_ready.prev_hs", "commit_ready stores the handed-out hard state as prev_hs")


SOURCES = [
    ("messages", lambda e: contains(fld("Raft.msgs"), e)),
    ("soft_state", lambda e: contains(call("~Raft::soft_state", ANY), e)),
    ("hard_state", lambda e: contains(call("~Raft::hard_state", ANY), e)),
    ("read_states", lambda e: contains(fld("RaftCore.read_states"), e)),
    ("unstable_entries", lambda e: contains(call("~RaftLog::unstable_entries", ANY), e) or contains(fld("Unstable.entries"), e)),
    ("unstable_snapshot", lambda e: contains(fld("Unstable.snapshot"), e) or contains(call("~RawNode::snap", ANY), e) or contains(call("~Raft::snap", ANY), e)),
    ("committed_entries", lambda e: contains(call("~RaftLog::has_next_entries_since", ANY, fld("RawNode.commit_since_index")), e) or contains(call("~RaftLog::next_entries_since", ANY, fld("RawNode.commit_since_index"), ANY), e)),
]


def _all_exprs(cx, fn):
    """Every call expression and switch operand of a function body (for source-set extraction)."""
    a = cx.prog.A(fn)
    out = []
    for bi in sorted(a.reach):
        b = fn.body.blocks[bi]
        t = b["term"]
        if t["k"] == "call":
            out.append(a.expr_call(t, (bi, "term")))
        elif t["k"] == "switch":
            out.append(a.expr_operand(t["op"], (bi, "term")))
    return out


@obligation("READY.has_ready_agreement", ["C07", "C10"], floor=7, kind="sibling agreement",
            why="pending work that has_ready never announces stalls the node; an announced but empty Ready spins it")
def has_ready_agreement(cx):
    hr = cx.fn("RawNode::has_ready")
    rd = cx.fn("RawNode::ready")
    glr = cx.fn("RawNode::gen_light_ready")
    rets = bool_rows(cx.facts, cx.pg(hr).returns())
    true_lits = []
    for lits, v, _ in rets:
        if v == ("bool", True) and lits:
            true_lits.append(lits[-1])
    ready_exprs = _all_exprs(cx, rd) + _all_exprs(cx, glr)
    for name, pred in SOURCES:
        in_has = any(l[0] in ("is", "in", "notin") and pred(l[1]) for l in true_lits)
        in_ready = any(pred(e) for e in ready_exprs)
        cx.check(in_has and in_ready, "source:" + name, "%s is consulted by both has_ready() (%s) and ready() (%s)" % (name, in_has, in_ready))
    # the two state comparisons must be as wide in has_ready() as in ready(): the whole struct, or every data field of
    # it (a has_ready that looks at term and vote only never announces a Ready that carries nothing but a new commit index)
    for name, adt in (("soft_state", "raft::raft::SoftState"), ("hard_state", HS)):
        pred = dict(SOURCES)[name]
        ad = cx.facts.adt(adt)
        cx.need(ad, "struct " + adt)
        short = adt.split("::")[-1]
        fields = {f["name"] for f in ad["variants"][0]["fields"] if f["name"] not in ("unknown_fields", "cached_size")}
        ls = [l for l in true_lits if l[0] == "is" and l[2] is False and l[1][0] == "bin" and l[1][1] == "Eq" and pred(l[1])]
        whole = any(not any(x[0] == "field" and x[2].startswith(short + ".") for x in walk(l[1])) for l in ls)
        per = {f for l in ls for f in fields if all(is_f(x, short + "." + f) for x in l[1][2:4])}
        cx.check(whole or per == fields, "width:" + name, "has_ready() compares the whole %s with the one last handed out, like ready() (fields compared: %s)" % (short, "all" if whole else sorted(per)))
    extra = [show_lit(l) for l in true_lits if not any(pred(l[1]) for _, pred in SOURCES)]
    cx.check(not extra, "no-extra", "has_ready() announces nothing that ready() does not fill (unmatched conditions: %s)" % extra[:4])
    cx.check(any(v == ("bool", False) for _, v, _ in rets), "false-path", "has_ready() can answer false")


@obligation("READY.handoff_bounds", ["C01", "C07", "C15", "C20"], floor=5, kind="value shape + sibling agreement",
            why="`committed` alone hands out unpersisted entries; a different lower bound repeats or skips entries")
def handoff_bounds(cx):
    ub = cx.fn("RaftLog::applied_index_upper_bound")
    rets = cx.pg(ub).returns()
    ok = len(rets) == 1
    shape = rets[0][1] if rets else None
    if ok:
        mn = as_min(shape)
        ok = mn is not None
        if ok:
            a, b = mn
            other = b if is_f(a, "RaftLog.committed") else a
            ok = (is_f(a, "RaftLog.committed") or is_f(b, "RaftLog.committed")) and bool(match(("bin", "Add", V("x"), V("y")), other)) and \
                {other[2][2] if other[2][0] == "field" else None, other[3][2] if other[3][0] == "field" else None} == {"RaftLog.persisted", "RaftLog.max_apply_unpersisted_log_limit"}
    cx.check(ok, "upper_bound", "applied_index_upper_bound() = min(committed, persisted + max_apply_unpersisted_log_limit) (found %s)" % (show(shape) if shape else None))
    nes = cx.fn("RaftLog::next_entries_since")
    hnes = cx.fn("RaftLog::has_next_entries_since")
    # the producer
    slices = [c for c in cx.prog.call_sites_of("RaftLog::slice") if c.fn is nes]
    cx.check(len(slices) == 1, "producer", "next_entries_since reads the log through exactly one RaftLog::slice call")
    lo = hi = None
    for c in slices:
        args = call_args(cx, c)
        lo, hi = args[1], args[2]
        mx = as_max(lo)
        ok_lo = mx is not None and any(x[0] == "bin" and x[1] == "Add" and ("int", 1) in x[2:] and any(y[0] == "param" for y in x[2:]) for x in mx) and any(x[0] == "call" and x[1].endswith("RaftLog::first_index") for x in mx)
        ok_hi = bool(match(("bin", "Add", alt(call(cx.sfx("RaftLog::applied_index_upper_bound"), ANY), ("int", 1)), alt(call(cx.sfx("RaftLog::applied_index_upper_bound"), ANY), ("int", 1))), hi)) and hi[2] != hi[3]
        cx.check(ok_lo, "lo", "entries are handed out from max(since + 1, first_index()) (found %s)" % show(lo), c)
        cx.check(ok_hi, "hi", "entries are handed out up to applied_index_upper_bound() + 1 (found %s)" % show(hi), c)
        cx.check(args[3][0] == "param", "max", "the size limit given to next_entries_since is passed on to slice", c)
        def nonempty(l, lo=lo, hi=hi):
            return l[0] == "is" and l[2] is True and l[1] == ("bin", "Lt", lo, hi)
        require(cx, c, "guard", "slice(lo, hi) is taken only if hi > lo", nonempty, kill=False)
    rets = cx.pg(hnes).returns()
    ok = lo is not None and table_is_condition(cx.facts, rets, ("bin", "Lt", lo, hi))
    cx.check(ok, "sibling", "has_next_entries_since computes the same bounds as next_entries_since (found %s)" % (show(rets[0][1]) if rets else None))
    # the consumer: gen_light_ready
    glr = cx.fn("RawNode::gen_light_ready")
    cs = [c for c in cx.prog.call_sites_of("RaftLog::next_entries_since") if c.fn is glr]
    cx.check(len(cs) == 1 and all(is_f(call_args(cx, c)[1], "RawNode.commit_since_index") for c in cs), "consumer", "gen_light_ready asks for the entries after commit_since_index")
    others = [c for c in cx.prog.call_sites_of("RaftLog::next_entries_since") if c.fn.crate == "raft" and c.fn is not glr and fn_name(c.fn) != "RaftLog::next_entries"]
    cx.check(not others, "single-consumer", "committed entries are produced for the application only in gen_light_ready (other callers: %s)" % [fn_name(c.fn) for c in others])
    rdf = cx.fn("RawNode::ready")
    wfns = {s.fn.key for s in cx.prog.writes.get("RawNode.commit_since_index", []) if "stmt" in s.data}
    cx.check(glr.key in wfns, "advance:handed-out", "handing out committed entries moves commit_since_index past them (else they are handed out again)")
    cx.check(rdf.key in wfns, "advance:snapshot", "a Ready carrying a snapshot moves commit_since_index to the snapshot index (else entries the snapshot replaced are asked for)")
    gr = cx.pg(rdf)
    sw = {s.block for s in cx.prog.writes.get("RawNode.commit_since_index", []) if s.fn is rdf and "stmt" in s.data}
    has_snap = lambda l: l[0] == "in" and l[2] == frozenset(["Some"]) and (is_f(l[1], "Unstable.snapshot") or (l[1][0] == "call" and l[1][1].endswith("unstable_snapshot")))
    snap_lits = {l for n_ in range(len(gr.nodes)) for _, ls in gr.edges[n_] or [] for l in ls if has_snap(l)}
    okp, ne = gr.after_edge_must_pass(lambda lits: any(has_snap(l) for l in lits), lambda b: b in sw, assume=list(snap_lits))
    cx.check(okp and ne >= 1, "advance:snapshot:always", "whenever the Ready carries a pending snapshot the write happens")
    gg = cx.pg(glr)
    gw = {s.block for s in cx.prog.writes.get("RawNode.commit_since_index", []) if s.fn is glr and "stmt" in s.data}
    some_last = lambda l: l[0] == "in" and l[2] == frozenset(["Some"]) and l[1][0] == "call" and l[1][1].endswith("::last")
    okq, nq = gg.after_edge_must_pass(lambda lits: any(some_last(l) for l in lits), lambda b: b in gw)
    cx.check(okq and nq >= 1, "advance:handed-out:always", "whenever committed entries are handed out the write happens")
    # where the hand-off starts: right after the applied index the application configured
    from .commit import ctor_sites
    cts = ctor_sites(cx, "raw_node::RawNode")
    cx.check(len(cts) >= 1, "start:ctor", "the RawNode constructor was found")
    for (cf, bi, si, st) in cts:
        e = cx.prog.A(cf).expr_rvalue(st["rv"], (bi, si))
        d = dict(e[2])
        v = d.get("commit_since_index", ("?",))
        # Raft::new restores applied := Config.applied (LOGGUARD.applied restart-value), so either source is the same index
        cx.check(is_f(v, "Config.applied") or is_f(v, "RaftLog.applied"), "start:value", "hand-off of committed entries starts right after the configured applied index (found %s)" % show(v)[:100], Site(cf, bi, si, "write"))
    for s in cx.prog.writes.get("RawNode.commit_since_index", []):
        key = cx.site_key(s, "write:commit_since_index")
        if "stmt" not in s.data:
            cx.bad(key, "commit_since_index written by a call", s)
            continue
        v = write_value(cx, s)
        if s.fn is glr:
            ho = _handed_out_entries(cx, glr)
            ok = is_f(v, "Entry.index") and (contains(call("~last", fld("LightReady.committed_entries")), v) or any(contains(call("~last", h), v) for h in ho if h[0] not in ("opaque",)))
            cx.check(ok, key, "commit_since_index := index of the last committed entry handed out (found %s)" % show(v), s)
        elif s.fn is rdf:
            ok = is_f(v, "SnapshotMetadata.index")
            cx.check(ok, key, "on a snapshot commit_since_index := snapshot.index (found %s)" % show(v), s)
        elif fn_name(s.fn) in ("RawNode::new",):
            cx.ok(key, "constructor", s)
        else:
            cx.bad(key, "unrecognised writer of commit_since_index (%s)" % show(v), s)


def _call_blocks(fn, suffix):
    out = set()
    for bi, b in enumerate(fn.body.blocks):
        t = b["term"]
        if t["k"] == "call" and "const" in t["func"] and "fn" in t["func"]["const"]:
            p = strip_generics(t["func"]["const"]["fn"]["path"])
            if p.endswith(suffix):
                out.add(bi)
    return out


@obligation("READY.records", ["C04", "C06", "C07"], floor=6, kind="pairing / order",
            why="entries declared stable that were never handed out, or persistence acknowledged for a Ready not yet written")
def records(cx):
    aa = cx.fn("RawNode::advance_append")
    g = cx.pg(aa)
    cr, opr, glr = _call_blocks(aa, "RawNode::commit_ready"), _call_blocks(aa, "RawNode::on_persist_ready"), _call_blocks(aa, cx.sfx("RawNode::gen_light_ready"))
    cx.check(len(cr) == 1 and len(opr) == 1 and len(glr) == 1, "advance_append:calls", "advance_append calls commit_ready, on_persist_ready and gen_light_ready once each")
    if cr and opr and glr:
        ok1 = g.dominated_by_block((min(opr), "term"), lambda b: b in cr)
        ok2 = g.dominated_by_block((min(glr), "term"), lambda b: b in opr)
        cx.check(ok1, "advance_append:order1", "commit_ready precedes on_persist_ready")
        cx.check(ok2, "advance_append:order2", "on_persist_ready precedes the light ready (so newly persisted entries can be handed out, and nothing is acknowledged before being recorded)")
        for c in cx.prog.call_sites_of("RawNode::on_persist_ready"):
            if c.fn is aa:
                args = call_args(cx, c)
                cx.check(is_f(args[1], "RawNode.max_number"), "advance_append:number", "advance_append acknowledges everything up to max_number", c)
    async_ = cx.fn("RawNode::advance_append_async")
    reach = cx.prog.reachable_fns([strip_generics(async_.key)])
    bad = sorted(x for x in reach if x.endswith("on_persist_entries") or x.endswith("on_persist_snap") or x.endswith("on_persist_ready") or x.endswith("maybe_persist"))
    cx.check(not bad, "async:no-persist", "advance_append_async acknowledges no persistence (reaches: %s)" % bad)
    cx.check(bool(_call_blocks(async_, "RawNode::commit_ready")), "async:commit_ready", "advance_append_async still stabilises the handed-out Ready")
    crf = cx.fn("RawNode::commit_ready")
    for suffix, fld_name in (("RaftLog::stable_entries", "ReadyRecord.last_entry"), ("RaftLog::stable_snap", "ReadyRecord.snapshot")):
        cs = [c for c in cx.prog.call_sites_of(suffix) if c.fn.crate == "raft" and c.fn.impl_adt != "raft::raft_log::RaftLog"]
        ok = bool(cs) and all(c.fn is crf for c in cs)
        cx.check(ok, "stable:" + suffix.split("::")[-1] + ":caller", "%s is called only from commit_ready" % suffix)
        for c in cs:
            args = call_args(cx, c)
            ok = all(contains(fld(fld_name), a) and contains(call("~VecDeque::back", fld("RawNode.records")), a) for a in args[1:])
            cx.check(ok, cx.site_key(c, "call:" + suffix.split("::")[-1]), "commit_ready stabilises exactly what the last ReadyRecord recorded", c, args=[show(a)[:100] for a in args[1:]])
    # on_persist_ready pops records with number <= n only
    oprf = cx.fn("RawNode::on_persist_ready")
    for c in cx.prog.call_sites_of("VecDeque::pop_front"):
        if c.fn is not oprf:
            continue
        def le_n(l):
            return l[0] == "is" and l[2] is False and l[1][0] == "bin" and l[1][1] == "Lt" and l[1][2][0] == "param" and is_f(l[1][3], "ReadyRecord.number")
        require(cx, c, cx.site_key(c, "pop"), "on_persist_ready(n) pops a record only if its number <= n", le_n, kill=False)
    # a snapshot is stabilised / acknowledged before the entries that follow it
    for f, first, then in ((crf, "RaftLog::stable_snap", "RaftLog::stable_entries"), (oprf, "Raft::on_persist_snap", "Raft::on_persist_entries")):
        g = cx.pg(f)
        fb, tb = _call_blocks(f, first), _call_blocks(f, then)
        ok = bool(fb) and bool(tb) and not any(g.block_reaches(b, lambda x: x in fb) for b in tb)
        cx.check(ok, "order:" + first.split("::")[-1], "%s: %s is never called after %s (the snapshot comes first)" % (fn_name(f), first.split("::")[-1], then.split("::")[-1]))
    # ready() records what it hands out
    rd = cx.fn("RawNode::ready")
    pushes = [c for c in cx.prog.call_sites_of("VecDeque::push_back") if c.fn is rd]
    cx.check(len(pushes) == 1, "ready:record", "ready() pushes one ReadyRecord")


@obligation("READY.uncommitted_release", ["C13"], floor=1, kind="argument source",
            why="payload bytes handed out as committed must be released from the uncommitted-size budget, exactly those")
def uncommitted_release(cx):
    glr = cx.fn("RawNode::gen_light_ready")
    cs = [c for c in cx.prog.call_sites_of("Raft::reduce_uncommitted_size") if c.fn is glr]
    cx.check(len(cs) == 1, "call", "gen_light_ready releases the uncommitted size once")
    for c in cs:
        args = call_args(cx, c)
        cx.check(is_f(args[1], "LightReady.committed_entries") or args[1] in _handed_out_entries(cx, glr), "arg", "reduce_uncommitted_size is given exactly the committed entries being handed out (found %s)" % show(args[1]), c)


@obligation("READY.advance_apply_order", ["C07", "C09"], floor=1, kind="order of a defining read",
            why="advance() must report as applied only what was handed out before this call, not the entries of the LightReady it is about to return")
def advance_apply_order(cx):
    from ..engine import value_read_before
    adv = cx.fn("RawNode::advance")
    cs = [c for c in cx.prog.call_sites_of("RawNode::advance_apply_to") if c.fn is adv] + [c for c in cx.prog.call_sites_of("RawNode::commit_apply") if c.fn is adv]
    cx.check(len(cs) == 1, "call", "advance() advances the applied index once")
    for c in cs:
        a = call_args(cx, c)[1]
        ok_src = is_f(a, "RawNode.commit_since_index")
        before = value_read_before(cx, c, 1, "RawNode::advance_append")
        cx.check(ok_src and before is True, "order", "advance(): the applied index is commit_since_index as it was BEFORE advance_append produced the new LightReady (source %s, read-before %s)" % (show(a), before), c)
    g = cx.pg(adv)
    aa = _call_blocks(adv, "RawNode::advance_append")
    ok = bool(aa) and all(g.dominated_by_block(c.at, lambda b: b in aa) for c in cs)
    cx.check(ok, "after-append", "advance() first advances the append state, then reports the apply progress")
    # every other way RawNode reports apply progress: what was handed out so far, or what the application says
    work = [(c, 1) for c in cx.prog.call_sites_of("Raft::commit_apply") if c.fn.crate == "raft" and (c.fn.impl_adt or "").endswith("RawNode")]
    seen = set()
    while work:
        c, ai = work.pop()
        if (c.fn.key, c.block) in seen:
            continue
        seen.add((c.fn.key, c.block))
        a = call_args(cx, c)[ai]
        if a[0] == "param" and c.fn.vis != "Public":
            # a private forwarding wrapper: the obligation moves to its callers
            for cc in callers_of(cx, c.fn):
                work.append((cc, a[1] - 1))
            continue
        ok = is_f(a, "RawNode.commit_since_index") or a[0] == "param"
        cx.check(ok, cx.site_key(c, "applied-source"), "RawNode reports as applied either commit_since_index (the last index handed out) or the index the application passed -- never the commit index itself (found %s)" % show(a)[:80], c)


@obligation("READY.light_commit", ["C07", "C01"], floor=3, kind="guard + value shape + pairing",
            why="a commit index that moved between ready() and advance() (an applied conf change shrinking the quorum) must be handed out in the LightReady: it is the only hand-off of it, prev_hs is updated at the same time")
def light_commit(cx):
    aa = cx.fn("RawNode::advance_append")
    g = cx.pg(aa)
    a = cx.prog.A(aa)

    def is_commit(e):
        return is_f(e, "RaftLog.committed") or (e[0] == "field" and e[2] == "HardState.commit" and e[1][0] == "call" and e[1][1].endswith("Raft::hard_state"))
    # the sites that build `Some(<commit index>)`: stored into LightReady.commit_index directly, or bound first and put
    # into the LightReady literal
    some = []
    for bi in sorted(a.reach):
        for si, st in enumerate(aa.body.blocks[bi]["stmts"]):
            if st["k"] == "assign" and st["rv"].get("agg") == "adt" and st["rv"].get("adt") == "core::option::Option" and st["rv"].get("variant") == "Some":
                v = a.expr_rvalue(st["rv"], (bi, si))
                if v[0] == "adt" and v[2] and is_commit(v[2][0][1]):
                    some.append((Site(aa, bi, si, "write", {"stmt": st}), v[2][0][1]))
    cx.check(len(some) >= 1, "site", "advance_append stores Some(commit) into LightReady.commit_index")

    def moved(l):
        # prev_hs.commit < current commit
        return l[0] == "is" and l[2] is True and l[1][0] == "bin" and l[1][1] == "Lt" and l[1][2][0] == "field" and l[1][2][2] == "HardState.commit" \
            and is_f(l[1][2][1], "RawNode.prev_hs") and is_commit(l[1][3])
    for s, x in some:
        key = cx.site_key(s, "write:LightReady.commit_index")
        cx.check(is_commit(x), key + ":value", "the index handed out is the node's current commit index (found %s)" % show(x)[:80], s)
        require(cx, s, key + ":guard", "the commit index is handed out when it is above prev_hs.commit -- the last value the application was given", moved, kill=False)
    blocks = {s.block for s, _ in some}
    ok, ne = g.after_edge_must_pass(lambda lits: any(moved(l) for l in lits), lambda b: b in blocks)
    cx.check(ok and ne >= 1, "converse", "whenever the commit index is above prev_hs.commit, advance_append hands it out")
    pw = [s for s in cx.prog.writes.get("HardState.commit", []) if s.fn is aa and "stmt" in s.data]
    okp = bool(pw) and all(is_commit(write_value(cx, s)) for s in pw)
    cx.check(okp, "prev_hs", "prev_hs.commit follows the commit index handed out")
