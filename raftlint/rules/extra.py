"""Obligations added after the seeded-change rounds: mechanisms the properties depend on that no rule
covered yet (DESIGN §11)."""
from ..engine import obligation, require, require_all, fn_name, callers_of, call_args
from ..an import show, strip_generics, walk
from ..pat import ANY, V, match, call, fld, alt, contains
from ..pg import show_lit
from ..idioms import strip_casts, closure_returns
from ..prog import Site
from .commit import write_value, ctor_sites
from .vote import is_f, TERM, STATE, reset_fns
from .flow import call_blocks


@obligation("LOGGUARD.truncate_shape", ["C05", "C14"], floor=4, kind="guard + value shape (three-way case split)",
            why="a truncating append that keeps one stale entry, or drops one too many, breaks log matching at the seam")
def truncate_shape(cx):
    f = cx.fn("Unstable::truncate_and_append")
    g = cx.pg(f)
    a = cx.prog.A(f)
    first = lambda e: is_f(e, "Entry.index")

    def next_after_tail(l, want):
        # after == offset + len(entries)
        if l[0] != "is" or l[2] is not want or l[1][0] != "bin" or l[1][1] != "Eq":
            return False
        xs = l[1][2:4]
        return any(first(x) for x in xs) and any(x[0] == "bin" and x[1] == "Add" and contains(fld("Unstable.offset"), x) and "len" in show(x) for x in xs)

    def after_le_offset(l, want):
        # !(offset < after)  <=> after <= offset
        if l[0] != "is" or l[1][0] != "bin" or l[1][1] != "Lt":
            return False
        return is_f(l[1][2], "Unstable.offset") and first(l[1][3]) and l[2] is (not want)
    trunc = [c for c in cx.prog.all_calls if c.fn is f and c.data["callee"].endswith("Vec::truncate")]
    clears = [c for c in cx.prog.all_calls if c.fn is f and c.data["callee"].endswith("Vec::clear")]
    ext = [c for c in cx.prog.all_calls if c.fn is f and c.data["callee"].endswith("extend_from_slice")]
    cx.check(len(trunc) == 1 and len(clears) == 1 and len(ext) == 1, "sites", "truncate_and_append has one truncation, one clear and one extension site")
    for c in trunc:
        arg = strip_casts(call_args(cx, c)[1])
        ok = arg[0] == "bin" and arg[1] == "Sub" and first(arg[2]) and is_f(arg[3], "Unstable.offset")
        cx.check(ok, "truncate:position", "case 3 keeps exactly the entries below the first new index: truncate(ents[0].index - offset) (found %s)" % show(arg), c)
        require_all(cx, c, cx.site_key(c, "truncate:case"), "the in-place truncation happens only if the new entries neither continue the tail nor start at/below the offset",
                    [("after != offset + len", lambda l: next_after_tail(l, False)), ("after > offset", lambda l: after_le_offset(l, False))], kill=False)
    for c in clears:
        require_all(cx, c, cx.site_key(c, "clear:case"), "the unstable entries are replaced wholesale only if the new entries start at or below the offset",
                    [("after != offset + len", lambda l: next_after_tail(l, False)), ("after <= offset", lambda l: after_le_offset(l, True))], kill=False)
    for c in ext:
        rets = [bi for bi in sorted(a.reach) if f.body.blocks[bi]["term"]["k"] == "return"]
        ok = all(g.dominated_by_block((rb, "term"), lambda b, c=c: b == c.block) for rb in rets)
        cx.check(ok and call_args(cx, c)[1][0] == "param", cx.site_key(c, "extend"), "every case ends by appending exactly the given entries", c)
    # the direct-append case touches nothing else
    ok = True
    for c in trunc + clears:
        ok = ok and not g.guarded(c.at, lambda lits: any(next_after_tail(l, True) for l in lits))[0]
    cx.check(ok, "append-case", "when the entries continue the tail nothing is truncated")


@obligation("LOGGUARD.unstable_queries", ["C05", "C14"], floor=3, kind="return shape (decision table)",
            why="the unstable part answers term/first/last for the snapshot point and the unstable suffix; a wrong seam returns a stale or missing term")
def unstable_queries(cx):
    from ..idioms import decision_table, some_payload, NONE
    SNAP = "Unstable.snapshot"

    def snap_is(l, v):
        return l[0] == "in" and is_f(l[1], SNAP) and l[2] == frozenset([v])

    def table(name):
        return decision_table(cx.prog, cx.fn(name))

    def shown(t):
        return "; ".join("%s if %s" % (show(v)[:50], [show_lit(l)[:40] for l in lits]) for lits, v in t)[:400]
    # maybe_first_index() = Some(snapshot.index + 1) iff a snapshot is pending
    t = table("Unstable::maybe_first_index")
    ok = bool(t)
    for lits, v in t:
        p = some_payload(v)
        if any(snap_is(l, "Some") for l in lits):
            ok = ok and p is not None and match(("bin", "Add", alt(fld("SnapshotMetadata.index"), ("int", 1)), alt(fld("SnapshotMetadata.index"), ("int", 1))), p) is not None
        elif any(snap_is(l, "None") for l in lits):
            ok = ok and v == NONE
        else:
            ok = False
    cx.check(ok, "maybe_first_index", "maybe_first_index() = pending snapshot's index + 1, if any (found %s)" % shown(t))
    # maybe_last_index() = offset + len - 1 with unstable entries, else the pending snapshot's index, else None
    t = table("Unstable::maybe_last_index")
    ok = bool(t)
    kinds = set()
    for lits, v in t:
        p = some_payload(v)
        empty = any(l[0] == "in" and l[2] == frozenset([0]) and "len" in show(l[1]) for l in lits) or any(l[0] == "is" and l[2] is True and l[1][0] == "call" and l[1][1].endswith("is_empty") for l in lits)
        nonempty = any(l[0] == "notin" and 0 in l[2] and "len" in show(l[1]) for l in lits) or any(l[0] == "is" and l[2] is False and l[1][0] == "call" and l[1][1].endswith("is_empty") for l in lits)
        if nonempty:
            okv = p is not None and p[0] == "bin" and p[1] == "Sub" and p[3] == ("int", 1) and contains(fld("Unstable.offset"), p[2]) and "len" in show(p[2])
            kinds.add("entries")
        elif empty and any(snap_is(l, "Some") for l in lits):
            okv = p is not None and is_f(p, "SnapshotMetadata.index")
            kinds.add("snapshot")
        elif empty and any(snap_is(l, "None") for l in lits):
            okv = v == NONE
            kinds.add("none")
        else:
            okv = False
        ok = ok and okv
    cx.check(ok and kinds == {"entries", "snapshot", "none"}, "maybe_last_index", "maybe_last_index() = offset + len - 1 if there are unstable entries, else the pending snapshot's index (found %s)" % shown(t))
    # maybe_term(idx)
    t = table("Unstable::maybe_term")

    def below(l, want):
        return l[0] == "is" and l[2] is want and l[1][0] == "bin" and l[1][1] == "Lt" and l[1][2][0] == "param" and is_f(l[1][3], "Unstable.offset")
    def _is_last(e):
        # exactly the payload of maybe_last_index(): (maybe_last_index() as Some).0
        return e[0] == "vfield" and e[1][0] == "call" and e[1][1].endswith("maybe_last_index") and e[2].endswith("Option::Some")
    lo = [(lits, v) for lits, v in t if any(below(l, True) for l in lits)]
    hi = [(lits, v) for lits, v in t if any(below(l, False) for l in lits)]
    ok = bool(lo) and len(lo) + len(hi) == len(t)
    some_seen = False
    for lits, v in lo:
        p = some_payload(v)
        at_snap = any(l[0] == "is" and l[2] is True and l[1][0] == "bin" and l[1][1] == "Eq" and contains(fld("SnapshotMetadata.index"), l[1]) and any(x[0] == "param" for x in l[1][2:4]) for l in lits)
        if p is not None:
            ok = ok and is_f(p, "SnapshotMetadata.term") and at_snap and any(snap_is(l, "Some") for l in lits)
            some_seen = True
        else:
            ok = ok and v == NONE and not at_snap
    cx.check(ok and some_seen, "maybe_term:below", "below the offset only the pending snapshot's own index has a term (its term) (found %s)" % shown(lo))
    okA = bool(hi)
    some_seen = none_seen = False
    for lits, v in hi:
        p = some_payload(v)
        beyond = any(l[0] == "is" and l[2] is True and l[1][0] == "bin" and l[1][1] == "Lt" and l[1][3][0] == "param" and _is_last(l[1][2]) for l in lits)
        within = any(l[0] == "is" and l[2] is False and l[1][0] == "bin" and l[1][1] == "Lt" and l[1][3][0] == "param" and _is_last(l[1][2]) for l in lits)
        nolast = any(l[0] == "in" and l[2] == frozenset(["None"]) and l[1][0] == "call" and l[1][1].endswith("maybe_last_index") for l in lits)
        if p is not None:
            okA = okA and within and is_f(p, "Entry.term") and any(y[0] == "bin" and y[1] == "Sub" and y[2][0] == "param" and (is_f(y[3], "Unstable.offset") or contains(fld("Unstable.offset"), y[3])) for y in walk(p))
            some_seen = True
        else:
            okA = okA and v == NONE and (beyond or nolast)
            none_seen = none_seen or beyond
    cx.check(okA and some_seen and none_seen, "maybe_term:above", "at/above the offset the term is entries[idx - offset].term, and None beyond the last unstable index (found %s)" % shown(hi))


@obligation("VOTE.votes_cleared", ["C02", "C16", "C11"], floor=2, kind="must-pass-through",
            why="votes (or pre-votes) gathered in an earlier candidacy counted in a later one elect a leader without a quorum")
def votes_cleared(cx):
    def clears_votes(fn):
        rv = cx.fn("ProgressTracker::reset_votes")
        return call_blocks(fn, strip_generics(rv.key).split("::", 1)[1] if False else "ProgressTracker::reset_votes")
    rv = cx.fn("ProgressTracker::reset_votes")
    ok = any(c.fn is rv and is_f(call_args(cx, c)[0], "ProgressTracker.votes") for c in cx.prog.all_calls if c.data["callee"].endswith("::clear"))
    cx.check(ok, "reset_votes", "reset_votes() empties the vote map")
    targets = {}
    for k, (f, p) in reset_fns(cx).items():
        targets[f.key] = (f, "every role/term reset")
    for s in cx.prog.writes.get(STATE, []):
        if "stmt" in s.data and write_value(cx, s) == ("enum", "raft::raft::StateRole", "PreCandidate"):
            targets[s.fn.key] = (s.fn, "becoming pre-candidate")
    cx.check(len(targets) >= 2, "floor", "reset and pre-candidate transition were found")
    for f, what in targets.values():
        g = cx.pg(f)
        cb = call_blocks(f, "ProgressTracker::reset_votes")
        rets = [bi for bi in sorted(cx.prog.A(f).reach) if f.body.blocks[bi]["term"]["k"] == "return"]
        ok = bool(cb) and all(g.dominated_by_block((rb, "term"), lambda b: b in cb) for rb in rets)
        cx.check(ok, "clear:" + fn_name(f), "%s clears the recorded votes on every path" % what)
    rec = cx.fn("ProgressTracker::record_vote")
    callees = {sp.rsplit("::", 1)[-1] for sp, s in cx.prog.calls_out[rec.key] if s.kind == "call"}
    cx.check("or_insert" in callees and "insert" not in callees, "record_vote:first-wins", "record_vote keeps the first answer of a voter (a duplicate cannot flip it) (callees: %s)" % sorted(callees))


@obligation("READ.advance_shape", ["C08"], floor=2, kind="guard + value shape",
            why="releasing requests queued after the acknowledged context would answer reads whose quorum round has not completed")
def advance_shape(cx):
    f = cx.fn("ReadOnly::advance")
    pops = [c for c in cx.prog.all_calls if c.fn is f and c.data["callee"].endswith("VecDeque::pop_front")]
    a_ = cx.prog.A(f)
    SOME_ = "core::option::Option::Some"

    def position_call(e):
        """queue.iter().position(|x| x == ctx)"""
        if not (e[0] == "call" and e[1].endswith("::position") and len(e[2]) == 2 and e[2][1][0] == "closure"):
            return False
        if not any(is_f(x, "ReadOnly.read_index_queue") for x in walk(a_.init_expr(e[2][0][1]) if e[2][0][0] == "local" and a_.init_expr(e[2][0][1]) else e[2][0])):
            return False
        r = closure_returns(cx.prog, e[2][1][1]) or []
        return bool(r) and all(v[0] == "bin" and v[1] == "Eq" and any(x[0] == "upvar" for x in v[2:]) for _, v, _ in r)

    def searched_slot(e):
        """a local that is None, or Some(enumeration counter) assigned where the enumerated element equals ctx"""
        if e[0] != "phi" or len(e[3]) != 2:
            return False
        alts = list(e[3])
        if ("enum", "core::option::Option", "None") not in alts:
            return False
        sm = [x for x in alts if x[0] == "adt" and x[1] == SOME_]
        if len(sm) != 1:
            return False
        cnt = sm[0][2][0][1]
        if not (cnt[0] == "tfield" and cnt[2] == 0 and any(x[0] == "call" and "Enumerate" in x[1] and x[1].endswith("::next") for x in walk(cnt))):
            return False
        # the Some-assignment is guarded by `element == ctx`
        for d in a_.defs[e[1]]:
            if d[2] == "call":
                continue
            v = a_.expr_rvalue(d[3], (d[0], d[1]))
            if v[0] == "adt" and v[1] == SOME_:
                gl = cx.guard_lits(Site(f, d[0], d[1], "write"))
                if not any(l[0] == "is" and l[2] is True and ((l[1][0] == "bin" and l[1][1] == "Eq") or (l[1][0] == "call" and "PartialEq" in l[1][1])) and any(x[0] == "param" for x in walk(l[1])) and any(x[0] == "call" and x[1].endswith("::next") for x in walk(l[1])) for l in gl):
                    return False
        return True

    def ctx_slot(e):
        return position_call(e) or searched_slot(e)
    drains = [c for c in cx.prog.all_calls if c.fn is f and c.data["callee"].endswith("VecDeque::drain")]
    if not pops and len(drains) == 1:
        # second form: `queue.drain(..=position).map(|ctx| pending.remove(&ctx).unwrap()).collect()`
        c = drains[0]
        def found(l):
            return l[0] == "in" and l[2] == frozenset(["Some"]) and ctx_slot(l[1])
        require(cx, c, cx.site_key(c, "found"), "requests are released only if the acknowledged context is in the queue", found, kill=False)
        pos = [l[1] for l in cx.guard_lits(c) if found(l)]
        cx.check(bool(pos), "position", "the position of the context in the queue is looked up (iter().position(..) or an enumerate loop that stops at the match)")
        a = call_args(cx, c)
        okq = any(is_f(x, "ReadOnly.read_index_queue") for x in walk(a[0]))
        rg = a[1]
        okr = bool(pos) and rg[0] == "adt" and rg[1].endswith("RangeToInclusive::RangeToInclusive") and dict(rg[2]).get("end") == ("vfield", pos[0], SOME_, 0)
        cx.check(okq and okr, "range", "exactly the requests up to and including the acknowledged one are released (drain(..=position) of the queue)")
        okm = False
        for m_ in [x for x in cx.prog.all_calls if x.fn is f and x.data["callee"].endswith("Iterator::map")]:
            ma = call_args(cx, m_)
            if len(ma) == 2 and ma[1][0] == "closure":
                rr = closure_returns(cx.prog, ma[1][1]) or []
                okm = okm or (len(rr) == 1 and any(x[0] == "call" and x[1].endswith("HashMap::remove") and any(y[0] == "param" for y in walk(x[2][1])) for x in walk(rr[0][1])))
        cx.check(okm, "remove", "each released request is removed from the pending map by the drained context")
        cx.ok("pop", "the queue is drained up to the position found")
        return
    cx.check(len(pops) == 1, "pop", "advance pops the queue at one site")
    pos = None
    counter = None

    def enum_elem(e):
        """(queue.iter().enumerate().next() as Some).0.1 -> the `next` call"""
        if e[0] == "deref":
            e = e[1]
        if e[0] == "tfield" and e[2] == 1 and e[1][0] == "vfield" and e[1][1][0] == "call" and "Enumerate" in e[1][1][1] and e[1][1][1].endswith("::next"):
            return e[1]
        return None

    def matched(l):
        """the search slot folded away (the release sits on the path of the match itself): `element == ctx` holds"""
        if not (l[0] == "is" and l[2] is True):
            return None
        v = l[1]
        ops = v[2:] if v[0] == "bin" and v[1] == "Eq" else (v[2] if v[0] == "call" and "PartialEq" in v[1] else ())
        if not any(x[0] == "param" for o in ops for x in walk(o)):
            return None
        for o in ops:
            for x in walk(o):
                if enum_elem(x) is not None:
                    return enum_elem(x)
        return None
    for c in pops:
        def found(l):
            return (l[0] == "in" and l[2] == frozenset(["Some"]) and ctx_slot(l[1])) or matched(l) is not None
        require(cx, c, cx.site_key(c, "found"), "requests are released only if the acknowledged context is in the queue", found, kill=False)
        for l in cx.guard_lits(c):
            if l[0] == "in" and found(l):
                pos = l[1]
            elif matched(l) is not None:
                counter = ("tfield", matched(l), 0)
    cx.check(pos is not None or counter is not None, "position", "the position of the context in the queue is looked up (iter().position(..) or an enumerate loop that stops at the match)")
    # the loop runs 0..=position
    rng = [c for c in cx.prog.all_calls if c.fn is f and c.data["callee"].endswith("RangeInclusive::new")]
    ok = len(rng) == 1
    if ok:
        a = call_args(cx, rng[0])
        ok = a[0] == ("int", 0) and ((a[1][0] == "vfield" and a[1][1] == pos) or (counter is not None and a[1] == counter))
    cx.check(ok, "range", "exactly the requests up to and including the acknowledged one are released (0..=position)")
    rm = [c for c in cx.prog.all_calls if c.fn is f and c.data["callee"].endswith("HashMap::remove")]
    cx.check(len(rm) == 1 and contains(call("~VecDeque::pop_front", ANY), call_args(cx, rm[0])[1]), "remove", "each released request is removed from the pending map by the popped context")


WIRING = {
    "max_msg_size": "max_size_per_msg", "max_inflight": "max_inflight_msgs", "check_quorum": "check_quorum", "pre_vote": "pre_vote",
    "heartbeat_timeout": "heartbeat_tick", "election_timeout": "election_tick", "skip_bcast_commit": "skip_bcast_commit",
    "batch_append": "batch_append", "priority": "priority", "max_committed_size_per_ready": "max_committed_size_per_ready",
    "disable_proposal_forwarding": "disable_proposal_forwarding", "id": "id",
}


@obligation("CTOR.config_wiring", ["C13", "C16", "C10", "C08"], floor=12, kind="value shape (constructor literal)",
            why="every Config knob the properties quantify over must reach the field that enforces it (a swapped or dropped knob silently changes limits, timeouts or the read mode)")
def config_wiring(cx):
    cs = ctor_sites(cx, "raft::RaftCore")
    cx.check(len(cs) == 1, "ctor", "RaftCore is built by one constructor literal")
    for f, bi, si, st in cs:
        a = cx.prog.A(f)
        names = st["rv"]["fields"]
        vals = {n: a.expr_operand(o, (bi, si)) for n, o in zip(names, st["rv"]["ops"])}
        for fld_name, knob in WIRING.items():
            v = vals.get(fld_name)
            ok = v is not None and is_f(v, "Config." + knob)
            cx.check(ok, "wire:" + fld_name, "RaftCore.%s := config.%s (found %s)" % (fld_name, knob, show(v) if v else None))
        for fld_name, getter in (("min_election_timeout", "min_election_tick"), ("max_election_timeout", "max_election_tick")):
            v = vals.get(fld_name)
            ok = v is not None and v[0] == "call" and v[1].endswith("Config::" + getter)
            cx.check(ok, "wire:" + fld_name, "RaftCore.%s := config.%s() (found %s)" % (fld_name, getter, show(v) if v else None))
        v = vals.get("read_only")
        ok = v is not None and v[0] == "call" and v[1].endswith("ReadOnly::new") and is_f(v[2][0], "Config.read_only_option")
        cx.check(ok, "wire:read_only", "the read-only mode is config.read_only_option (found %s)" % (show(v) if v else None))
        v = vals.get("uncommitted_state")
        ok = v is not None and v[0] == "adt" and contains(fld("Config.max_uncommitted_size"), dict(v[2]).get("max_uncommitted_size", ("?",))) and dict(v[2]).get("uncommitted_size") == ("int", 0)
        cx.check(ok, "wire:uncommitted", "uncommitted_state := {max: config.max_uncommitted_size, size: 0} (found %s)" % (show(v)[:120] if v else None))
    # window size of every progress
    pn = cx.fn("Progress::new")
    for c in callers_of(cx, pn):
        a = call_args(cx, c)
        cx.check(is_f(a[1], "ProgressTracker.max_inflight"), cx.site_key(c, "window"), "a new progress gets the tracker's max_inflight as window size (found %s)" % show(a[1]), c)
    for f, bi, si, st in ctor_sites(cx, "tracker::ProgressTracker"):
        a = cx.prog.A(f)
        names = st["rv"]["fields"]
        v = a.expr_operand(st["rv"]["ops"][names.index("max_inflight")], (bi, si))
        cx.check(v[0] == "param", "tracker:max_inflight:" + fn_name(f), "the tracker stores the max_inflight it is given")
    rn = cx.fn("Raft::new")
    wc = [c for c in cx.prog.call_sites_of("ProgressTracker::with_capacity") if c.fn is rn]
    ok = len(wc) == 1 and is_f(call_args(cx, wc[0])[2], "Config.max_inflight_msgs")
    cx.check(ok, "tracker:from-config", "Raft::new builds the tracker with config.max_inflight_msgs")
    rl = ctor_sites(cx, "raft_log::RaftLog")
    for f, bi, si, st in rl:
        a = cx.prog.A(f)
        names = st["rv"]["fields"]
        v = a.expr_operand(st["rv"]["ops"][names.index("max_apply_unpersisted_log_limit")], (bi, si))
        cx.check(is_f(v, "Config.max_apply_unpersisted_log_limit"), "wire:apply-unpersisted", "RaftLog.max_apply_unpersisted_log_limit := config value (found %s)" % show(v))


@obligation("LOGGUARD.term_queries", ["C14", "C05", "C03", "C01"], floor=2, kind="return shape",
            why="match_term answering true for an index whose term cannot be read accepts an append without a real prefix match; commit_info advertising anything but (committed, term(committed)) lets a vote carry an uncommitted index as committed")
def term_queries(cx):
    from ..idioms import closure_returns
    # match_term(idx, term) == (term(idx) == Ok(term)); an unreadable term is NOT a match
    f = cx.fn("RaftLog::match_term")
    rets = cx.pg(f).returns()
    ok = False
    shown = "; ".join(show(v)[:120] for _, v, _ in rets)
    if len(rets) == 1 and not rets[0][0]:
        v = rets[0][1]
        if v[0] == "call" and v[1].endswith("::unwrap_or") and v[2][1] == ("bool", False):
            mp = v[2][0]
            if mp[0] == "call" and mp[1].endswith("::map") and mp[2][0][0] == "call" and mp[2][0][1].endswith("RaftLog::term") and mp[2][0][2][1][0] == "param" and mp[2][1][0] == "closure":
                caps = dict(mp[2][1][2])
                cr = closure_returns(cx.prog, mp[2][1][1])
                if cr and len(cr) == 1:
                    r = cr[0][1]
                    if r[0] == "bin" and r[1] == "Eq":
                        xs = r[2:4]
                        ok = any(x[0] == "param" for x in xs) and any(x[0] == "upvar" and caps.get(x[1], ("?",))[0] == "param" for x in xs)
        if v[0] == "call" and (v[1].endswith("::is_ok_and") or v[1].endswith("::is_some_and")):
            inner = v[2][0]
            if inner[0] == "call" and (inner[1].endswith("RaftLog::term") or inner[1].endswith("::ok")) and v[2][1][0] == "closure":
                caps = dict(v[2][1][2])
                cr = closure_returns(cx.prog, v[2][1][1])
                if cr and len(cr) == 1 and cr[0][1][0] == "bin" and cr[0][1][1] == "Eq":
                    xs = cr[0][1][2:4]
                    ok = any(x[0] == "param" for x in xs) and any(x[0] == "upvar" and caps.get(x[1], ("?",))[0] == "param" for x in xs)
    else:
        # match form: Ok(t) => t == term, Err(_) => false
        okp = bool(rets)
        for lits, v, _ in rets:
            is_ok = any(l[0] == "in" and l[2] == frozenset(["Ok"]) and l[1][0] == "call" and l[1][1].endswith("RaftLog::term") for l in lits)
            is_err = any(l[0] == "in" and l[2] == frozenset(["Err"]) and l[1][0] == "call" and l[1][1].endswith("RaftLog::term") for l in lits)
            if is_err:
                okp = okp and v == ("bool", False)
            elif is_ok:
                okp = okp and ((v[0] == "bin" and v[1] == "Eq" and any(x[0] == "param" for x in v[2:4]) and any(x[0] == "vfield" for x in v[2:4])) or v in (("bool", True), ("bool", False)) and any(l[0] == "is" and l[1][0] == "bin" and l[1][1] == "Eq" and (l[2] is (v == ("bool", True))) for l in lits))
            else:
                okp = False
        ok = okp
    cx.check(ok, "match_term", "match_term(idx, term) is true exactly when term(idx) is readable and equals term (found %s)" % shown)
    # commit_info() == (committed, term(committed))
    f = cx.fn("RaftLog::commit_info")
    rets = cx.pg(f).returns()
    ok = bool(rets)
    for lits, v, _ in rets:
        okv = v[0] == "tuple" and len(v[1]) == 2 and is_f(v[1][0], "RaftLog.committed")
        if okv:
            t = v[1][1]
            okv = any(x[0] == "call" and x[1].endswith("RaftLog::term") and is_f(x[2][1], "RaftLog.committed") for x in walk(t)) and t[0] in ("tfield", "vfield", "call")
        ok = ok and okv
    cx.check(ok, "commit_info", "commit_info() returns (committed, term(committed)) (found %s)" % "; ".join(show(v)[:100] for _, v, _ in rets))


@obligation("SNAP.caught_up_shape", ["C15", "C13", "C10"], floor=2, kind="return shape",
            why="leaving the Snapshot state before the follower has acknowledged the snapshot index resumes appends while a snapshot is outstanding; never leaving it stalls replication")
def caught_up_shape(cx):
    f = cx.fn("Progress::is_snapshot_caught_up")
    rets = cx.pg(f).returns()
    ok = bool(rets)
    seen = set()
    for lits, v, _ in rets:
        st = [l for l in lits if l[0] == "in" and is_f(l[1], "Progress.state")]
        if st and "Snapshot" not in st[0][2]:
            ok = ok and v == ("bool", False)
            seen.add("other")
        elif st and st[0][2] == frozenset(["Snapshot"]):
            # pending_snapshot <= matched   (any spelling of it)
            okv = v[0] == "bin" and ((v[1] == "Le" and is_f(v[2], "Progress.pending_snapshot") and is_f(v[3], "Progress.matched")) or (v[1] == "Ge" and is_f(v[2], "Progress.matched") and is_f(v[3], "Progress.pending_snapshot")))
            if not okv and v in (("bool", True), ("bool", False)):
                okv = any(l[0] == "is" and l[1][0] == "bin" and l[1][1] == "Lt" and is_f(l[1][2], "Progress.matched") and is_f(l[1][3], "Progress.pending_snapshot") and l[2] is (v == ("bool", False)) for l in lits)
            ok = ok and okv
            seen.add("snapshot")
        else:
            ok = False
    cx.check(ok and seen == {"other", "snapshot"}, "caught-up", "is_snapshot_caught_up() = (state == Snapshot && matched >= pending_snapshot) (found %s)" % "; ".join("%s if %s" % (show(v)[:60], [show_lit(l)[:50] for l in lits]) for lits, v, _ in rets)[:300])
    # its use: an acknowledgement in Snapshot state leaves that state only when caught up
    n = 0
    for c in callers_of(cx, f):
        g = cx.pg(c.fn)
        bp = call_blocks(c.fn, "Progress::become_probe")
        def cu(l, b):
            return l[0] == "is" and l[2] is b and l[1][0] == "call" and l[1][1].endswith("is_snapshot_caught_up")
        ok1, n1 = g.after_edge_must_pass(lambda lits: any(cu(l, True) for l in lits), lambda b: b in bp)
        cx.check(ok1 and n1 >= 1, cx.site_key(c, "leave-snapshot"), "a caught-up follower leaves the Snapshot state (become_probe)", c)
        # and only a caught-up one: an acknowledgement below the pending snapshot index must not end the Snapshot state
        for bpc in [x for x in cx.prog.call_sites_of("Progress::become_probe") if x.fn is c.fn]:
            gl = cx.guard_lits(bpc)
            if any(l[0] == "in" and is_f(l[1], "Progress.state") and l[2] == frozenset(["Snapshot"]) for l in gl):
                require(cx, bpc, cx.site_key(bpc, "leave-snapshot:only"), "in the Snapshot state an acknowledgement ends it only if is_snapshot_caught_up()", lambda l: cu(l, True), kill=False)
        n += 1
    cx.check(n >= 1, "floor", "is_snapshot_caught_up is consulted by the acknowledgement handler")


@obligation("MSG.continuity_shape", ["C05", "C13", "C20"], floor=1, kind="return shape",
            why="entries batched onto a queued append must continue it exactly; the emptiness tests guard two unwraps")
def continuity_shape(cx):
    f = cx.fn("util::is_continuous_ents")
    rets = cx.pg(f).returns()
    ok = bool(rets)
    both = 0
    for lits, v, _ in rets:
        ne_msg = any(l[0] == "is" and l[2] is False and l[1][0] == "call" and l[1][1].endswith("is_empty") and any(is_f(x, "Message.entries") for x in walk(l[1])) for l in lits)
        ne_ents = any(l[0] == "is" and l[2] is False and l[1][0] == "call" and l[1][1].endswith("is_empty") and l[1][2][0][0] == "param" for l in lits)
        # ... or the element itself was obtained: `match (msg.entries.last(), ents.first()) { (Some(l), Some(f)) => .. }`
        ne_msg = ne_msg or any(l[0] == "in" and l[2] == frozenset(["Some"]) and l[1][0] == "call" and (l[1][1].endswith("::last") or l[1][1].endswith("::first")) and any(is_f(x, "Message.entries") for x in walk(l[1])) for l in lits)
        ne_ents = ne_ents or any(l[0] == "in" and l[2] == frozenset(["Some"]) and l[1][0] == "call" and (l[1][1].endswith("::last") or l[1][1].endswith("::first")) and l[1][2] and l[1][2][0][0] == "param" for l in lits)
        uses_last = any(x[0] == "call" and x[1].endswith("::last") for x in walk(v))
        uses_first = any(x[0] == "call" and x[1].endswith("::first") for x in walk(v)) or any(x[0] == "index" for x in walk(v))
        if ne_msg and ne_ents:
            both += 1
            okv = v[0] == "bin" and v[1] == "Eq"
            if okv:
                l_, r_ = v[2], v[3]
                lastp1 = [x for x in (l_, r_) if x[0] == "bin" and x[1] == "Add" and ("int", 1) in x[2:4] and any(y[0] == "call" and y[1].endswith("::last") and any(is_f(z, "Message.entries") for z in walk(y)) for y in walk(x)) and any(is_f(y, "Entry.index") for y in walk(x))]
                first = [x for x in (l_, r_) if is_f(x, "Entry.index") and x not in lastp1]
                okv = len(lastp1) == 1 and len(first) == 1
            ok = ok and okv
        else:
            # an unwrap of last()/first() without the matching non-empty test would be a panic
            ok = ok and v == ("bool", True) and not uses_last and not uses_first
    cx.check(ok and both == 1, "continuous", "is_continuous_ents(msg, ents) = both non-empty ⇒ msg.entries.last().index + 1 == ents[0].index, else true (found %s)" % "; ".join(show(v)[:80] for _, v, _ in rets)[:260])


@obligation("LOGGUARD.range_check", ["C14", "C19", "C20"], floor=2, kind="return shape",
            why="range reads must be bounded by the LOGICAL first index (which a pending snapshot moves) and last index; a check against the stable storage alone serves stale or missing entries while a snapshot is pending")
def range_check(cx):
    f = cx.fn("RaftLog::must_check_outofbounds")
    rets = cx.pg(f).returns()

    def log_first(e):
        return e[0] == "call" and e[1].endswith("RaftLog::first_index")

    def below_first(l, want):
        return l[0] == "is" and l[2] is want and l[1][0] == "bin" and l[1][1] == "Lt" and l[1][2][0] == "param" and (log_first(l[1][3]) or log_first(cx.prog.inline_wrappers(l[1][3])))
    ok = bool(rets)
    kinds = set()
    for lits, v, _ in rets:
        if v[0] == "adt" and (v[1].endswith("Option::Some") or v[1].endswith("Result::Err")) and any(x[0] in ("enum", "adt") and str(x[1]).endswith("Compacted") or (x[0] == "enum" and x[2] == "Compacted") for x in walk(v)):
            ok = ok and any(below_first(l, True) for l in lits)
            kinds.add("compacted")
        elif v == ("enum", "core::option::Option", "None") or (v[0] == "adt" and v[1].endswith("Result::Ok")):
            upper = any(l[0] == "is" and l[2] is False and l[1][0] == "bin" and l[1][1] == "Lt" and l[1][3][0] == "param" and any(x[0] == "call" and x[1].endswith("RaftLog::last_index") for x in walk(l[1][2])) for l in lits)
            ok = ok and any(below_first(l, False) for l in lits) and upper
            kinds.add("ok")
        else:
            ok = False
    cx.check(ok and kinds == {"compacted", "ok"}, "bounds", "must_check_outofbounds(low, high): Compacted iff low < self.first_index() (the log's, not the store's); accepted only if also high <= last_index() + 1 (found %s)" % "; ".join("%s if %s" % (show(v)[:40], [show_lit(l)[:60] for l in lits]) for lits, v, _ in rets)[:400])
    # last_term() = term(last_index())
    f = cx.fn("RaftLog::last_term")
    rets = cx.pg(f).returns()
    ok = bool(rets)
    for lits, v, _ in rets:
        okv = any(x[0] == "call" and x[1].endswith("RaftLog::term") and len(x[2]) == 2 and x[2][1][0] == "call" and x[2][1][1].endswith("RaftLog::last_index") for x in walk(v)) and v[0] in ("vfield", "call")
        ok = ok and okv
    cx.check(ok, "last_term", "last_term() = term(last_index()) through the log's own term() (which knows a pending snapshot) (found %s)" % "; ".join(show(v)[:80] for _, v, _ in rets)[:200])


@obligation("CONFIG.election_range", ["C20", "C10"], floor=3, kind="return-path classification + value source",
            why="the randomized election timeout is drawn from [min_election_tick(), max_election_tick()); validate() must reject an empty EFFECTIVE range (the raw fields use 0 for 'default'), else constructing the node panics in the sampler")
def election_range(cx):
    v = cx.fn("Config::validate")
    g = cx.pg(v)

    def eff(name):
        return lambda e: e[0] == "call" and e[1].endswith("Config::" + name)
    mn, mx = eff("min_election_tick"), eff("max_election_tick")
    # every Ok return has passed `min_election_tick() < max_election_tick()` and `!(min_election_tick() < election_tick)`
    def nonempty(l):
        return l[0] == "is" and l[2] is True and l[1][0] == "bin" and l[1][1] == "Lt" and mn(l[1][2]) and mx(l[1][3])
    def not_below(l):
        return l[0] == "is" and l[2] is False and l[1][0] == "bin" and l[1][1] == "Lt" and mn(l[1][2]) and l[1][3][0] == "field" and l[1][3][2] == "Config.election_tick"
    okb = [bi for bi in sorted(cx.prog.A(v).reach) if v.body.blocks[bi]["term"]["k"] == "return"]
    # the Ok value is assigned in blocks; find assignments of Result::Ok to _0
    oks = []
    a = cx.prog.A(v)
    for bi in sorted(a.reach):
        for si, st in enumerate(v.body.blocks[bi]["stmts"]):
            if st.get("k") == "assign" and st["place"]["l"] == 0 and not st["place"]["p"]:
                e = a.expr_rvalue(st["rv"], (bi, si))
                if e[0] == "adt" and e[1].endswith("Result::Ok"):
                    oks.append((bi, si))
    cx.check(bool(oks), "ok-sites", "validate() has a success path")
    for at in oks:
        ok1 = g.guarded(at, lambda lits: any(nonempty(l) for l in lits))[0]
        ok2 = g.guarded(at, lambda lits: any(not_below(l) for l in lits))[0]
        cx.check(ok1, "range:nonempty", "validate() succeeds only if min_election_tick() < max_election_tick() (the effective bounds, through the getters)")
        cx.check(ok2, "range:not-below", "validate() succeeds only if min_election_tick() >= election_tick")
    # the other rejections (each keeps a later division, window or lease assumption from breaking)
    def lit_field_zero(name):
        return lambda l: l[0] == "notin" and l[1][0] == "field" and l[1][2] == "Config." + name and 0 in l[2]
    others = [
        ("id != 0", lit_field_zero("id")),
        ("heartbeat_tick != 0", lit_field_zero("heartbeat_tick")),
        ("max_inflight_msgs != 0", lit_field_zero("max_inflight_msgs")),
        ("election_tick > heartbeat_tick", lambda l: l[0] == "is" and l[1][0] == "bin" and l[1][1] == "Lt" and ((l[2] is True and l[1][2][0] == "field" and l[1][2][2] == "Config.heartbeat_tick" and l[1][3][0] == "field" and l[1][3][2] == "Config.election_tick") or (l[2] is False and l[1][2][0] == "field" and l[1][2][2] == "Config.election_tick" and l[1][3][0] == "field" and l[1][3][2] == "Config.heartbeat_tick"))),
        ("max_uncommitted_size >= max_size_per_msg", lambda l: l[0] == "is" and l[2] is False and l[1][0] == "bin" and l[1][1] == "Lt" and l[1][2][0] == "field" and l[1][2][2] == "Config.max_uncommitted_size" and l[1][3][0] == "field" and l[1][3][2] == "Config.max_size_per_msg"),
    ]
    for at in oks:
        for txt, pred in others:
            okx = g.guarded(at, lambda lits, pred=pred: any(pred(l) for l in lits))[0]
            cx.check(okx, "reject:" + txt, "validate() succeeds only if %s" % txt)
        # LeaseBased reads need check_quorum: on the success path either the option is not LeaseBased or check_quorum is set
        def lease_ok(l):
            return (l[0] == "in" and l[1][0] == "field" and l[1][2] == "Config.read_only_option" and "LeaseBased" not in l[2]) or (l[0] == "is" and l[2] is True and l[1][0] == "field" and l[1][2] == "Config.check_quorum") or \
                (l[0] == "is" and l[2] is False and l[1][0] == "bin" and l[1][1] == "Eq" and any(x[0] == "field" and x[2] == "Config.read_only_option" for x in l[1][2:4]))
        cx.check(g.guarded(at, lambda lits: any(lease_ok(l) for l in lits))[0], "reject:lease", "validate() succeeds only if lease-based reads come with check_quorum")
    # the getters: 0 means "derive from election_tick"
    for name, mult in (("min_election_tick", 1), ("max_election_tick", 2)):
        f = cx.fn("Config::" + name)
        rets = cx.pg(f).returns()
        okg = len(rets) == 2
        for lits, val, _ in rets:
            zero = any(l[0] == "in" and l[2] == frozenset([0]) and l[1][0] == "field" and l[1][2] == "Config." + name for l in lits)
            if zero:
                if mult == 1:
                    okg = okg and val[0] == "field" and val[2] == "Config.election_tick"
                else:
                    okg = okg and val[0] == "bin" and val[1] == "Mul" and ("int", 2) in val[2:4] and any(x[0] == "field" and x[2] == "Config.election_tick" for x in val[2:4])
            else:
                okg = okg and val[0] == "field" and val[2] == "Config." + name
        cx.check(okg, "getter:" + name, "%s() = the field, or %s when the field is 0" % (name, "election_tick" if mult == 1 else "2 * election_tick"))
    # the sampler draws from exactly those bounds
    for f, bi, si, st in ctor_sites(cx, "raft::RaftCore"):
        e = cx.prog.A(f).expr_rvalue(st["rv"], (bi, si))
        d = dict(e[2])
        okc = mn(d.get("min_election_timeout", ("?",))) and mx(d.get("max_election_timeout", ("?",)))
        cx.check(okc, "wiring", "the node's timeout range is (config.min_election_tick(), config.max_election_tick()) (found %s, %s)" % (show(d.get("min_election_timeout", ("?",)))[:50], show(d.get("max_election_timeout", ("?",)))[:50]))
