"""COMMIT — who may advance RaftLog.committed, and through which argument (DESIGN §5.1)."""
from ..engine import obligation, require, fn_name, call_args
from ..an import show
from ..pat import ANY, V, match, call, fld, alt
from ..pg import implies, show_lit
from ..idioms import term_is, as_min, msg_field, is_param_of_adt, strip_casts

COMMITTED = "RaftLog.committed"


def ctor_sites(cx, adt_suffix):
    """Sites that build a value of the ADT with a struct literal."""
    out = []
    for k, f in cx.facts.fns.items():
        if f.impl_trait == "core::clone::Clone":
            continue  # a derived clone copies an existing value, it does not initialise one
        a = cx.prog.an[k]
        for bi in sorted(a.reach):
            for si, st in enumerate(f.body.blocks[bi]["stmts"]):
                if st["k"] == "assign" and st["rv"].get("agg") == "adt" and st["rv"]["adt"].endswith(adt_suffix):
                    out.append((f, bi, si, st))
    return out


def write_value(cx, site):
    a = cx.prog.A(site.fn)
    d = site.data
    # path-dependent selector values on which every way of reaching the write agrees are used (as in call_args)
    try:
        g = cx.pg(site.fn)
    except Exception:
        g = None
    if g is not None and g.tracked and not g.truncated:
        if "stmt" in d:
            v = g.eval_at(site.at, lambda env: a.expr_rvalue(d["stmt"]["rv"], site.at, 0, env))
        else:
            v = g.eval_at(site.at, lambda env: a.expr_call(d["term"], site.at, 0, env))
        if v is not None:
            return v
    if "stmt" in d:
        return a.expr_rvalue(d["stmt"]["rv"], site.at)
    return a.expr_call(d["term"], site.at)


def not_less_than_old(v, old_key):
    """literal predicate: implies !(v < old)"""
    def acc(l):
        if l[0] != "is":
            return False
        e = l[1]
        if e[0] != "bin" or e[1] != "Lt":
            return False
        a, b = e[2], e[3]
        # !(v < old)
        if l[2] is False and a == v and b[0] == "field" and b[2] == old_key:
            return True
        # old < v
        if l[2] is True and b == v and a[0] == "field" and a[2] == old_key:
            return True
        return False
    return acc


@obligation("COMMIT.writers", ["C01", "C04", "C05", "C14", "C15"], floor=3, kind="who-may-write + guard",
            why="a writer of the commit index outside a monotone guard re-opens committed entries to truncation")
def commit_writers(cx):
    ws = cx.prog.writes.get(COMMITTED, [])
    cx.need(ws, "field RaftLog.committed (no writer found)")
    for s in ws:
        key = cx.site_key(s, "write:" + COMMITTED)
        if s.kind != "write" or "stmt" not in s.data:
            cx.bad(key, "RaftLog.committed is written by a call result / external callee: not a recognised writer idiom", s)
            continue
        v = write_value(cx, s)
        from ..idioms import as_max
        mx = as_max(v)
        if mx and any(x[0] == "field" and x[2] == COMMITTED for x in mx):
            cx.ok(key, "write `committed := %s` cannot decrease it (COMMIT.monotone)" % show(v), s, value=show(v))
            continue
        require(cx, s, key,
                "write `committed := %s` must be dominated by a guard implying it does not decrease (COMMIT.monotone)" % show(v),
                not_less_than_old(v, COMMITTED), detail={"value": show(v)})


def _callers_of(cx, fn):
    from ..an import strip_generics
    return [s for s in cx.prog.calls_in.get(strip_generics(fn.key), []) if s.kind == "call"]


def _args(cx, s):
    a = cx.prog.A(s.fn)
    return [a.expr_operand(o, s.at) for o in s.data["term"]["args"]]


def _in_msg_arm(cx, site, types, depth=2):
    """Is the site only reachable under msg_type in `types` (own guards, else all callers')? -> bool"""
    def acc(l):
        return l[0] == "in" and l[1][0] == "field" and l[1][2] == "Message.msg_type" and l[2] <= frozenset(types)
    g = cx.pg(site.fn)
    ok, _ = g.guarded(site.at, lambda lits: any(acc(l) for l in lits))
    if ok:
        return True
    # nested matches narrow the type step by step (`A | B | C => { follow(); match t { A => .., B => .., _ => here } }`)
    allv = cx.facts.variants("raft_proto::protos::eraftpb::MessageType")
    if allv:
        pv = g.possible_values(site.at, lambda e: e[0] == "field" and e[2] == "Message.msg_type", allv)
        if pv and pv <= frozenset(types) and len(pv) < len(allv):
            return True
    if depth <= 0:
        return False
    callers = _callers_of(cx, site.fn)
    if not callers:
        return False
    return all(_in_msg_arm(cx, c, types, depth - 1) for c in callers)


@obligation("COMMIT.advance", ["C01", "C03", "C04", "C05", "C07", "C15"], floor=6, kind="who-may-call + argument source",
            why="every raise of the commit index must be term-matched, prefix-matched, quorum-derived or sender-capped")
def commit_advance(cx):
    prog = cx.prog
    commit_to = cx.fn("RaftLog::commit_to")
    log_maybe_commit = cx.fn("RaftLog::maybe_commit")
    seen_idioms = set()

    # ---- direct callers of commit_to
    for s in _callers_of(cx, commit_to):
        key = cx.site_key(s, "call:commit_to")
        args = _args(cx, s)
        cx.need(len(args) == 2, "RaftLog::commit_to(self, to_commit) signature")
        to = args[1]
        f = s.fn
        # TERM-MATCHED: commit_to(p) with p a parameter, guarded by p > committed and TermIs(self, p, t), t a parameter
        if to[0] == "param":
            def acc_term(l, to=to):
                r = term_is(prog, l)
                return r is not None and r[1] == to and r[2][0] == "param" and r[2] != to
            ok = require(cx, s, key, "TERM-MATCHED: commit_to(%s) needs log.term(%s) == <term parameter> on every path" % (show(to), show(to)), acc_term)
            if ok:
                seen_idioms.add("TERM-MATCHED")
                _check_term_matched_callers(cx, f, to, seen_idioms)
            continue
        mn = as_min(to)
        if mn is not None:
            # PREFIX-MATCHED: commit_to(min(c, i + len(ents))) guarded by TermIs(self, i, t)
            a, b = mn
            cparam = a if a[0] == "param" else b
            other = b if cparam is a else a
            other = strip_casts(other)
            idx = None
            m1 = match(("bin", "Add", V("x"), V("y")), other)
            if m1:
                for x, y in ((m1["x"], m1["y"]), (m1["y"], m1["x"])):
                    x = strip_casts(x)
                    if y[0] == "param" and x[0] in ("call", "len") and "len" in show(x):
                        idx, ents = y, x
            if cparam[0] == "param" and idx is not None:
                def acc_prefix(l, idx=idx):
                    r = term_is(prog, l)
                    return r is not None and r[1] == idx and r[2][0] == "param"
                ok = require(cx, s, key, "PREFIX-MATCHED: commit_to(min(%s, %s + len)) needs the (index, term) anchor to match the log" % (show(cparam), show(idx)), acc_prefix,
                             kill=False,  # the append in between is part of the idiom (APPEND.* covers what it may touch)
                             detail={"arg": show(to)})
                if ok:
                    seen_idioms.add("PREFIX-MATCHED")
                    _check_prefix_callers(cx, f, cparam, idx)
                continue
            cx.bad(key, "commit_to(%s): min() of something other than (leader commit, anchor + len(entries))" % show(to), s, arg=show(to))
            continue
        base = msg_field(to, "commit")
        if base is not None and is_param_of_adt(f, base, "Message"):
            # HEARTBEAT: only in the MsgHeartbeat arm (sender caps the value, MSG.heartbeat.commit_cap)
            ok = _in_msg_arm(cx, s, {"MsgHeartbeat"})
            cx.check(ok, key, "HEARTBEAT: commit_to(m.commit) is sound only in the MsgHeartbeat arm, where the sender capped it by the follower's match index", s, arg=show(to))
            if ok:
                seen_idioms.add("HEARTBEAT")
            continue
        m2 = match(fld("SnapshotMetadata.index", V("meta")), to)
        if m2:
            meta = m2["meta"]
            def acc_snap(l, meta=meta, to=to):
                r = term_is(prog, l)
                return r is not None and r[1] == to and r[2] == ("field", meta, "SnapshotMetadata.term")
            ok = require(cx, s, key, "SNAP-MATCHED: commit_to(snapshot.index) needs log.term(snapshot.index) == snapshot.term", acc_snap, detail={"arg": show(to)})
            if ok:
                seen_idioms.add("SNAP-MATCHED")
            continue
        cx.bad(key, "unrecognised commit advance: commit_to(%s) matches none of TERM-MATCHED / PREFIX-MATCHED / HEARTBEAT / SNAP-MATCHED" % show(to), s, arg=show(to))

    # ---- a function that stores its index parameter into `committed` itself (the advancing half of commit_to spliced
    # into maybe_commit): the same TERM-MATCHED obligation, at the store
    for s in cx.prog.writes.get(COMMITTED, []):
        if s.fn is commit_to or "stmt" not in s.data or s.kind != "write":
            continue
        to = write_value(cx, s)
        if to[0] != "param" or s.fn.impl_adt is None or not s.fn.impl_adt.endswith("RaftLog"):
            continue
        key = cx.site_key(s, "store:committed")
        def acc_term2(l, to=to):
            r = term_is(prog, l)
            return r is not None and r[1] == to and r[2][0] == "param" and r[2] != to
        ok = require(cx, s, key, "TERM-MATCHED: committed := %s needs log.term(%s) == <term parameter> on every path" % (show(to), show(to)), acc_term2)
        if ok:
            seen_idioms.add("TERM-MATCHED")
            _check_term_matched_callers(cx, s.fn, to, seen_idioms)

    # ---- RaftLog::restore (SNAP-INSTALL)
    lrestore = cx.fn("RaftLog::restore")
    for s in _callers_of(cx, lrestore):
        key = cx.site_key(s, "call:RaftLog::restore")
        args = _args(cx, s)
        snap = args[1]
        def acc(l, snap=snap):
            if l[0] != "is" or l[2] is not False:
                return False
            m = match(("bin", "Lt", fld("SnapshotMetadata.index", V("m")), fld(COMMITTED)), l[1])
            return m is not None and snap in (m["m"], ) or (m is not None and m["m"][0] == "call" and snap in m["m"][2])
        ok = require(cx, s, key, "SNAP-INSTALL: RaftLog::restore(snap) needs !(snap.index < committed)", acc)
        if ok:
            seen_idioms.add("SNAP-INSTALL")

    # ---- load_state (RESTART)
    ls = cx.fn("Raft::load_state")
    for s in _callers_of(cx, ls):
        key = cx.site_key(s, "call:load_state")
        # the caller must be the constructor: it builds the Raft value it loads into
        builds = any(f is s.fn for f, _, _, _ in ctor_sites(cx, "raft::Raft"))
        cx.check(builds, key, "RESTART: load_state is called only while constructing the node (hard state read from storage)", s)
        if builds:
            seen_idioms.add("RESTART")

    for idiom in ("TERM-MATCHED", "LEADER-QUORUM", "MSG-TERM-MATCHED", "PREFIX-MATCHED", "HEARTBEAT", "SNAP-MATCHED", "SNAP-INSTALL"):
        cx.check(idiom in seen_idioms, "idiom:" + idiom, "the protocol needs at least one %s commit advance; none was recognised" % idiom)


def _check_term_matched_callers(cx, f, idx_param, seen_idioms):
    """f(index, term) commits index iff log.term(index)==term: callers must supply a sound pair."""
    prog = cx.prog
    # which parameter is the term?  (found again from the guard)
    for s in _callers_of(cx, f):
        key = cx.site_key(s, "call:" + fn_name(f))
        args = _args(cx, s)
        i = idx_param[1] - 1
        idx = args[i]
        others = [a for j, a in enumerate(args) if j not in (0, i)]
        term = others[0] if others else None
        # LEADER-QUORUM
        if match(("tfield", call("~ProgressTracker::maximal_committed_index", ANY), 0), idx) and term is not None and term[0] == "field" and term[2] == "RaftCore.term":
            cx.ok(key, "LEADER-QUORUM: (maximal_committed_index().0, self.term)", s, args=[show(idx), show(term)])
            seen_idioms.add("LEADER-QUORUM")
            continue
        # MSG-TERM-MATCHED: both from the same received message
        bi = idx[0] == "field" and idx[2].startswith("Message.") and idx[1]
        bt = term is not None and term[0] == "field" and term[2].startswith("Message.") and term[1]
        if bi and bt and bi == bt and is_param_of_adt(s.fn, bi, "Message"):
            pair = (idx[2].split(".")[1], term[2].split(".")[1])
            if pair == ("commit", "commit_term"):
                cx.ok(key, "MSG-TERM-MATCHED: (m.commit, m.commit_term) of one received message", s, args=[show(idx), show(term)])
                seen_idioms.add("MSG-TERM-MATCHED")
                # a LEADER advances its commit index only through the quorum computation, never on one peer's say-so
                from .vote import STATE, is_f as _isf
                def not_leader(l):
                    return (l[0] == "in" and _isf(l[1], STATE) and "Leader" not in l[2]) or (l[0] == "notin" and _isf(l[1], STATE) and "Leader" in l[2])
                require(cx, s, key + ":not-leader", "the commit info carried by a vote message is adopted only by a node that is not the leader", not_leader, kill=False)
                continue
            if pair == ("index", "term"):
                ok = _in_msg_arm(cx, s, {"MsgReadIndexResp"})
                cx.check(ok, key, "MSG-TERM-MATCHED: (m.index, m.term) is a commit pair only in the MsgReadIndexResp arm", s, args=[show(idx), show(term)])
                if ok:
                    seen_idioms.add("MSG-TERM-MATCHED")
                continue
        if idx[0] == "param" and term is not None and term[0] == "param" and s.fn.vis != "Public":
            # the pair is handed down by a private caller (`commit_by_vote(commit, commit_term)`): decided at its call sites
            ups = _callers_of(cx, s.fn)
            okp = bool(ups)
            for cc in ups:
                a2 = call_args(cx, cc)
                i2, t2 = a2[idx[1] - 1], a2[term[1] - 1]
                okp = okp and i2[0] == "field" and t2[0] == "field" and i2[1] == t2[1] and (i2[2], t2[2]) == ("Message.commit", "Message.commit_term") and is_param_of_adt(cc.fn, i2[1], "Message")
            if okp:
                cx.ok(key, "MSG-TERM-MATCHED: (m.commit, m.commit_term) of one received message, handed down by %s" % ", ".join(sorted({fn_name(c_.fn) for c_ in ups})), s, args=[show(idx), show(term)])
                seen_idioms.add("MSG-TERM-MATCHED")
                from .vote import STATE, is_f as _isf
                def not_leader2(l):
                    return (l[0] == "in" and _isf(l[1], STATE) and "Leader" not in l[2]) or (l[0] == "notin" and _isf(l[1], STATE) and "Leader" in l[2])
                require(cx, s, key + ":not-leader", "the commit info carried by a vote message is adopted only by a node that is not the leader", not_leader2, kill=False)
                continue
        cx.bad(key, "unrecognised (index, term) source for a term-matched commit: (%s, %s)" % (show(idx), show(term) if term else "?"), s)


def _check_prefix_callers(cx, f, cparam, idxparam):
    for s in _callers_of(cx, f):
        key = cx.site_key(s, "call:" + fn_name(f))
        args = _args(cx, s)
        names = [a[2].split(".")[1] if a[0] == "field" and a[2].startswith("Message.") else None for a in args]
        bases = {a[1] for a in args if a[0] == "field" and a[2].startswith("Message.")}
        ok = names[1:] == ["index", "log_term", "commit", "entries"] and len(bases) == 1 and is_param_of_adt(s.fn, list(bases)[0], "Message")
        cx.check(ok, key, "PREFIX-MATCHED caller passes (m.index, m.log_term, m.commit, m.entries) of one received message", s, args=[show(a) for a in args[1:]])
        if ok:
            ok2 = _in_msg_arm(cx, s, {"MsgAppend"})
            cx.check(ok2, key + ":arm", "the prefix-matched append is reached only in the MsgAppend arm", s)
