"""APPEND — who may change log contents (DESIGN §5.4)."""
from ..engine import obligation, require, require_all, fn_name, callers_of, call_args
from ..an import show, strip_generics, walk
from ..pat import ANY, V, match, call, fld, alt, contains
from ..idioms import term_is, is_param_of_adt, strip_casts
from .commit import write_value
from .vote import is_f, TERM, STATE


def stamp_fns(cx):
    """The leader's append function: stamps Entry.term := self.term."""
    out = {}
    for s in cx.prog.writes.get("Entry.term", []):
        if s.fn.crate == "raft" and s.kind == "write" and "stmt" in s.data:
            v = write_value(cx, s)
            if is_f(v, TERM):
                out[s.fn.key] = s.fn
    return out


def follower_append_fns(cx):
    """Functions that call RaftLog::append under a prev-(index, term) match."""
    out = {}
    for c in cx.prog.call_sites_of("RaftLog::append"):
        gl = cx.guard_lits(c)
        if any(term_is(cx.prog, l) for l in gl):
            out[c.fn.key] = c.fn
    return out


@obligation("APPEND.callgraph", ["C05", "C15"], floor=4, kind="who-may-call / must-not-reach",
            why="a leader must never truncate or rewrite its own log")
def callgraph(cx):
    prog = cx.prog
    log_append = cx.fn("RaftLog::append")
    taa = cx.fn("Unstable::truncate_and_append")
    cs = callers_of(cx, taa)
    cx.check(bool(cs) and all(c.fn is log_append for c in cs), "truncate_and_append", "Unstable::truncate_and_append is called only from RaftLog::append (callers: %s)" % sorted({fn_name(c.fn) for c in cs}))
    stamps = stamp_fns(cx)
    follow = follower_append_fns(cx)
    cx.need(stamps, "leader append function (Entry.term := self.term)")
    cx.need(follow, "follower append function (RaftLog::append under a term match)")
    for c in callers_of(cx, log_append):
        ok = c.fn.key in stamps or c.fn.key in follow
        cx.check(ok, cx.site_key(c, "call:RaftLog::append"), "RaftLog::append is called only from the prev-matched follower path or the leader's stamping function", c)
    ur = cx.fn("Unstable::restore")
    lr = cx.fn("RaftLog::restore")
    cs = callers_of(cx, ur)
    cx.check(bool(cs) and all(c.fn is lr for c in cs), "Unstable::restore", "Unstable::restore is called only from RaftLog::restore")
    cs = callers_of(cx, lr)
    cx.check(bool(cs) and len({c.fn.key for c in cs}) == 1, "RaftLog::restore", "RaftLog::restore has a single in-crate caller (the snapshot-install function): %s" % sorted({fn_name(c.fn) for c in cs}))
    # leader dispatcher: callees at call sites of Raft::step guarded by state == Leader
    step = cx.fn("Raft::step")
    g = cx.pg(step)
    leaders = []
    for sp, s in prog.calls_out[step.key]:
        if s.kind != "call" or sp not in prog.short:
            continue
        ok, _ = g.guarded(s.at, lambda lits: any(l[0] == "in" and is_f(l[1], STATE) and l[2] == frozenset(["Leader"]) for l in lits))
        if ok:
            leaders.append(sp)
    cx.check(bool(leaders), "leader-dispatcher", "Raft::step dispatches to a leader handler under state == Leader")
    forbidden = {strip_generics(k) for k in follow} | {strip_generics(lr.key), strip_generics(ur.key)}
    reach = prog.reachable_fns(leaders)
    hit = sorted(reach & forbidden)
    cx.check(not hit, "leader-no-truncate", "nothing reachable from the leader dispatcher (%s) reaches the truncating append or a log restore (found: %s)" % (", ".join(x.split("::")[-1] for x in leaders), hit),
             reachable_functions=len(reach))


@obligation("APPEND.prev_match", ["C01", "C03", "C05", "C06", "C15", "C20"], floor=1, kind="guard",
            why="the log-matching induction step: entries are accepted only onto a matching (prev index, prev term)")
def prev_match(cx):
    n = 0
    for f in follower_append_fns(cx).values():
        for c in cx.prog.call_sites_of("RaftLog::append"):
            if c.fn is not f:
                continue
            n += 1
            def acc(l):
                r = term_is(cx.prog, l)
                return r is not None and r[1][0] == "param" and r[2][0] == "param" and r[1] != r[2]
            require(cx, c, cx.site_key(c, "call:RaftLog::append"), "the follower-path append needs log.term(idx) == term for the (idx, term) it was given", acc, kill=False)
    cx.check(n >= 1, "floor", "a follower-path append exists")
    # an append that starts below the commit index never reaches the matching/append machinery: below the
    # commit index the follower may have compacted, and term() answers 0 / Compacted there (a conflict
    # "found" in that range is a fatal!)
    f = follower_append_fns(cx)
    for c in cx.prog.call_sites_of("RaftLog::maybe_append"):
        if c.fn.crate != "raft" or c.fn.key in f:
            continue
        args = call_args(cx, c)
        idx = args[1]
        def not_below_commit(l, idx=idx):
            return l[0] == "is" and l[2] is False and l[1][0] == "bin" and l[1][1] == "Lt" and l[1][2] == idx and l[1][3][0] == "field" and l[1][3][2] == "RaftLog.committed"
        require(cx, c, cx.site_key(c, "call:RaftLog::maybe_append"), "maybe_append(idx, ..) is reached only if !(idx < committed)", not_below_commit, kill=False)
        # a follower that asked for a snapshot keeps its log frozen until the snapshot arrives: the snapshot is
        # taken at the requested index and installed unconditionally, so anything appended (and acknowledged)
        # after the request would be wiped although the leader may have counted the ack
        def no_request_pending(l):
            return l[0] == "in" and l[1][0] == "field" and l[1][2] == "RaftCore.pending_request_snapshot" and l[2] == frozenset([0])
        require(cx, c, cx.site_key(c, "call:RaftLog::maybe_append:frozen"), "maybe_append is reached only while no snapshot request is pending", no_request_pending, kill=False)


@obligation("APPEND.conflict_suffix", ["C05", "C14"], floor=2, kind="value shape",
            why="an off-by-one at the seam drops or duplicates an entry; a later mismatch keeps a conflicting entry")
def conflict_suffix(cx):
    for f in follower_append_fns(cx).values():
        for c in cx.prog.call_sites_of("RaftLog::append"):
            if c.fn is not f:
                continue
            args = call_args(cx, c)
            sl = args[1]
            key = cx.site_key(c, "call:RaftLog::append")
            b = None
            for x in walk(sl):
                if x[0] == "adt" and x[1].endswith("RangeFrom::RangeFrom"):
                    st = strip_casts(dict(x[2]).get("start", ("?",)))
                    b = match(("bin", "Sub", call("~RaftLog::find_conflict", ANY, V("ents")), V("off")), st)
            ok = False
            if b:
                off = b["off"]
                mo = match(("bin", "Add", V("x"), V("y")), off)
                ok = bool(mo) and ("int", 1) in (mo["x"], mo["y"]) and any(z[0] == "param" for z in (mo["x"], mo["y"])) and b["ents"][0] == "param" and contains(b["ents"], sl)
            cx.check(ok, key, "the appended suffix is ents[conflict - (idx + 1) ..] with conflict = find_conflict(ents) over the same ents (found %s)" % show(sl)[:160], c, arg=show(sl)[:200])
    fc = cx.fn("RaftLog::find_conflict")
    rets = cx.pg(fc).returns()
    ok = bool(rets)
    nz = 0
    # iterator form: ents.iter().find(|e| !match_term(e.index, e.term)) -> Some(e) => e.index, None => 0
    def _search(x):
        """find(|e| !match) / position(|e| !match) / ents.get(take_while(|e| match).count()): (closure, negated?)"""
        if x[0] != "call":
            return None
        if x[1].endswith("::find") or x[1].endswith("::position"):
            cl = [a for a in x[2] if a[0] == "closure"]
            return (cl[0], True) if len(cl) == 1 else None
        if x[1].endswith("]>::get") and len(x[2]) == 2 and x[2][1][0] == "call" and x[2][1][1].endswith("::count"):
            tw = x[2][1][2][0] if x[2][1][2] else None
            if tw is not None and tw[0] == "call" and tw[1].endswith("::take_while"):
                cl = [a for a in tw[2] if a[0] == "closure"]
                return (cl[0], False) if len(cl) == 1 else None
        return None
    finds = {x for _, v, _ in rets for x in walk(v) if _search(x)} | {l[1] for lits, _, _ in rets for l in lits if l[0] == "in" and _search(l[1])}
    if finds:
        from ..idioms import closure_returns
        okf = len(finds) == 1
        for fd in finds:
            clo, negated = _search(fd)
            okc = False
            cr = closure_returns(cx.prog, clo[1])
            if cr and len(cr) == 1 and not cr[0][0]:
                r = cr[0][1]
                if negated and r[0] == "un" and r[1] == "Not":
                    r = r[2]
                elif negated:
                    r = None
                if r is not None:
                    m_ = match(call("~RaftLog::match_term", ANY, V("i"), V("t")), r)
                    okc = bool(m_) and is_f(m_["i"], "Entry.index") and is_f(m_["t"], "Entry.term") and m_["i"][1] == m_["t"][1]
            okf = okf and okc
            for lits, v, _ in rets:
                some = any(l[0] == "in" and l[1] == fd and l[2] == frozenset(["Some"]) for l in lits)
                none = any(l[0] == "in" and l[1] == fd and l[2] == frozenset(["None"]) for l in lits)
                if none:
                    okf = okf and v == ("int", 0)
                elif some:
                    okf = okf and v == ("field", ("tfield", ("vfield", fd, "core::option::Option::Some", 0), 0), "Entry.index") or (okf and is_f(v, "Entry.index") and any(x == fd for x in walk(v)))
                else:
                    okf = False
        cx.check(okf, "find_conflict", "find_conflict returns the index of the first entry e with !match_term(e.index, e.term), else 0 (iterator form)", return_paths=len(rets))
        return
    for lits, v, _ in rets:
        if v == ("int", 0):
            # fall-through: the iteration is exhausted
            if not any(l[0] == "in" and l[2] == frozenset(["None"]) for l in lits):
                ok = False
            continue
        nz += 1
        if not is_f(v, "Entry.index"):
            ok = False
            continue
        e = v[1]
        mism = any(l[0] == "is" and l[2] is False and match(call("~RaftLog::match_term", ANY, ("field", e, "Entry.index"), ("field", e, "Entry.term")), l[1]) for l in lits) or \
            any(l[0] == "is" and l[2] is False and (lambda r: r is not None and r[1] == ("field", e, "Entry.index") and r[2] == ("field", e, "Entry.term"))(term_is(cx.prog, ("is", l[1], True))) for l in lits)
        if not mism:
            ok = False
    # after a mismatch the search must stop: no way back into the iteration
    g = cx.pg(fc)
    next_blocks = {c.block for sp, c in cx.prog.calls_out[fc.key] if c.kind == "call" and sp.endswith("::next")}
    for n in range(len(g.nodes)):
        for m, lits in g.edges[n] or []:
            if any(l[0] == "is" and l[2] is False and l[1][0] == "call" and (l[1][1].endswith("match_term") or l[1][1].endswith("is_ok_and") or l[1][1].endswith("unwrap_or")) for l in lits):
                seen, work = set(), [m]
                while work:
                    x = work.pop()
                    if x in seen:
                        continue
                    seen.add(x)
                    work.extend(y for y, _ in g.edges[x] or [])
                if any(g.nodes[x][0] in next_blocks for x in seen):
                    ok = False
    cx.check(ok and nz >= 1, "find_conflict", "find_conflict returns the index of the first entry e with !match_term(e.index, e.term), else 0", return_paths=len(rets))


@obligation("APPEND.stamp", ["C05", "C13"], floor=2, kind="value shape",
            why="a leader entry with a foreign term or a non-contiguous index")
def stamp(cx):
    for f in stamp_fns(cx).values():
        a = cx.prog.A(f)
        ws_t = [s for s in cx.prog.writes.get("Entry.term", []) if s.fn is f]
        ws_i = [s for s in cx.prog.writes.get("Entry.index", []) if s.fn is f]
        cx.check(len(ws_t) >= 1 and len(ws_i) >= 1, "stamp:" + fn_name(f), "the leader's append function stamps both term and index")
        for s in ws_t:
            v = write_value(cx, s)
            cx.check(is_f(v, TERM), cx.site_key(s, "write:Entry.term"), "entry term := self.term (found %s)" % show(v), s, value=show(v))
        for s in ws_i:
            v = write_value(cx, s)
            has_last = contains(call("~RaftLog::last_index", ANY), v)
            has_one = contains(("int", 1), v)
            only_add = all(x[1] == "Add" for x in walk(v) if x[0] == "bin")
            has_ctr = any(x[0] in ("tfield",) and x[2] == 0 for x in walk(v)) or any(
                x[0] == "phi" and ("int", 0) in x[3] and all(y == ("int", 0) or (y[0] == "bin" and y[1] == "Add" and ("int", 1) in y[2:]) for y in x[3]) for x in walk(v))
            from ..idioms import is_last_index_plus_position
            cx.check((has_last and has_one and only_add and has_ctr) or is_last_index_plus_position(cx.prog, s.fn, v), cx.site_key(s, "write:Entry.index"), "entry index := last_index + 1 + i (found %s)" % show(v), s, value=show(v))
            # same object gets both stamps
            tv = [write_value(cx, t) for t in ws_t]
        # the stamped slice is what is appended, after the stamping loop
        for c in cx.prog.call_sites_of("RaftLog::append"):
            if c.fn is f:
                args = call_args(cx, c)
                cx.check(args[1][0] == "param", cx.site_key(c, "call:RaftLog::append"), "the leader appends exactly the slice it stamped (its parameter)", c, arg=show(args[1]))
