"""MATCH / PERSIST / QUORUM.source — what a quorum index may count (DESIGN §5.3)."""
from ..engine import obligation, require, require_all, fn_name, callers_of, call_args
from ..an import show, strip_generics, walk
from ..pat import ANY, V, match, call, fld, alt, contains
from ..pg import show_lit
from ..idioms import term_is, is_param_of_adt, STORE_TERM_CALL
from .commit import write_value, ctor_sites, _in_msg_arm
from .vote import is_f, STATE

MATCHED = "Progress.matched"
PERSISTED = "RaftLog.persisted"


def lt_true(a_pred, b_pred):
    def acc(l):
        if l[0] != "is" or l[2] is not True:
            return False
        e = l[1]
        return e[0] == "bin" and e[1] == "Lt" and a_pred(e[2]) and b_pred(e[3])
    return acc


def lt_false(a_pred, b_pred):
    def acc(l):
        if l[0] != "is" or l[2] is not False:
            return False
        e = l[1]
        return e[0] == "bin" and e[1] == "Lt" and a_pred(e[2]) and b_pred(e[3])
    return acc


def eq(x):
    return lambda e: e == x


def isf(key):
    return lambda e: is_f(e, key)


def update_fns(cx):
    out = {}
    for s in cx.prog.writes.get(MATCHED, []):
        if s.kind == "write" and "stmt" in s.data:
            v = write_value(cx, s)
            if v[0] == "param":
                out[s.fn.key] = (s.fn, v)
    return out


@obligation("MATCH.writers", ["C04", "C06"], floor=3, kind="who-may-write + guard + value",
            why="counting the leader's own unwritten tail (last_index instead of persisted) towards the quorum")
def match_writers(cx):
    ws = cx.prog.writes.get(MATCHED, [])
    cx.need(ws, "field Progress.matched")
    kinds = set()
    for s in ws:
        key = cx.site_key(s, "write:" + MATCHED)
        if s.kind != "write" or "stmt" not in s.data:
            cx.bad(key, "Progress.matched written by a call result / external callee", s)
            continue
        v = write_value(cx, s)
        if v == ("int", 0):
            cx.ok(key, "reset idiom: matched := 0", s, value="0")
            kinds.add("reset")
        elif v[0] == "param":
            ok = require(cx, s, key, "update idiom: `matched := %s` only if matched < %s" % (show(v), show(v)), lt_true(isf(MATCHED), eq(v)), detail={"value": show(v)})
            if ok:
                kinds.add("update")
        elif is_f(v, PERSISTED):
            def self_only(l):
                if l[0] != "is" or l[2] is not True:
                    return False
                b = match(("bin", "Eq", V("a"), V("b")), l[1])
                return bool(b) and (is_f(b["a"], "RaftCore.id") or is_f(b["b"], "RaftCore.id"))
            # the node's own progress: reached under `id == self.id` while iterating, or looked up by self.id
            pl = s.data["stmt"]["place"]
            base = cx.prog.A(s.fn).expr_place({"l": pl["l"], "p": pl["p"][:-1]}, s.at)
            own_lookup = any(x[0] == "call" and x[1].rsplit("::", 1)[-1] in ("get_mut", "get") and "ProgressTracker" in x[1] and len(x[2]) == 2 and is_f(x[2][1], "RaftCore.id") for x in walk(base))
            if own_lookup:
                cx.ok(key, "self-persist idiom: `matched := raft_log.persisted` on the progress looked up by self.id", s, value=show(v))
                ok = True
            else:
                ok = require(cx, s, key, "self-persist idiom: `matched := raft_log.persisted` only for the node's own progress (id == self.id)", self_only, kill=False, detail={"value": show(v)})
            if ok:
                kinds.add("self-persist")
        else:
            cx.bad(key, "unrecognised writer of Progress.matched: value %s" % show(v), s, value=show(v))
    for f, bi, si, st in ctor_sites(cx, "progress::Progress"):
        names = st["rv"]["fields"]
        a = cx.prog.A(f)
        v = a.expr_operand(st["rv"]["ops"][names.index("matched")], (bi, si))
        cx.check(v == ("int", 0), "ctor:" + fn_name(f), "a fresh Progress starts with matched = 0 (found %s)" % show(v))
    for k in ("reset", "update", "self-persist"):
        cx.check(k in kinds, "idiom:" + k, "the protocol needs a %s write of matched; none was recognised" % k)


def _receiver_id(e):
    """e designates prs[x] -> x"""
    for getter in ("~ProgressTracker::get_mut", "~ProgressTracker::get"):
        for p in (call("~Option::unwrap", call(getter, ANY, V("id"))),
                  ("vfield", call(getter, ANY, V("id")), "core::option::Option::Some", 0),
                  call("~Option::expect", call(getter, ANY, V("id")), ANY)):
            b = match(p, e)
            if b:
                return b["id"]
    return None


@obligation("MATCH.advance", ["C04", "C06", "C15"], floor=3, kind="who-may-call + argument source",
            why="a match index may rise only on a non-rejecting append response, on the leader's own persistence notice, or after a snapshot install")
def match_advance(cx):
    ups = update_fns(cx)
    cx.need(ups, "update idiom function (writer of Progress.matched from a parameter)")
    kinds = set()
    for k, (fn, p) in ups.items():
        for c in callers_of(cx, fn):
            key = cx.site_key(c, "call:" + fn_name(fn))
            args = call_args(cx, c)
            recv, n = args[0], args[p[1] - 1]
            rid = _receiver_id(recv)
            if is_f(n, "Message.index") and is_param_of_adt(c.fn, n[1], "Message"):
                m = n[1]
                ok_recv = rid == ("field", m, "Message.from")
                def not_reject(l, m=m):
                    return l[0] == "is" and l[2] is False and l[1] == ("field", m, "Message.reject")
                ok = require(cx, c, key, "ACK: maybe_update(m.index) only for a non-rejecting response", not_reject)
                cx.check(ok_recv, key + ":receiver", "ACK: the updated progress is that of the sender (prs[m.from]); found %s" % show(recv), c)
                arm = _in_msg_arm(cx, c, {"MsgAppendResponse"})
                cx.check(arm, key + ":arm", "ACK: reached only in the MsgAppendResponse arm", c)
                if ok and ok_recv and arm:
                    kinds.add("ACK")
            elif n[0] == "param":
                ok_recv = rid is not None and is_f(rid, "RaftCore.id")
                def persisted(l, n=n):
                    return l[0] == "is" and l[2] is True and match(call("~RaftLog::maybe_persist", ANY, n, ANY), l[1]) is not None
                def leader(l):
                    return l[0] == "in" and is_f(l[1], "RaftCore.state") and l[2] == frozenset(["Leader"])
                ok = require_all(cx, c, key, "SELF-PERSIST: the leader's own match rises only after raft_log.maybe_persist(index, term) succeeded, while leader",
                                 [("maybe_persist(index, ..) returned true", persisted), ("state == Leader", leader)], kill=False)
                cx.check(ok_recv, key + ":receiver", "SELF-PERSIST: the updated progress is the node's own (prs[self.id]); found %s" % show(recv), c)
                if ok and ok_recv:
                    kinds.add("SELF-PERSIST")
            elif match(("bin", "Sub", fld("Progress.next_idx", V("pr")), ("int", 1)), n):
                b = match(("bin", "Sub", fld("Progress.next_idx", V("pr")), ("int", 1)), n)
                ok_recv = rid is not None and is_f(rid, "RaftCore.id") and b["pr"] == recv
                g = cx.pg(c.fn)
                def is_restore(bi, c=c):
                    t = c.fn.body.blocks[bi]["term"]
                    return t["k"] == "call" and "const" in t["func"] and "fn" in t["func"]["const"] and strip_generics(t["func"]["const"]["fn"]["path"]).endswith("confchange::restore::restore")
                ok = g.dominated_by_block(c.at, is_restore)
                cx.check(ok and ok_recv, key, "SNAPSHOT-SELF: maybe_update(next_idx - 1) on prs[self.id] right after the configuration was restored from a snapshot", c, arg=show(n))
                if ok and ok_recv:
                    kinds.add("SNAPSHOT-SELF")
            else:
                cx.bad(key, "unrecognised source of a match-index advance: %s on %s" % (show(n), show(recv)), c, arg=show(n))
    for k in ("ACK", "SELF-PERSIST"):
        cx.check(k in kinds, "idiom:" + k, "the protocol needs a %s match advance; none was recognised" % k)
    # the leader's append path must not raise its own match (etcd's MaybeUpdate(lastIndex) in appendEntry)
    stamps = {s.fn.key: s.fn for s in cx.prog.writes.get("Entry.term", []) if s.fn.crate == "raft" and s.kind == "write"}
    for f in stamps.values():
        ms = cx.prog.mod[f.key]
        cx.check(MATCHED not in ms, "no-self-ack:" + fn_name(f), "the leader's append function (%s) must not reach a write of Progress.matched" % fn_name(f))


@obligation("QUORUM.source", ["C04", "C11"], floor=2, kind="value shape",
            why="an optimistic index (next_idx) instead of matched commits unacknowledged entries")
def quorum_source(cx):
    cl = [f for k, f in cx.facts.fns.items() if f.is_closure and "AckedIndexer" in k and "Progress" in k]
    cx.need(cl, "closure of `impl AckedIndexer for ProgressMap`")
    from ..idioms import closure_returns
    for f in cl:
        rets = closure_returns(cx.prog, strip_generics(f.key)) or []
        ok = bool(rets)
        shape = None
        for lits, v, _ in rets:
            shape = v
            ok = ok and v[0] == "adt" and v[1].endswith("quorum::Index::Index") and dict(v[2]).get("index", ("?",))[0] == "field" and dict(v[2])["index"][2] == MATCHED and is_f(dict(v[2]).get("group_id", ("?",)), "Progress.commit_group_id")
        cx.check(ok, "acked_index", "acked_index(v) = Index{index: progress[v].matched, group_id: progress[v].commit_group_id}", shape=show(shape) if shape else None)
    mci = cx.fn("ProgressTracker::maximal_committed_index")
    rets = cx.pg(mci).returns()
    ok = bool(rets)
    for lits, v, _ in rets:
        shape = v
        ok = ok and match(call("~joint::Configuration::committed_index", fld("Configuration.voters", fld("ProgressTracker.conf")), fld("ProgressTracker.group_commit"), fld("ProgressTracker.progress")), v) is not None
    cx.check(ok, "maximal_committed_index", "maximal_committed_index() = conf.voters.committed_index(group_commit, &progress)", shape=show(shape))


def _first_update_index(e):
    """phi(unstable.offset | unstable.snapshot.index)"""
    if e[0] != "phi":
        return False
    vals = set(e[3])
    has_off = any(is_f(x, "Unstable.offset") for x in vals)
    has_snap = any(is_f(x, "SnapshotMetadata.index") and contains(fld("Unstable.snapshot"), x) for x in vals)
    return has_off and has_snap and len(vals) == 2


@obligation("COMMIT.reevaluate", ["C10", "C04"], floor=2, kind="pairing (after-edge must-pass)",
            why="the commit index only moves when the leader recomputes it: every event that raises a match index (a follower's ack, the leader's own persistence notice) must be followed by that recomputation, whatever else is tested alongside")
def commit_reevaluate(cx):
    n = 0
    mc_fn = cx.fn("Raft::maybe_commit")
    for c in cx.prog.call_sites_of("Progress::maybe_update"):
        f = c.fn
        from ..engine import _clause_holds
        if _clause_holds(cx, c, lambda l: l[0] == "in" and is_f(l[1], STATE) and l[2] == frozenset(["Follower"]), False)[0]:
            continue   # a follower's own bookkeeping (the snapshot install), not a leader-side event
        g = cx.pg(f)
        mcb = {x.block for x in cx.prog.call_sites_of(cx.sfx("Raft::maybe_commit")) if x.fn is f}
        def advanced(l):
            return l[0] == "is" and l[2] is True and l[1][0] == "call" and l[1][1].endswith("Progress::maybe_update")
        def advanced_via_match(l):
            # `let updated = match prs.get_mut(id) { Some(pr) => pr.maybe_update(i), None => false }; if updated ..`
            return l[0] == "is" and l[2] is True and any(x[0] == "call" and x[1].endswith("Progress::maybe_update") for x in walk(l[1]))
        ok, ne = g.after_edge_must_pass(lambda lits: any(advanced(l) or advanced_via_match(l) for l in lits), lambda b: b in mcb)
        cx.check(ok and ne >= 1 and bool(mcb), cx.site_key(c, "recompute"), "whenever maybe_update() advanced a match index in %s, maybe_commit() is evaluated" % fn_name(f), c)
        n += 1
    cx.check(n >= 2, "floor", "the acknowledgement handler and the persistence notice were found")


@obligation("PERSIST.writers", ["C04", "C07", "C14", "C20"], floor=4, kind="who-may-write + guard + value",
            why="a stale persistence notice must not cover entries that were since replaced; truncation and restore must lower the mark")
def persist_writers(cx):
    ws = cx.prog.writes.get(PERSISTED, [])
    cx.need(ws, "field RaftLog.persisted")
    kinds = set()
    for s in ws:
        key = cx.site_key(s, "write:" + PERSISTED)
        if s.kind != "write" or "stmt" not in s.data:
            cx.bad(key, "RaftLog.persisted written by a call result / external callee", s)
            continue
        v = write_value(cx, s)
        gl = cx.guard_lits(s)
        # `persisted = min(persisted, x)` is the guarded lowering `if x < persisted { persisted = x }`
        by_min = False
        from ..idioms import as_min
        mn = as_min(v)
        if mn and sum(1 for x in mn if is_f(x, PERSISTED)) == 1:
            v = [x for x in mn if not is_f(x, PERSISTED)][0]
            by_min = True
        if v[0] == "param" and not by_min:
            has_term = any(term_is(cx.prog, l, STORE_TERM_CALL) for l in gl)
            if has_term:
                def _snapish(x):
                    return contains(fld("Unstable.snapshot"), x) or contains(fld("Unstable.snapshot"), cx.prog.inline_wrappers(x)) or any(y[0] == "call" and y[1].endswith("::pending_snapshot") for y in walk(x))

                def below_first(l, v=v):
                    if not (l[0] == "is" and l[2] is True and l[1][0] == "bin" and l[1][1] == "Lt" and l[1][2] == v):
                        return False
                    if _first_update_index(l[1][3]) or _first_update_index(cx.prog.inline_wrappers(l[1][3])):
                        return True
                    # the two cases tested on separate paths: against the pending snapshot's index where there is one,
                    # against unstable.offset where there is none (see no_snapshot_or_below below)
                    x = l[1][3]
                    return is_f(x, "Unstable.offset") or (is_f(x, "SnapshotMetadata.index") and _snapish(x))

                def no_snapshot_or_below(l, v=v):
                    if l[0] == "in" and l[2] == frozenset(["None"]) and _snapish(l[1]):
                        return True
                    if not (l[0] == "is" and l[2] is True and l[1][0] == "bin" and l[1][1] == "Lt" and l[1][2] == v):
                        return False
                    x = l[1][3]
                    return _first_update_index(x) or _first_update_index(cx.prog.inline_wrappers(x)) or (is_f(x, "SnapshotMetadata.index") and _snapish(x))
                def term_ok(l, v=v):
                    r = term_is(cx.prog, l, STORE_TERM_CALL)
                    return r is not None and r[1] == v and r[2][0] == "param"
                ok = require_all(cx, s, key, "RAISE-ENTRIES: persisted := index only if index > persisted, index < first not-yet-written update, store.term(index) == term",
                                 [("index > persisted", lt_true(isf(PERSISTED), eq(v))),
                                  ("index < (unstable snapshot index | unstable.offset)", below_first),
                                  ("index < unstable.offset suffices only where no snapshot is pending", no_snapshot_or_below),
                                  ("store.term(index) == term", term_ok)], detail={"value": show(v)})
                if ok:
                    kinds.add("RAISE-ENTRIES")
            else:
                ok = require_all(cx, s, key, "RAISE-SNAP: persisted := index only if index > persisted, index <= committed, index < unstable.offset",
                                 [("index > persisted", lt_true(isf(PERSISTED), eq(v))),
                                  ("!(index > committed)", lt_false(isf("RaftLog.committed"), eq(v))),
                                  ("index < unstable.offset", lt_true(eq(v), isf("Unstable.offset")))], detail={"value": show(v)})
                if ok:
                    kinds.add("RAISE-SNAP")
        elif match(("bin", "Sub", call("~RaftLog::find_conflict", ANY, ANY), ("int", 1)), v):
            if by_min:
                cx.ok(key, "LOWER-CONFLICT: persisted := min(persisted, conflict - 1)", s, value=show(v))
                ok = True
            else:
                ok = require(cx, s, key, "LOWER-CONFLICT: persisted := conflict - 1 only if persisted > conflict - 1", lt_true(eq(v), isf(PERSISTED)), kill=False, detail={"value": show(v)})
            if ok:
                kinds.add("LOWER-CONFLICT")
        elif is_f(v, "RaftLog.committed"):
            if by_min:
                cx.ok(key, "LOWER-RESTORE: persisted := min(persisted, committed)", s, value=show(v))
                ok = True
            else:
                ok = require(cx, s, key, "LOWER-RESTORE: persisted := committed only if persisted > committed", lt_true(isf("RaftLog.committed"), isf(PERSISTED)), detail={"value": show(v)})
            if ok:
                kinds.add("LOWER-RESTORE")
        else:
            cx.bad(key, "unrecognised writer of RaftLog.persisted: value %s" % show(v), s, value=show(v))
    # the truncating append must be followed by the lowering; the restore must contain one
    for fn_suffix, kind, callee in (("RaftLog::maybe_append", "LOWER-CONFLICT", "RaftLog::append"), ("RaftLog::restore", "LOWER-RESTORE", "Unstable::restore")):
        f = cx.fn(fn_suffix)
        has_call = any(c.fn is f for c in cx.prog.call_sites_of(callee))
        has_lower = any(s.fn is f for s in ws)
        cx.check(has_call and has_lower, "pair:" + kind, "%s both truncates/resets the unstable log and lowers `persisted`" % fn_name(f))
    for f, bi, si, st in ctor_sites(cx, "raft_log::RaftLog"):
        names = st["rv"]["fields"]
        v = cx.prog.A(f).expr_operand(st["rv"]["ops"][names.index("persisted")], (bi, si))
        ok = contains(call("~Storage::last_index", ANY), v)
        cx.check(ok, "ctor:" + fn_name(f), "a fresh RaftLog starts with persisted = store.last_index() (found %s)" % show(v))
    for k in ("RAISE-ENTRIES", "RAISE-SNAP", "LOWER-CONFLICT", "LOWER-RESTORE"):
        cx.check(k in kinds, "idiom:" + k, "the protocol needs a %s write of persisted; none was recognised" % k)


@obligation("PERSIST.callers", ["C04", "C06", "C07"], floor=3, kind="who-may-call + type fact",
            why="'persisted' may only be learnt from the application's notifications about Readys it was handed")
def persist_callers(cx):
    for raise_fn, notif in (("RaftLog::maybe_persist", "Raft::on_persist_entries"), ("RaftLog::maybe_persist_snap", "Raft::on_persist_snap")):
        f = cx.fn(raise_fn)
        nf = cx.fn(notif)
        cs = callers_of(cx, f)
        cx.check(bool(cs) and all(c.fn is nf for c in cs), "callers:" + fn_name(f), "%s is called only from %s" % (fn_name(f), fn_name(nf)))
        for c in cs:
            args = call_args(cx, c)
            cx.check(all(a[0] == "param" for a in args[1:]), cx.site_key(c, "call:" + fn_name(f)), "%s forwards its own arguments" % fn_name(nf), c, args=[show(a) for a in args[1:]])
        ncs = callers_of(cx, nf)
        for c in ncs:
            key = cx.site_key(c, "call:" + fn_name(nf))
            args = call_args(cx, c)
            def traced(a_):
                if contains(fld("RawNode.records"), a_):
                    return True
                # the point is gathered in a local struct first (`point.last_entry = record.last_entry`): every value
                # stored into that struct comes from the records, or is the zero it starts with
                roots = [x for x in walk(a_) if x[0] == "local"]
                if len(roots) != 1:
                    return False
                L = roots[0][1]
                an_ = cx.prog.A(c.fn)
                vals = []
                for bi_ in sorted(an_.reach):
                    for si_, st_ in enumerate(c.fn.body.blocks[bi_]["stmts"]):
                        if st_["k"] == "assign" and st_["place"]["l"] == L:
                            vals.append(an_.expr_rvalue(st_["rv"], (bi_, si_)))
                    t_ = c.fn.body.blocks[bi_]["term"]
                    if t_["k"] == "call" and t_.get("dest") and t_["dest"]["l"] == L:
                        vals.append(an_.expr_call(t_, (bi_, "term")))
                def fine(v_):
                    if contains(fld("RawNode.records"), v_) or v_ == ("int", 0):
                        return True
                    if v_[0] == "call" and v_[1].endswith("Default>::default"):
                        return True
                    if v_[0] in ("tuple",):
                        return all(fine(x) for x in v_[1])
                    if v_[0] == "adt":
                        return all(fine(x) for _, x in v_[2])
                    return False
                return bool(vals) and all(fine(v_) for v_ in vals)
            from_records = fn_name(c.fn) == "RawNode::on_persist_ready" and all(traced(a) for a in args[1:])
            if notif == "Raft::on_persist_entries" and fn_name(c.fn) == "RawNode::on_persist_ready":
                # a record that carries a snapshot supersedes every entry point gathered from older records: the snapshot
                # replaced the log, and (index, term) of an entry from before it must not be acknowledged after it
                g_ = cx.pg(c.fn)
                an_ = cx.prog.A(c.fn)
                evars = {x[1] for a_ in args[1:] for x in walk(a_) if x[0] in ("phi", "local") and len(x) > 1 and isinstance(x[1], int)}
                efields = {x[2].split(".")[-1] for a_ in args[1:] for x in walk(a_) if x[0] == "field"}
                def zero(v_):
                    if v_ == ("int", 0) or (v_[0] == "tuple" and bool(v_[1]) and all(zero(y) for y in v_[1])):
                        return True
                    if v_ == ("enum", "core::option::Option", "None"):
                        return True   # an `Option` accumulator: "nothing gathered"
                    # `*point = Point { snap_index: i, last_entry: (0, 0) }`: the fields the acknowledgement reads are zeroed
                    if v_[0] == "adt" and v_[2]:
                        d_ = dict(v_[2])
                        hit = [n for n in d_ if n in efields]
                        return bool(hit) and all(zero(d_[n]) for n in hit)
                    return False
                zb = set()
                for bi_ in sorted(an_.reach):
                    for si_, st_ in enumerate(c.fn.body.blocks[bi_]["stmts"]):
                        if st_["k"] != "assign":
                            continue
                        tgt_ = st_["place"]["l"] in evars
                        if not tgt_ and st_["place"]["p"]:
                            # a write through a reference to the gathering struct (`*self = ..` inside a spliced-in method)
                            pe_ = an_.expr_place(st_["place"], (bi_, si_))
                            tgt_ = any(x[0] == "local" and x[1] in evars for x in walk(pe_))
                        if tgt_ and zero(an_.expr_rvalue(st_["rv"], (bi_, si_))):
                            zb.add(bi_)
                snap_some = lambda lits: any(l[0] == "in" and l[2] == frozenset(["Some"]) and contains(fld("ReadyRecord.snapshot"), l[1]) for l in lits)
                okz, nz = g_.after_edge_must_pass(snap_some, lambda b: b in zb)
                cx.check(okz and nz >= 1, cx.site_key(c, "snapshot-resets-entry-point"), "a popped record that carries a snapshot resets the (index, term) gathered from older records", c)
            cx.check(from_records, key, "persistence is acknowledged only with (index, term) recorded for a Ready (RawNode.records)", c, args=[show(a)[:120] for a in args[1:]])
        cx.check(bool(ncs), "callers:" + fn_name(nf), "%s has an in-crate caller (RawNode::on_persist_ready)" % fn_name(nf))
    tr = cx.facts.traits.get("raft::storage::Storage")
    cx.need(tr, "trait Storage")
    bad = [m["name"] for m in tr["methods"] if not m["inputs"] or not m["inputs"][0].startswith("&") or m["inputs"][0].startswith("&mut")]
    cx.check(not bad, "storage-readonly", "every Storage method takes &self: the library never writes stable storage itself (offending: %s)" % bad)
