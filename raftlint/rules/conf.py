"""CONF — membership discipline (DESIGN §5.8)."""
from ..engine import obligation, require, require_all, fn_name, callers_of, call_args
from ..an import show, strip_generics, walk
from ..pat import ANY, V, match, call, fld, alt, contains
from ..pg import show_lit
from ..idioms import is_param_of_adt
from ..templates import return_template
from ..prog import Site
from .commit import write_value, _in_msg_arm, ctor_sites
from .vote import is_f, TERM, STATE, reset_fns
from .prevote import bump_fns, _ret_blocks

PCI = "RaftCore.pending_conf_index"
ET = "raft_proto::protos::eraftpb::EntryType"


def _fn_containing(cx, *needles):
    out = []
    for k, f in cx.facts.fns.items():
        if all(n in k for n in needles) and not f.is_closure:
            out.append(f)
    return out


def _call_block_pred(fn, suffix):
    def pred(bi):
        t = fn.body.blocks[bi]["term"]
        return t["k"] == "call" and "const" in t["func"] and "fn" in t["func"]["const"] and strip_generics(t["func"]["const"]["fn"]["path"]).endswith(suffix)
    return pred


@obligation("CONF.proposal_filter", ["C01", "C02", "C09", "C03"], floor=3, kind="guard (CNF) + exhaustive arms",
            why="two unapplied membership entries, or entering/leaving a joint configuration out of turn")
def proposal_filter(cx):
    sites = [s for s in cx.prog.writes.get(PCI, []) if s.kind == "write" and "stmt" in s.data and _in_msg_arm(cx, s, {"MsgPropose"}, depth=0)]
    cx.check(len(sites) == 1, "kept-site", "the MsgPropose arm records a kept conf change in pending_conf_index at one site")
    for s in sites:
        key = cx.site_key(s, "write:" + PCI)
        v = write_value(cx, s)
        ok = contains(call("~RaftLog::last_index", ANY), v) and contains(("int", 1), v) and all(x[1] == "Add" for x in walk(v) if x[0] == "bin") and any(x[0] == "tfield" and x[2] == 0 for x in walk(v))
        if not ok:
            # second form: the counter already starts at one — `(1u64..).zip(entries)` / `entries.zip(1u64..)`; then
            # pending_conf_index := last_index + k
            from ..idioms import is_last_index_plus_position
            ok = is_last_index_plus_position(cx.prog, s.fn, v)
        cx.check(ok, key + ":value", "pending_conf_index := last_index + i + 1, the index the entry will get (found %s)" % show(v), s, value=show(v))

        def no_pending(l):
            if l[0] == "is" and l[2] is False and l[1][0] == "call" and l[1][1].endswith("Raft::has_pending_conf"):
                return True
            return l[0] == "is" and l[2] is False and l[1][0] == "bin" and l[1][1] == "Lt" and is_f(l[1][2], "RaftLog.applied") and is_f(l[1][3], PCI)

        def is_joint(l, want):
            # confchange::joint(conf) == want  (or its inlined form !outgoing.is_empty())
            if l[0] == "is" and l[1][0] == "call" and l[1][1].endswith("confchange::joint"):
                return l[2] is want
            if l[0] == "is" and l[1][0] == "call" and l[1][1].endswith("is_empty") and contains(fld("Configuration.outgoing"), l[1]):
                return l[2] is (not want)
            return False

        def is_leave(l, want):
            if l[0] == "is" and l[1][0] == "call" and l[1][1].endswith("is_empty") and contains(fld("ConfChangeV2.changes"), l[1]):
                return l[2] is want
            return False
        # ... and that test must be made for EACH entry: keeping one entry raises pending_conf_index, so a test made
        # once before the loop is stale for the second conf change of the same message (kill analysis on)
        require(cx, s, key + ":fresh", "the no-pending test is evaluated after the previous kept entry was recorded (per entry, not once per message)", no_pending, kill=True)
        require_all(cx, s, key, "a conf-change proposal is kept only if none is pending, and it enters a joint config only from a simple one / leaves only a joint one",
                    [("!has_pending_conf()", no_pending),
                     ("!(already joint && !leave)", lambda l: is_joint(l, False) or is_leave(l, True)),
                     ("!(!joint && leave)", lambda l: is_joint(l, True) or is_leave(l, False))], kill=False)
        # the complementary arm neutralises the entry: from a decoded conf change there is no way back to the
        # loop head that avoids both the keep site and the neutralising overwrite
        fn = s.fn
        g = cx.pg(fn)
        a = cx.prog.A(fn)
        neutral = set()
        for w in cx.prog.writes.get("Entry.*", []):
            if w.fn is fn:
                neutral.add(w.block)
        cx.check(bool(neutral), key + ":neutral-site", "the MsgPropose arm overwrites a refused conf change (`*e = Entry::default()`)", s)
        decode = {c.block for sp, c in cx.prog.calls_out[fn.key] if c.kind == "call" and sp.endswith("merge_from_bytes")}
        heads = {c.block for sp, c in cx.prog.calls_out[fn.key] if c.kind == "call" and sp.endswith("::next") and "Iterator" in sp and c.block in cx.prog.A(fn).reach
                 and any(l[0] == "in" and l[2] == frozenset(["MsgPropose"]) for l in cx.guard_lits(c))}
        appends = {c.block for sp, c in cx.prog.calls_out[fn.key] if c.kind == "call" and sp.endswith("Raft::append_entry")}
        cx.check(bool(decode) and bool(heads), key + ":anchors", "conf-change decoding and the entry loop were located")
        escaped = False
        work = [n for n in range(len(g.nodes)) if g.nodes[n][0] in decode]
        # ... and from the moment the entry is KNOWN to be a membership change (before any decoding: an entry with
        # an empty payload is a valid leave-joint change and must go through the same filter)
        for n0 in range(len(g.nodes)):
            for m0, lits0 in g.edges[n0] or []:
                if any(l[0] == "in" and _is_entry_type(l[1]) and l[2] and l[2] <= CC_KINDS for l in lits0):
                    work.append(m0)
        seen = set()
        while work:
            n = work.pop()
            if n in seen:
                continue
            seen.add(n)
            for m2, _ in g.edges[n] or []:
                b2 = g.nodes[m2][0]
                if b2 in neutral or b2 == s.block:
                    continue
                if b2 in heads or b2 in appends:
                    escaped = True
                if m2 not in seen:
                    work.append(m2)
        cx.check(not escaped, key + ":exhaustive", "every decoded conf-change entry is either kept (recording its index) or neutralised before the next entry / the append", s)
        # neutralised entries become EntryNormal
        okn = False
        for c in cx.prog.call_sites_of("Entry::set_entry_type"):
            if c.fn is fn:
                okn = okn or call_args(cx, c)[1] == ("enum", ET, "EntryNormal")
        cx.check(okn, key + ":normal", "a refused conf change is replaced by an empty EntryNormal")


@obligation("CONF.leader_block", ["C01", "C02", "C09"], floor=1, kind="value shape + order",
            why="a new leader must not accept a conf change while its own unapplied tail may contain one")
def leader_block(cx):
    ws = [s for s in cx.prog.writes.get(STATE, []) if "stmt" in s.data and write_value(cx, s) == ("enum", "raft::raft::StateRole", "Leader")]
    cx.need(ws, "leader transition")
    for f in {s.fn.key: s.fn for s in ws}.values():
        pcs = [s for s in cx.prog.writes.get(PCI, []) if s.fn is f and "stmt" in s.data]
        cx.check(len(pcs) == 1, "write:" + fn_name(f), "the leader transition sets pending_conf_index")
        g = cx.pg(f)
        a = cx.prog.A(f)
        for s in pcs:
            v = write_value(cx, s)
            ok = v[0] == "call" and v[1].endswith("RaftLog::last_index")
            # the value is read before the leader's own empty entry is appended
            op = s.data["stmt"]["rv"].get("use", {})
            pl = op.get("copy") or op.get("move")
            before = False
            if pl is not None and not pl["p"]:
                l = pl["l"]
                for _ in range(4):
                    ds = a.defs[l]
                    if len(ds) != 1:
                        break
                    d = ds[0]
                    if d[2] == "call":
                        before = not g.dominated_by_block((d[0], "term"), _call_block_pred(f, "Raft::append_entry"))
                        break
                    src = d[3].get("use", {})
                    p2 = src.get("copy") or src.get("move")
                    if p2 is None or p2["p"]:
                        break
                    l = p2["l"]
            cx.check(ok and before, cx.site_key(s, "write:" + PCI), "pending_conf_index := last_index() taken before the new leader appends its empty entry (found %s)" % show(v), s, value=show(v))


@obligation("CONF.campaign_gate", ["C01", "C02", "C09"], floor=3, kind="guard + pairing",
            why="a node must not start an election while a committed membership change is unapplied locally")
def campaign_gate(cx):
    n = 0
    for f in bump_fns(cx).values():
        for c in callers_of(cx, f):           # campaign
            for cc in callers_of(cx, c.fn):   # hup / poll
                key = cx.site_key(cc, "call:" + fn_name(c.fn))
                def no_unapplied(l):
                    return l[0] == "is" and l[2] is False and l[1][0] == "call" and l[1][1] == cx.sfx("Raft::has_unapplied_conf_changes")
                def prevote_won(l):
                    return l[0] == "in" and is_f(l[1], STATE) and l[2] == frozenset(["PreCandidate"])
                g = cx.pg(cc.fn)
                a_ok = g.guarded(cc.at, lambda lits: any(no_unapplied(l) for l in lits))[0]
                b_ok = g.guarded(cc.at, lambda lits: any(prevote_won(l) for l in lits))[0]
                cx.check(a_ok or b_ok, key, "an election starts only if no committed conf change is unapplied (or it continues a won pre-vote)", cc)
                n += 1
                if a_ok:
                    # the scanned range is (applied | pending snapshot, committed]
                    for l in cx.guard_lits(cc):
                        if no_unapplied(l):
                            from ..engine import spread_ranges
                            args = spread_ranges(l[1][2])
                            lo, hi = args[1], args[2]
                            ok_hi = match(("bin", "Add", alt(fld("RaftLog.committed"), ("int", 1)), alt(fld("RaftLog.committed"), ("int", 1))), hi) is not None
                            ok_lo = contains(fld("RaftLog.applied"), lo)
                            cx.check(ok_hi and ok_lo, key + ":range", "the scan covers applied+1 .. committed (found %s .. %s)" % (show(lo)[:80], show(hi)), cc)
    cx.check(n >= 3, "floor", "election entry points were found")
    # the vote-carried commit fast-forward: a (pre)candidate steps down if it learns of a conf change
    def _carries_commit_term(c):
        a_ = call_args(cx, c)
        if any(is_f(x, "Message.commit_term") for x in a_):
            return True
        # ... or hands down a parameter that its (private) callers fill with m.commit_term
        ps = [x for x in a_ if x[0] == "param"]
        if ps and c.fn.vis != "Public":
            ups = callers_of(cx, c.fn)
            return bool(ups) and all(any(is_f(call_args(cx, u)[p_[1] - 1], "Message.commit_term") for p_ in ps if p_[1] - 1 < len(call_args(cx, u))) for u in ups)
        return False
    mcv = [c for c in cx.prog.call_sites_of("RaftLog::maybe_commit") if _carries_commit_term(c)]
    cx.check(bool(mcv), "fast-forward:fn", "the vote-carried commit fast-forward exists")
    for mc in mcv:
        f = mc.fn
        g = cx.pg(f)
        # the fast-forward is the region the commit call dominates (it may have been inlined into a dispatcher
        # with step-downs of its own)
        downs = [c for sp, c in cx.prog.calls_out[f.key] if c.kind == "call" and sp in cx.prog.short and STATE in cx.prog.modset_short(sp)
                 and g.dominated_by_block((c.block, "term"), lambda b, mc=mc: b == mc.block)]
        cx.check(len(downs) == 1, cx.site_key(mc, "fast-forward:stepdown"), "the fast-forward contains one step-down", mc)
        for c in downs:
            def found(l):
                return l[0] == "is" and l[2] is True and l[1][0] == "call" and l[1][1] == cx.sfx("Raft::has_unapplied_conf_changes")
            require(cx, c, cx.site_key(c, "stepdown"), "the candidate steps down when the newly committed range holds a conf change", found, kill=False)
            # the scanned range starts right after the commit index as it was BEFORE the fast-forward
            from ..engine import value_read_before
            scans = [x for x in cx.prog.call_sites_of(cx.sfx("Raft::has_unapplied_conf_changes")) if x.fn is f
                     and g.dominated_by_block((x.block, "term"), lambda b, mc=mc: b == mc.block)]
            for sc in scans:
                from ..engine import spread_ranges
                lo = spread_ranges(call_args(cx, sc))[1]
                okr = value_read_before(cx, sc, 1, "RaftLog::maybe_commit")
                # the bounds travel as one `lo..hi` value: it is the lower bound that must be the old commit index
                op1 = sc.data["term"]["args"][1]
                pl1 = op1.get("copy") or op1.get("move")
                if pl1 is not None and not pl1["p"]:
                    a_ = cx.prog.A(f)
                    ds_ = a_.defs[pl1["l"]]
                    if len(ds_) == 1 and ds_[0][2] == "assign" and ds_[0][3].get("agg") == "adt" and str(ds_[0][3].get("adt", "")).endswith("ops::range::Range") and "start" in ds_[0][3].get("fields", []):
                        from ..engine import operand_read_before
                        okr = operand_read_before(cx, f, ds_[0][3]["ops"][ds_[0][3]["fields"].index("start")], "RaftLog::maybe_commit", at=(ds_[0][0], ds_[0][1]))
                cx.check(bool(okr) and contains(fld("RaftLog.committed"), lo), cx.site_key(sc, "scan-from-old-commit"), "the conf-change scan starts after the commit index read before the fast-forward (found lower bound %s)" % show(lo), sc)
            st = [("in", l[1], frozenset(["Candidate", "PreCandidate"]), l[3]) for l in cx.guard_lits(c) if l[0] == "in" and is_f(l[1], STATE)][:1]
            ok, n_edges = g.after_edge_must_pass(lambda lits: any(found(l) for l in lits), lambda b, c=c: b == c.block, assume=st)
            cx.check(ok and n_edges >= 1, cx.site_key(c, "stepdown:converse"), "whenever a (pre)candidate finds a conf change in the newly committed range, it does step down", c)


@obligation("CONF.promotable", ["C09", "C17", "C10"], floor=3, kind="who-may-write + guard",
            why="a non-voter must never start an election on its own, by timeout or on a transfer request")
def promotable(cx):
    ws = [s for s in cx.prog.writes.get("RaftCore.promotable", []) if s.kind == "write"]
    cx.check(len(ws) == 1, "single-writer", "promotable has a single writer (found %d)" % len(ws))
    for s in ws:
        v = write_value(cx, s)
        ok = match(call("~joint::Configuration::contains", fld("Configuration.voters", fld("ProgressTracker.conf")), fld("RaftCore.id")), v) is not None
        cx.check(ok, cx.site_key(s, "write:promotable"), "promotable := conf.voters.contains(self.id) (found %s)" % show(v), s, value=show(v))
        # ... on EVERY path through the function that runs after a configuration change (a demoted leader included)
        g = cx.pg(s.fn)
        rets = [bi for bi in sorted(cx.prog.A(s.fn).reach) if s.fn.body.blocks[bi]["term"]["k"] == "return"]
        okall = bool(rets) and all(rb == s.block or g.dominated_by_block((rb, "term"), lambda b, s=s: b == s.block) for rb in rets)
        cx.check(okall, cx.site_key(s, "write:promotable:always"), "promotable is recomputed on every path of %s, before any early return" % fn_name(s.fn), s)
        # and that function runs after every way the configuration can change
        cs = callers_of(cx, s.fn)
        from_apply = any(_call_block_pred(c.fn, "ProgressTracker::apply_conf")(b) for c in cs for b in range(len(c.fn.body.blocks)))
        from_restore = any(any(sp.endswith("confchange::restore::restore") for sp, x in cx.prog.calls_out[c.fn.key] if x.kind == "call") for c in cs)
        cx.check(from_apply and from_restore, cx.site_key(s, "write:promotable:callers"), "%s runs after an applied conf change and after a configuration restored from a snapshot" % fn_name(s.fn), s)
    for f, bi, si, st in ctor_sites(cx, "raft::RaftCore"):
        names = st["rv"]["fields"]
        v = cx.prog.A(f).expr_operand(st["rv"]["ops"][names.index("promotable")], (bi, si))
        cx.check(v == ("bool", False), "ctor", "a fresh node is not promotable until its configuration is loaded")

    def promo(l):
        return l[0] == "is" and l[2] is True and is_f(l[1], "RaftCore.promotable")
    # self-addressed MsgHup (election timeout)
    from .step import self_step_templates
    n = 0
    for t in self_step_templates(cx):
        if t.types() == {"MsgHup"} and t.fn.impl_adt == "raft::raft::Raft":
            n += 1
            require(cx, t.site, cx.site_key(t.site, "self-hup"), "the election timeout turns into a campaign only if the node is promotable", promo)
    cx.check(n >= 1, "floor:timeout", "the election tick's self-addressed MsgHup was found")
    # MsgTimeoutNow arm
    n = 0
    for c in cx.prog.all_calls:
        sp = c.data["callee"]
        if sp in cx.prog.short and _in_msg_arm(cx, c, {"MsgTimeoutNow"}, depth=0) and (TERM in cx.prog.modset_short(sp)):
            n += 1
            require(cx, c, cx.site_key(c, "timeout-now"), "a transfer request starts an election only if the node is promotable", promo)
    cx.check(n >= 1, "floor:timeout-now", "the MsgTimeoutNow arm's campaign was found")


@obligation("CONF.apply_dispatch", ["C09", "C12"], floor=5, kind="guard + return shape",
            why="a conf change applied through the wrong operation, or applied although the changer rejected it")
def apply_dispatch(cx):
    ac = cx.fn("Raft::apply_conf_change")
    g = cx.pg(ac)
    lj = [f for f in _fn_containing(cx, "ConfChangeV2", "::leave_joint") if f.crate == "raft_proto"]
    ej = [f for f in _fn_containing(cx, "ConfChangeV2", "::enter_joint") if f.crate == "raft_proto"]
    cx.need(lj and ej, "ConfChangeV2::leave_joint / enter_joint")
    def lit_leave(want):
        return lambda l: l[0] == "is" and l[2] is want and l[1][0] == "call" and l[1][1].endswith("::leave_joint") and "ConfChangeV2" in l[1][1]
    def lit_enter(which):
        return lambda l: l[0] == "in" and l[2] == frozenset([which]) and l[1][0] == "call" and l[1][1].endswith("::enter_joint") and "ConfChangeV2" in l[1][1]
    for suffix, clauses in (("Changer::leave_joint", [("cc.leave_joint()", lit_leave(True))]),
                            ("Changer::enter_joint", [("!cc.leave_joint()", lit_leave(False)), ("cc.enter_joint() is Some", lit_enter("Some"))]),
                            ("Changer::simple", [("!cc.leave_joint()", lit_leave(False)), ("cc.enter_joint() is None", lit_enter("None"))])):
        cs = [c for c in cx.prog.call_sites_of(suffix) if c.fn is ac]
        cx.check(len(cs) == 1, "dispatch:" + suffix, "apply_conf_change calls %s once" % suffix)
        for c in cs:
            require_all(cx, c, cx.site_key(c, "call:" + suffix.split("::")[-1]), "%s is chosen by the change's own classification" % suffix, clauses, kill=False)
            if suffix == "Changer::enter_joint":
                a = call_args(cx, c)
                ok = match(("vfield", call(ANY, ANY), "core::option::Option::Some", 0), a[1]) is not None and is_f(a[2], "ConfChangeV2.changes")
                cx.check(ok, cx.site_key(c, "args:enter_joint"), "enter_joint(auto_leave from the classification, cc.changes)", c)
    # apply_conf only on Ok
    for fn in (ac, cx.fn("confchange::restore::restore")):
        for c in cx.prog.call_sites_of("ProgressTracker::apply_conf"):
            if c.fn is not fn:
                continue
            args = call_args(cx, c)
            ok = all(contains(("vfield", ANY, "core::ops::control_flow::ControlFlow::Continue", 0), x) or contains(("vfield", ANY, "core::result::Result::Ok", 0), x) for x in args[1:3])
            cx.check(ok, cx.site_key(c, "apply_conf"), "apply_conf receives exactly the Ok payload of the changer call (found %s)" % show(args[1])[:100], c)
            if fn is ac:
                nx = args[3]
                cx.check(nx[0] == "call" and nx[1].endswith("RaftLog::last_index"), cx.site_key(c, "apply_conf:next"), "a newly added peer's replication starts at last_index() + 1: apply_conf(.., .., raft_log.last_index()) (found %s)" % show(nx)[:80], c)
    pc = [c for c in cx.prog.call_sites_of("Raft::post_conf_change") if c.fn is ac]
    apc = [c for c in cx.prog.call_sites_of("ProgressTracker::apply_conf") if c.fn is ac]
    ok = len(pc) == 1 and len(apc) == 1 and g.dominated_by_block(pc[0].at, lambda b: b == apc[0].block)
    cx.check(ok, "post_conf_change", "post_conf_change runs after (and only after) the new configuration was applied")
    # classification shapes
    for f in lj:
        rets = cx.pg(f).returns()
        vals = {}
        for lits, v, _ in rets:
            vals.setdefault(v, []).append(lits)
        ok = True
        for lits, v, _ in rets:
            auto = [l for l in lits if l[0] == "in" and is_f(l[1], "ConfChangeV2.transition")]
            if v == ("bool", False):
                ok = ok and bool(auto) and "Auto" not in auto[0][2]
            elif v[0] == "call" and v[1].endswith("is_empty") and contains(fld("ConfChangeV2.changes"), v):
                ok = ok and bool(auto) and auto[0][2] == frozenset(["Auto"])
            else:
                ok = False
        cx.check(ok and len(rets) >= 2, "shape:leave_joint", "leave_joint() == (transition == Auto && changes.is_empty())", shape=[(show(v), [show_lit(l) for l in lits]) for lits, v, _ in rets])
    for f in ej:
        rets = cx.pg(f).returns()
        ok = bool(rets)
        for lits, v, _ in rets:
            tr = [l for l in lits if l[0] == "in" and is_f(l[1], "ConfChangeV2.transition")]
            many = [l for l in lits if l[0] == "is" and l[1][0] == "bin" and l[1][1] == "Lt" and l[1][2] == ("int", 1)]
            if v == ("enum", "core::option::Option", "None"):
                ok = ok and any(l[2] == frozenset(["Auto"]) for l in tr) and any(l[2] is False for l in many)
            elif v[0] == "adt" and v[1].endswith("Option::Some"):
                flag = v[2][0][1]
                nonauto = any("Auto" not in l[2] for l in tr) or any(l[2] is True for l in many)
                ok = ok and nonauto
                last = tr[-1][2] if tr else frozenset()
                if flag == ("bool", True):
                    ok = ok and last <= frozenset(["Auto", "Implicit"])
                elif flag == ("bool", False):
                    ok = ok and last == frozenset(["Explicit"])
                elif flag[0] == "bin" and flag[1] in ("Eq", "Ne") and any(is_f(x, "ConfChangeV2.transition") for x in flag[2:4]) and any(x[0] == "enum" and x[1].endswith("ConfChangeTransition") for x in flag[2:4]):
                    # the flag is computed by comparing the transition: evaluate it for each transition value possible here
                    lit = [x for x in flag[2:4] if x[0] == "enum"][0][2]
                    poss = last if tr else frozenset(["Auto", "Implicit", "Explicit"])
                    for t in poss:
                        val = (t == lit) if flag[1] == "Eq" else (t != lit)
                        ok = ok and val == (t in ("Auto", "Implicit"))
                else:
                    ok = False
            else:
                ok = False
        cx.check(ok, "shape:enter_joint", "enter_joint() is Some(auto_leave) iff transition != Auto or more than one change; auto_leave iff Auto|Implicit", shape=[(show(v), [show_lit(l) for l in lits]) for lits, v, _ in rets][:6])


CS = "raft_proto::protos::eraftpb::ConfState"
CS_FIELDS = ["voters", "learners", "voters_outgoing", "learners_next", "auto_leave"]


@obligation("CONF.restore_roundtrip", ["C09", "C12", "C15", "C20"], floor=5, kind="pairing + exhaustiveness over ConfState",
            why="a node restarted or restored from a ConfState must end up with exactly that configuration")
def restore_roundtrip(cx):
    ad = cx.facts.adt(CS)
    cx.need(ad, "struct ConfState")
    data = sorted(f["name"] for f in ad["variants"][0]["fields"] if f["name"] not in ("unknown_fields", "cached_size"))
    cx.check(data == sorted(CS_FIELDS), "fields", "ConfState has exactly the five fields the round trip handles: %s" % data)
    tcs = cx.fn("tracker::Configuration::to_conf_state")
    sts = return_template(cx.prog, tcs, "ConfState", 0, True)
    cx.check(bool(sts), "to_conf_state:template", "to_conf_state builds a ConfState in place")
    SRC = {"voters": "Configuration.incoming", "voters_outgoing": "Configuration.outgoing", "learners": "Configuration.learners", "learners_next": "Configuration.learners_next"}
    bad_f, bad_src = set(), False
    for st in sts or []:
        lits = st.get("$lits", ())
        for f in CS_FIELDS:
            v = st.get(f)
            filled = v is not None and v[0] != "default"
            if not filled and f in SRC:
                # a list may be left at its (empty) default exactly when its source set is known to be empty on that path
                filled = any(l[0] == "is" and l[2] is True and l[1][0] == "call" and l[1][1].endswith("is_empty") and contains(fld(SRC[f]), l[1]) for l in lits)
            if not filled:
                bad_f.add((f, show(v)[:80] if v else None))
        def src_ok(f):
            v = st.get(f)
            if v is None or v[0] == "default":
                return True   # decided above
            return contains(fld(SRC[f]), v)
        if not (all(src_ok(f) for f in SRC) and is_f(st.get("auto_leave", ("?",)), "Configuration.auto_leave")):
            bad_src = True
    for f in CS_FIELDS:
        hit = [x for x in bad_f if x[0] == f]
        cx.check(not hit, "to_conf_state:" + f, "to_conf_state fills %s, or leaves it empty only when its source set is empty (found %s)" % (f, hit[0][1] if hit else "ok"))
    cx.check(not bad_src, "to_conf_state:sources", "each ConfState field is filled from the corresponding part of the configuration")
    rf = cx.fn("confchange::restore::restore")
    reads = cx.prog.readset_short(strip_generics(rf.key))
    for f in CS_FIELDS:
        cx.check("ConfState." + f in reads, "restore:reads:" + f, "confchange::restore reads ConfState.%s" % f)
    # the change lists the restore replays: outgoing = [add each outgoing voter]; incoming = [remove each outgoing voter]
    # THEN [add voters; add-learner learners; add-learner learners_next]  (a removal replayed after an add-learner of
    # the same id would wipe the staged learner again)
    tcs1 = cx.fn("restore::to_conf_change_single")
    a1 = cx.prog.A(tcs1)
    g1 = cx.pg(tcs1)
    iters, pushes = [], []
    for c in cx.prog.all_calls:
        if c.fn is not tcs1:
            continue
        if c.data["callee"].endswith("into_iter") or c.data["callee"].endswith("::iter"):
            a0 = call_args(cx, c)[0]
            flds = [x[2].split(".")[1] for x in walk(a0) if x[0] == "field" and x[2].startswith("ConfState.")]
            if flds:
                iters.append((c, flds[0]))
        if c.data["callee"].endswith("Vec::push"):
            args = call_args(cx, c)
            kind = [x[2] for x in walk(args[1]) if x[0] == "enum" and x[1].endswith("ConfChangeType")]
            lst = a1.body.local_name(args[0][1]) if args[0][0] == "local" else None
            pushes.append((c, args[0], kind[0] if kind else None))
    seq = []
    for c, lst, kind in pushes:
        # the iteration this push belongs to: the closest dominating iterator creation
        doms = [(ic, fl) for ic, fl in iters if g1.dominated_by_block(c.at, lambda b, ic=ic: b == ic.block)]
        own = None
        for ic, fl in doms:
            if all(ic2 is ic or g1.dominated_by_block(ic.at, lambda b, ic2=ic2: b == ic2.block) for ic2, _ in doms):
                own = (ic, fl)
        seq.append((c, lst, kind, own))
    want = {("AddNode", "voters_outgoing"), ("RemoveNode", "voters_outgoing"), ("AddNode", "voters"), ("AddLearnerNode", "learners"), ("AddLearnerNode", "learners_next")}
    if not pushes:
        # second form: the two lists are collected from iterator chains,
        #   (outgoing.iter().map(add).collect(), outgoing.iter().map(remove).chain(voters.iter().map(add)).chain(..).collect())
        lists = _chain_lists(cx, tcs1)
        if lists is not None:
            out_l, in_l = lists
            got = set(out_l) | set(in_l)
            cx.check(got == want, "replay:lists", "to_conf_change_single emits add(outgoing), remove(outgoing), add(voters), add-learner(learners), add-learner(learners_next) (found %s)" % sorted(got))
            oko = out_l == [("AddNode", "voters_outgoing")] and in_l[:1] == [("RemoveNode", "voters_outgoing")] and sorted(in_l[1:]) == sorted(want - {("AddNode", "voters_outgoing"), ("RemoveNode", "voters_outgoing")})
            cx.check(oko, "replay:order", "in the incoming list every removal of an outgoing voter comes before the additions (voters, learners, staged learners), and the outgoing list holds only the outgoing voters")
            pushes = None
    got = {(k, o[1]) for c, l, k, o in seq if o}
    if pushes is None:
        pass
    else:
        _replay_push_form(cx, g1, seq, want, got)
    _replay_rest(cx, rf)


def _chain_lists(cx, f):
    """[(kind, ConfState field)] in order, for each of the two collected lists; None if the shape is not the chain form."""
    from ..idioms import closure_returns
    rets = cx.pg(f).returns()
    if len(rets) != 1 or rets[0][1][0] != "tuple" or len(rets[0][1][1]) != 2:
        return None

    def items(e):
        if e[0] == "call" and e[1].endswith("Iterator::chain") and len(e[2]) == 2:
            a, b = items(e[2][0]), items(e[2][1])
            return None if a is None or b is None else a + b
        if e[0] == "call" and e[1].endswith("Iterator::map") and len(e[2]) == 2 and e[2][1][0] == "closure":
            src, clos = e[2]
            flds = [x[2].split(".")[1] for x in walk(src) if x[0] == "field" and x[2].startswith("ConfState.")]
            if len(flds) != 1 or not (src[0] == "call" and (src[1].endswith("::iter") or src[1].endswith("into_iter"))):
                return None
            caps = dict(clos[2])
            rs = closure_returns(cx.prog, clos[1])
            if not rs or len(rs) != 1:
                return None
            v = rs[0][1]
            if not (v[0] == "call" and v[1].endswith("new_conf_change_single") and len(v[2]) == 2):
                return None
            k = v[2][1]
            if k[0] == "upvar":
                k = caps.get(k[1], k)
            if k[0] == "deref":
                k = k[1]
                if k[0] == "upvar":
                    k = caps.get(k[1], k)
            if k[0] != "enum" or not k[1].endswith("ConfChangeType"):
                return None
            return [(k[2], flds[0])]
        return None
    out = []
    for comp in rets[0][1][1]:
        if not (comp[0] == "call" and comp[1].endswith("Iterator::collect") and len(comp[2]) == 1):
            return None
        it = items(comp[2][0])
        if it is None:
            return None
        out.append(it)
    return out


def _replay_push_form(cx, g1, seq, want, got):
    cx.check(got == want, "replay:lists", "to_conf_change_single emits add(outgoing), remove(outgoing), add(voters), add-learner(learners), add-learner(learners_next) (found %s)" % sorted(got))
    rm = [o[0] for c, l, k, o in seq if o and (k, o[1]) == ("RemoveNode", "voters_outgoing")]
    later = [(k, o[1], o[0]) for c, l, k, o in seq if o and (k, o[1]) in {("AddNode", "voters"), ("AddLearnerNode", "learners"), ("AddLearnerNode", "learners_next")}]
    same_list = len({l for c, l, k, o in seq if o and (k, o[1]) != ("AddNode", "voters_outgoing")}) == 1 and len({l for c, l, k, o in seq}) == 2
    oko = bool(rm) and len(later) == 3 and all(g1.dominated_by_block(ic.at, lambda b: b == rm[0].block) for _, _, ic in later)
    cx.check(oko and same_list, "replay:order", "in the incoming list every removal of an outgoing voter comes before the additions (voters, learners, staged learners), and the outgoing list holds only the outgoing voters")


def _replay_rest(cx, rf):
    # the replay itself: a ConfState with outgoing voters is ALWAYS rebuilt through enter_joint (being joint is state:
    # outgoing set, auto_leave, the pending leave), one without through simple changes only
    gr = cx.pg(rf)
    ej = {c.block for sp, c in cx.prog.calls_out[rf.key] if c.kind == "call" and sp.endswith("Changer::enter_joint")}
    cx.check(len(ej) == 1, "replay:enter_joint", "confchange::restore enters the joint configuration at one site")
    cont = [l for n_ in range(len(gr.nodes)) for _, ls in gr.edges[n_] or [] for l in ls if l[0] == "in" and (l[2] == frozenset(["Continue"]) or l[2] == frozenset(["Ok"]) and l[3] == "core::result::Result")]
    def has_outgoing(l, want):
        return l[0] == "is" and l[2] is (not want) and l[1][0] == "call" and l[1][1].endswith("is_empty") and any(x[0] == "tfield" and x[2] == 0 for x in walk(l[1]))
    okj, nj = gr.after_edge_must_pass(lambda lits: any(has_outgoing(l, True) for l in lits), lambda b: b in ej, assume=cont)
    cx.check(okj and nj >= 1, "replay:joint-always", "whenever the ConfState has outgoing voters the replay goes through enter_joint (no shortcut for 'equal halves')")
    okn, nn = gr.after_edge_never_reaches(lambda lits: any(has_outgoing(l, False) for l in lits), lambda b: b in ej)
    cx.check(okn and nn >= 1, "replay:simple-only", "without outgoing voters the replay never enters a joint configuration")
    for c in [c for sp, c in cx.prog.calls_out[rf.key] if c.kind == "call" and sp.endswith("Changer::enter_joint")]:
        a0 = call_args(cx, c)
        cx.check(any(is_f(x, "ConfState.auto_leave") for x in a0), cx.site_key(c, "replay:auto_leave"), "enter_joint is given the ConfState's auto_leave", c)
    eqf = cx.fn("confstate::conf_state_eq")
    reads = cx.prog.readset_short(strip_generics(eqf.key))
    for f in CS_FIELDS:
        cx.check("ConfState." + f in reads, "conf_state_eq:" + f, "conf_state_eq compares ConfState.%s" % f)
    # ... and compares the four lists as SETS: a ConfState lists its ids in hash-map order, so the same configuration
    # comes out in different orders; no `false` may be decided by an ordered comparison of two lists alone
    LISTS = ("voters", "learners", "voters_outgoing", "learners_next")

    def ordered_cmp(e):
        return e[0] == "bin" and e[1] in ("Eq", "Ne") and all(x[0] == "field" and x[2] in ["ConfState." + n_ for n_ in LISTS] for x in e[2:4])
    try:
        eq_rets = cx.pg(eqf).returns(limit=20000)
    except OverflowError:
        eq_rets = None
    oku = eq_rets is not None and bool(eq_rets)
    worst = None
    for lits, v, _ in eq_rets or []:
        if v == ("bool", True):
            continue
        deciding = [l for l in lits if l[0] == "is" and ((l[2] is False and not (l[1][0] == "bin" and l[1][1] == "Ne")) or (l[2] is True and l[1][0] == "bin" and l[1][1] == "Ne"))]
        if v != ("bool", False):
            deciding = deciding + [("is", v, False)]    # the path returns the value of its last test
        # a false answer needs one deciding test that is not an ordered list comparison
        if deciding and all(ordered_cmp(l[1]) for l in deciding):
            oku = False
            worst = worst or [show_lit(l) for l in deciding]
    cx.check(oku, "conf_state_eq:unordered", "conf_state_eq never answers false on the strength of an ordered comparison of two id lists alone (found %s)" % worst)
    # both restorers verify the round trip
    n = 0
    for c in callers_of(cx, rf):
        f = c.fn
        n += 1
        g = cx.pg(f)
        def eq_ok(l):
            return l[0] == "is" and l[2] is True and l[1][0] == "call" and l[1][1].endswith("conf_state_eq") and contains(call("~Raft::post_conf_change", ANY), l[1])
        ok = all(g.guarded((rb, "term"), lambda lits: any(eq_ok(l) for l in lits))[0] or not g.dominated_by_block((rb, "term"), lambda b, c=c: b == c.block) for rb in _ret_blocks(cx, f))
        cx.check(ok, cx.site_key(c, "verify"), "after restoring a configuration, %s continues only if conf_state_eq(post_conf_change(), source ConfState)" % fn_name(f), c)
    cx.check(n >= 2, "floor", "restart and snapshot install both restore the configuration through confchange::restore")


@obligation("CONF.auto_leave", ["C09", "C05", "C01"], floor=1, kind="guard + order",
            why="an auto-leave joint configuration must be left by the leader once applied, without clobbering another pending change")
def auto_leave(cx):
    sites = [s for s in cx.prog.writes.get(PCI, []) if s.kind == "write" and "stmt" in s.data and any(l[0] == "is" and l[2] is True and is_f(l[1], "Configuration.auto_leave") for l in cx.guard_lits(s))]
    cx.check(len(sites) >= 1, "site", "the apply hook proposes the automatic leave")
    for s in sites:
        g = cx.pg(s.fn)
        # the new applied index: a parameter of the hook, or (hook spliced into its caller) what the caller hands to
        # the applied-index setter
        newapp = [call_args(cx, c)[1] for sp, c in cx.prog.calls_out[s.fn.key] if c.kind == "call" and (sp.endswith("RaftLog::applied_to") or sp.endswith(cx.sfx("RaftLog::applied_to_unchecked")))]
        def leader(l):
            return l[0] == "in" and is_f(l[1], STATE) and l[2] == frozenset(["Leader"])
        def window_hi(l, newapp=newapp):
            return l[0] == "is" and l[2] is False and l[1][0] == "bin" and l[1][1] == "Lt" and (l[1][2][0] == "param" or l[1][2] in newapp) and is_f(l[1][3], PCI)
        def window_lo(l):
            return l[0] == "is" and l[2] is False and l[1][0] == "bin" and l[1][1] == "Lt" and is_f(l[1][2], PCI)
        require_all(cx, s, cx.site_key(s, "write:" + PCI), "auto-leave only as leader, when the applied index just passed pending_conf_index",
                    [("state == Leader", leader), ("applied >= pending_conf_index", window_hi), ("old_applied <= pending_conf_index", window_lo)], kill=False)
        v = write_value(cx, s)
        ok = v[0] == "call" and v[1].endswith("RaftLog::last_index") and g.dominated_by_block(s.at, _call_block_pred(s.fn, "Raft::append_entry"))
        cx.check(ok, cx.site_key(s, "after-append"), "pending_conf_index := last_index() after the leave entry was appended", s)
        okt = any(c.fn is s.fn and call_args(cx, c)[1] == ("enum", ET, "EntryConfChangeV2") for c in cx.prog.call_sites_of("Entry::set_entry_type"))
        cx.check(okt, cx.site_key(s, "entry-type"), "the proposed leave is an empty EntryConfChangeV2")


@obligation("CONF.pending_writers", ["C09"], floor=4, kind="who-may-write",
            why="pending_conf_index is the only thing enforcing one membership change at a time")
def pending_writers(cx):
    resets = {k for k in reset_fns(cx)}
    for s in cx.prog.writes.get(PCI, []):
        key = cx.site_key(s, "write:" + PCI)
        if s.kind != "write" or "stmt" not in s.data:
            cx.bad(key, "pending_conf_index written by a call", s)
            continue
        v = write_value(cx, s)
        if v == ("int", 0):
            cx.check(s.fn.key in resets, key, "pending_conf_index is cleared only by the reset function", s)
        elif contains(call("~RaftLog::last_index", ANY), v):
            cx.ok(key, "pending_conf_index := f(last_index) (leader block / filter / auto-leave; decided by their own obligations)", s, value=show(v))
        else:
            cx.bad(key, "unrecognised writer of pending_conf_index: %s" % show(v), s, value=show(v))


CC_KINDS = frozenset(["EntryConfChange", "EntryConfChangeV2"])


def _is_entry_type(e):
    return any((x[0] == "field" and x[2].endswith("Entry.entry_type")) or (x[0] == "call" and x[1].endswith("Entry::get_entry_type")) for x in walk(e))


def _cc_lit(cx, l, depth=0):
    """The literal says 'this entry is a conf change' (of kinds returned), else None."""
    if l[0] == "in" and _is_entry_type(l[1]) and l[2] and l[2] <= CC_KINDS:
        return l[2]
    if l[0] == "is" and l[2] is True and l[1][0] == "call" and l[1][1].endswith("::any") and depth < 2:
        for a in l[1][2]:
            if a[0] in ("closure", "fnref"):
                from ..idioms import callable_returns, bool_rows
                rets = callable_returns(cx.prog, a)
                if not rets:
                    return None
                if a[0] == "fnref":
                    rets = bool_rows(cx.facts, rets)
                kinds = set()
                for lits, v in [(r[0], r[1]) for r in rets]:
                    ks = [k for k in (_cc_lit(cx, x, depth + 1) for x in lits) if k]
                    if v == ("bool", True) and ks:
                        kinds |= set().union(*ks)
                    elif v == ("bool", False) and not ks:
                        pass
                    elif v[0] == "bin" and v[1] == "Eq" and any(x[0] == "enum" and x[1] == ET and x[2] in CC_KINDS for x in v[2:4]) and any(_is_entry_type(x) for x in v[2:4]) and not ks:
                        # `.. || e.entry_type == EntryConfChangeV2` as the closure's tail expression
                        kinds |= {x[2] for x in v[2:4] if x[0] == "enum"}
                    else:
                        return None
                return frozenset(kinds) or None
    return None


@obligation("CONF.unapplied_scan", ["C01", "C02", "C09"], floor=4, kind="return-path classification + pairing",
            why="the scan of committed-but-unapplied entries must report a conf change found on ANY page of the range")
def unapplied_scan(cx):
    from ..idioms import closure_returns
    f = cx.fn("Raft::has_unapplied_conf_changes")
    cx.check(f is not None, "fn", "the unapplied-conf-change scan exists")
    if f is None:
        return
    n = 0
    name = fn_name(f)
    scans = [c for sp, c in cx.prog.calls_out[f.key] if c.kind == "call" and sp.endswith(cx.sfx("RaftLog::scan"))]
    cx.check(len(scans) == 1, name + ":scan-call", "it pages through the range with one RaftLog::scan call")
    for sc in scans:
        args = call_args(cx, sc)
        clos = [a for a in args if a[0] == "closure"]
        cx.check(len(clos) == 1, name + ":callback", "the page callback is a closure literal", sc)
        if len(clos) != 1:
            continue
        caps = dict(clos[0][2])
        cfn = cx.prog.facts.fns[cx.prog.short[clos[0][1]][0]]
        ca = cx.prog.A(cfn)
        g = cx.pg(cfn)
        # the flag: a captured bool local, initialised false, only ever set to true by the callback
        writes = []
        for bi, blk in enumerate(cfn.body.blocks):
            for si, st in enumerate(blk["stmts"]):
                if st.get("k") == "assign" and st["place"]["p"] == ["*"]:
                    base = ca.expr_local(st["place"]["l"], (bi, si))
                    if base[0] == "upvar":
                        writes.append((bi, si, base[1], st["rv"]))
        cx.check(len(writes) >= 1, name + ":flag-write", "the callback records a hit in a captured flag", sc)
        flags = {w[2] for w in writes}
        cx.check(len(flags) <= 1, name + ":flag-one", "one captured flag")
        # second accepted form: `found = page.iter().any(is_conf_change); !found` -- the flag is recomputed per page,
        # but the scan stops at the first page where it is true, so a hit is never overwritten
        form2_kinds = None
        rets0 = closure_returns(cx.prog, clos[0][1])
        if len(writes) == 1 and rets0:
            bi, si, up, rv = writes[0]
            fv = ca.expr_rvalue(rv, (bi, si))
            ks = _cc_lit(cx, ("is", fv, True))
            unguarded = not [l for l in cx.guard_lits(Site(cfn, bi, si, "write")) if not (l[0] == "is" and "slog" in show(l[1]))]
            neg = all((not r[0]) and r[1][0] == "un" and r[1][1] == "Not" and (r[1][2] == fv or r[1][2] == ("upvar", up) or (r[1][2][0] == "deref" and r[1][2][1] == ("upvar", up))) for r in rets0)
            if ks and unguarded and neg:
                form2_kinds = ks
        if form2_kinds is not None:
            cx.ok(name + ":flag-per-page", "flag := page.iter().any(is conf change); verdict := !flag (stop on the first page with a hit)", sc)
            cx.check(set(form2_kinds) == set(CC_KINDS), name + ":kinds", "both EntryConfChange and EntryConfChangeV2 count as a hit (found %s)" % sorted(form2_kinds), sc)
            n += 2
            writes_for_form1 = []
        else:
            writes_for_form1 = writes
        for bi, si, up, rv in writes_for_form1:
            c = rv.get("use", {}).get("const", {})
            is_true = c.get("ty") == "bool" and c.get("val", {}).get("int") == 1
            cx.check(is_true, name + ":flag-sticky", "the callback only ever SETS the flag (a later page must not clear an earlier hit)", Site(cfn, bi, si, "write"))
            ok = g.guarded((bi, si), lambda lits: any(_cc_lit(cx, l) for l in lits))[0]
            cx.check(ok, name + ":flag-guard", "the flag is set only for a conf-change entry", Site(cfn, bi, si, "write"))
            n += 1
        wblocks = {w[0] for w in writes}
        if form2_kinds is None:
            ok, ne = g.after_edge_must_pass(lambda lits: any(_cc_lit(cx, l) for l in lits), lambda b: b in wblocks)
            cx.check(ok and ne >= 1, name + ":flag-converse", "every conf-change entry seen sets the flag", sc)
        # the callback's verdict: false (= stop) exactly on a hit, true (= next page) otherwise
        rets = closure_returns(cx.prog, clos[0][1])
        cx.check(bool(rets), name + ":callback-paths", "the callback's return paths can be enumerated", sc)
        kinds = set(form2_kinds or ())
        for r in (rets or []) if form2_kinds is None else []:
            lits, v = r[0], r[1]
            ks = [k for k in (_cc_lit(cx, l) for l in lits) if k]
            if ks:
                kinds |= set().union(*ks)
                cx.check(v == ("bool", False), name + ":stop-on-hit", "the callback stops the scan (returns false) once a conf change is found (found %s)" % show(v), sc)
            else:
                cx.check(v == ("bool", True), name + ":continue-on-miss", "the callback asks for the next page (returns true) when the page holds no conf change (found %s)" % show(v), sc)
            n += 1
        if form2_kinds is None:
            cx.check(kinds == set(CC_KINDS), name + ":kinds", "both EntryConfChange and EntryConfChangeV2 count as a hit (found %s)" % sorted(kinds), sc)
        # the function's result is the flag
        fa = cx.prog.A(f)
        flag_local = [v for k, v in caps.items() if k in flags]
        cx.check(len(flag_local) == 1 and flag_local[0][0] == "local", name + ":flag-local", "the flag is a local of the scanning function")
        if len(flag_local) == 1 and flag_local[0][0] == "local":
            L = flag_local[0][1]
            inits = [st["rv"].get("use", {}).get("const", {}) for blk in f.body.blocks for st in blk["stmts"] if st.get("k") == "assign" and st["place"]["l"] == L and not st["place"]["p"]]
            cx.check(len(inits) == 1 and inits[0].get("ty") == "bool" and inits[0].get("val", {}).get("int") == 0, name + ":flag-init", "the flag starts out false and the scanning function itself never assigns it again")
            fg = cx.pg(f)
            for lits, v, b in fg.returns():
                if v == ("bool", False):
                    # the only shortcut: nothing is unapplied
                    def _app1(x):
                        return x[0] == "bin" and x[1] == "Add" and ("int", 1) in x[2:4] and any(is_f(y, "RaftLog.applied") for y in x[2:4])
                    okf = any(l[0] == "is" and l[2] is False and l[1][0] == "bin" and l[1][1] == "Lt" and is_f(l[1][2], "RaftLog.applied") and is_f(l[1][3], "RaftLog.committed") for l in lits) or \
                        any(l[0] == "is" and l[2] is True and l[1][0] == "bin" and l[1][1] == "Lt" and is_f(l[1][2], "RaftLog.committed") and _app1(l[1][3]) for l in lits) or \
                        any(l[0] == "is" and l[2] is True and l[1][0] == "bin" and l[1][1] in ("Lt", "Eq") and is_f(l[1][2], "RaftLog.committed") and is_f(l[1][3], "RaftLog.applied") for l in lits) or \
                        any(l[0] == "is" and l[2] is True and l[1][0] == "bin" and l[1][1] == "Eq" and is_f(l[1][2], "RaftLog.applied") and is_f(l[1][3], "RaftLog.committed") for l in lits)
                    cx.check(okf, name + ":shortcut", "the scan is skipped only when applied >= committed (found %s)" % "; ".join(show_lit(l)[:80] for l in lits)[:200], sc)
                    n += 1
                if any(l[0] == "in" and l[1][0] == "call" and l[1][1].endswith(cx.sfx("RaftLog::scan")) for l in lits):
                    cx.check(v[0] == "local" and v[1] == L, name + ":result", "after the scan the function returns the flag (found %s)" % show(v), sc)
                    n += 1
    # RaftLog::scan's side of the contract: a false verdict ends the scan, a true one moves to the next page
    for s in cx.prog.find(cx.sfx("RaftLog::scan")):
        if s.is_closure:
            continue
        g = cx.pg(s)
        sname = fn_name(s)
        def verdict(l, b):
            return l[0] == "is" and l[2] is b and l[1][0] == "call" and "call_mut" in l[1][1]
        slice_blk = _call_block_pred(s, cx.sfx("RaftLog::slice"))
        ok, ne = g.after_edge_never_reaches(lambda lits: any(verdict(l, False) for l in lits), slice_blk)
        cx.check(ok and ne >= 1, sname + ":stop", "scan fetches no further page once the callback returned false")
        ok2 = any(g.block_reaches(m_blk, slice_blk) for m_blk in _edge_targets(g, lambda lits: any(verdict(l, True) for l in lits)))
        cx.check(ok2, sname + ":continue", "scan goes on to the next page while the callback returns true")
        n += 2
    cx.check(n >= 4, "floor", "scan callback sites were found")


def _edge_targets(g, pred):
    out = []
    for n in range(len(g.nodes)):
        for m, lits in g.edges[n] or []:
            if lits and pred(lits):
                out.append(g.nodes[n][0])
    return out
