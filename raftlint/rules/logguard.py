"""LOGGUARD — guard clauses of RaftLog/Unstable (DESIGN §5.15). Component-level quantifier (C14): all call
sequences on RaftLog itself, so the defensive fatals are necessary here."""
from ..engine import obligation, require, require_all, fn_name, callers_of, call_args
from ..an import show, strip_generics, walk
from ..pat import ANY, V, match, call, fld, alt, contains
from ..pg import show_lit
from ..idioms import as_min, as_max, strip_casts
from .commit import write_value, ctor_sites
from .vote import is_f
from .match import lt_true, lt_false, eq, isf


@obligation("LOGGUARD.applied", ["C14", "C20", "C07"], floor=2, kind="who-may-write + guard with caller context",
            why="applied must stay within [previous applied, committed] outside the documented restart window")
def applied(cx):
    ws = [s for s in cx.prog.writes.get("RaftLog.applied", []) if s.kind == "write"]
    cx.check(len(ws) == 1, "single-writer", "RaftLog.applied has a single writer (found %d)" % len(ws))
    n_unchecked = []
    for s in ws:
        v = write_value(cx, s)
        cx.check(v[0] == "param", cx.site_key(s, "write:applied"), "applied := the given index", s)
        for c in callers_of(cx, s.fn):
            key = cx.site_key(c, "call:" + fn_name(s.fn))
            idx = call_args(cx, c)[v[1] - 1]
            g = cx.pg(c.fn)
            checked = g.guarded(c.at, lambda lits: any(lt_false(isf("RaftLog.committed"), eq(idx))(l) for l in lits))[0] and \
                g.guarded(c.at, lambda lits: any(lt_false(eq(idx), isf("RaftLog.applied"))(l) for l in lits))[0]
            if checked:
                cx.ok(key, "checked setter: !(idx > committed) and !(idx < applied)", c)
                continue
            n_unchecked.append(c)
            ctor_fns0 = {f.key for f, _, _, _ in ctor_sites(cx, "raft::Raft")}
            if c.fn.key in ctor_fns0:
                # second form: the constructor itself takes the unchecked path (no flag-carrying helper in between)
                cx.check(idx[0] == "field" and idx[2] == "Config.applied", cx.site_key(c, "restart-value"), "the node restarts at exactly the applied index the application configured (found %s)" % show(idx)[:100], c)
                cx.ok(key, "the unchecked applied index is used only while constructing the node (restart window)", c)
                continue
            # the unchecked restart path: reachable only from the constructor
            def skip(l):
                return l[0] == "is" and l[2] is True and l[1][0] == "param" and c.fn.body.local_ty(l[1][1]) == "bool"
            ok = g.guarded(c.at, lambda lits: any(skip(l) for l in lits))[0]
            if ok:
                flag = [l[1] for l in cx.guard_lits(c) if skip(l)][0]
                ctor_fns = {f.key for f, _, _, _ in ctor_sites(cx, "raft::Raft")}
                ctor_callers = [cc for cc in callers_of(cx, c.fn) if cc.fn.key in ctor_fns]
                for cc in ctor_callers:
                    av = call_args(cx, cc)[v[1] - 1] if v[0] == "param" else None
                    if av is None:
                        # the written value is the setter's parameter; the internal helper forwards its own
                        pa = [x for x in call_args(cx, c) if x[0] == "param"]
                        av = call_args(cx, cc)[pa[0][1] - 1] if pa else ("?",)
                    cx.check(av[0] == "field" and av[2] == "Config.applied", cx.site_key(cc, "restart-value"), "the node restarts at exactly the applied index the application configured (found %s)" % show(av)[:100], cc)
                cx.check(bool(ctor_callers) and all(call_args(cx, cc)[flag[1] - 1] == ("bool", True) for cc in ctor_callers), cx.site_key(c, "restart-window"),
                         "the constructor restores Config.applied through the unchecked path (applied may exceed the stored commit index right after a restart; the checked setter would be a fatal! there)", c)
                for cc in callers_of(cx, c.fn):
                    a = call_args(cx, cc)[flag[1] - 1]
                    if a == ("bool", True):
                        cx.check(cc.fn.key in ctor_fns, cx.site_key(cc, "skip-check"), "the unchecked applied index is used only while constructing the node (restart window)", cc)
                    else:
                        cx.check(a == ("bool", False), cx.site_key(cc, "checked"), "ordinary callers ask for the range check", cc)
            cx.check(ok, key, "applied is set unchecked only on the explicit skip_check path", c)
            if ok:
                # converse: the skip_check path really is unchecked (the range-asserting setter is not reached from it)
                chk = [x for x in callers_of(cx, s.fn) if x.fn is c.fn and x is not c] + [x for sp, x in cx.prog.calls_out[c.fn.key] if x.kind == "call" and x is not c and sp in cx.prog.short and any(w.fn.key in cx.prog.short[sp] for w in ws) is False and "RaftLog.applied" in cx.prog.modset_short(sp)]
                chk_blocks = {x.block for x in chk if x.block != c.block}
                okc, nc = g.after_edge_never_reaches(lambda lits: any(skip(l) for l in lits), lambda b: b in chk_blocks)
                cx.check(okc and nc >= 1, key + ":converse", "with skip_check set the range-checked setter is not used (it would be a fatal! in the restart window)", c)
    cx.check(len(n_unchecked) >= 1, "restart-window:path", "a live unchecked path for restoring Config.applied at construction exists (applied may exceed the stored commit index right after a restart)")


@obligation("LOGGUARD.commit_bound", ["C14"], floor=1, kind="guard",
            why="committed must not pass the last index")
def commit_bound(cx):
    for s in cx.prog.writes.get("RaftLog.committed", []):
        if fn_name(s.fn) != "RaftLog::commit_to" or "stmt" not in s.data:
            continue
        v = write_value(cx, s)
        # `committed = max(committed, i)`: where i does not exceed committed nothing changes; elsewhere i is what is written
        from ..idioms import as_max
        mx = as_max(v)
        keeps = None
        if mx and sum(1 for x in mx if is_f(x, "RaftLog.committed")) == 1:
            keeps = [x for x in mx if is_f(x, "RaftLog.committed")][0]
            v = [x for x in mx if not is_f(x, "RaftLog.committed")][0]
        def bounded(l, v=v, keeps=keeps):
            if keeps is not None and l[0] == "is" and l[2] is False and l[1][0] == "bin" and l[1][1] == "Lt" and l[1][2] == keeps and l[1][3] == v:
                return True
            return l[0] == "is" and l[2] is False and l[1][0] == "bin" and l[1][1] == "Lt" and l[1][2][0] == "call" and l[1][2][1].endswith("RaftLog::last_index") and l[1][3] == v
        require(cx, s, cx.site_key(s, "write:committed"), "commit_to(i) writes only if !(last_index() < i)", bounded, kill=False)


@obligation("LOGGUARD.append_above_commit", ["C14", "C05"], floor=2, kind="guard",
            why="no operation may alter an entry at or below the commit index")
def append_above_commit(cx):
    la = cx.fn("RaftLog::append")
    for c in cx.prog.call_sites_of("Unstable::truncate_and_append"):
        if c.fn is not la:
            continue
        def above(l):
            if l[0] != "is" or l[2] is not False or l[1][0] != "bin" or l[1][1] != "Lt":
                return False
            a, b = l[1][2], l[1][3]
            return is_f(b, "RaftLog.committed") and bool(match(("bin", "Sub", fld("Entry.index", ANY), ("int", 1)), a))
        require(cx, c, cx.site_key(c, "call:truncate_and_append"), "RaftLog::append truncates/appends only if ents[0].index - 1 >= committed", above, kill=False)
    ma = cx.fn("RaftLog::maybe_append")
    for c in cx.prog.call_sites_of("RaftLog::append"):
        if c.fn is not ma:
            continue
        def conflict_above(l):
            return l[0] == "is" and l[2] is True and l[1][0] == "bin" and l[1][1] == "Lt" and is_f(l[1][2], "RaftLog.committed") and l[1][3][0] == "call" and l[1][3][1].endswith("RaftLog::find_conflict")
        require(cx, c, cx.site_key(c, "call:append"), "the follower path appends only if the first conflict lies above the commit index", conflict_above, kill=False)


@obligation("LOGGUARD.offset_writers", ["C14"], floor=3, kind="who-may-write + guard + value",
            why="the unstable offset is the seam between stable storage and the unstable suffix")
def offset_writers(cx):
    kinds = set()
    for s in cx.prog.writes.get("Unstable.offset", []):
        key = cx.site_key(s, "write:Unstable.offset")
        if "stmt" not in s.data:
            cx.bad(key, "Unstable.offset written by a call", s)
            continue
        v = write_value(cx, s)
        b = match(("bin", "Add", V("x"), V("y")), v)
        if b and ("int", 1) in (b["x"], b["y"]):
            base = b["x"] if b["y"] == ("int", 1) else b["y"]
            if is_f(base, "Entry.index") and contains(fld("Unstable.entries"), base):
                def same(fname, pidx):
                    def acc(l):
                        if l[0] != "is" or l[2] is not True or l[1][0] != "bin" or l[1][1] != "Eq":
                            return False
                        xs = l[1][2:4]
                        return any(is_f(x, "Entry." + fname) and contains(fld("Unstable.entries"), x) for x in xs) and any(x[0] == "param" for x in xs)
                    return acc
                ok = require_all(cx, s, key, "stable_entries: offset := last.index + 1 only if the last unstable entry is exactly the (index, term) being stabilised",
                                 [("last.index == index", same("index", 0)), ("last.term == term", same("term", 1))], kill=False)
                if ok:
                    kinds.add("stable")
                continue
            if is_f(base, "SnapshotMetadata.index"):
                cx.ok(key, "restore: offset := snapshot.index + 1", s)
                kinds.add("restore")
                continue
        if is_f(v, "Entry.index"):
            def below(l, v=v):
                return l[0] == "is" and l[2] is False and l[1][0] == "bin" and l[1][1] == "Lt" and is_f(l[1][2], "Unstable.offset") and l[1][3] == v
            ok = require(cx, s, key, "truncate: offset := ents[0].index only if ents[0].index <= offset", below, kill=False)
            if ok:
                kinds.add("truncate")
            continue
        cx.bad(key, "unrecognised writer of Unstable.offset: %s" % show(v), s)
    for k in ("stable", "restore", "truncate"):
        cx.check(k in kinds, "idiom:" + k, "the %s write of Unstable.offset exists" % k)


@obligation("LOGGUARD.unstable_first", ["C14", "C03"], floor=3, kind="return shape",
            why="the unstable part (and pending snapshot) shadows stable storage; asking the store first returns stale terms/indexes")
def unstable_first(cx):
    for name, um, sm in (("RaftLog::first_index", "Unstable::maybe_first_index", "first_index"), ("RaftLog::last_index", "Unstable::maybe_last_index", "last_index"), ("RaftLog::term", "Unstable::maybe_term", "term")):
        f = cx.fn(name)
        rets = cx.pg(f).returns()
        ok = bool(rets)
        uses_store = False
        for lits, v, _ in rets:
            st = any(x[0] == "call" and x[1].endswith("Storage::" + sm) for x in walk(v))
            if st:
                uses_store = True
                none = any(l[0] == "in" and l[2] == frozenset(["None"]) and l[1][0] == "call" and l[1][1].endswith(um) for l in lits)
                ok = ok and none
            elif any(x[0] == "call" and x[1].endswith(um) for x in walk(v)):
                some = any(l[0] == "in" and l[2] == frozenset(["Some"]) and l[1][0] == "call" and l[1][1].endswith(um) for l in lits)
                ok = ok and some
        cx.check(ok and uses_store, "dispatch:" + name, "%s consults the store only when the unstable part has no answer" % name, shape=[(show(v)[:80], [show_lit(l)[:60] for l in lits]) for lits, v, _ in rets][:4])
    # term(): out-of-range indexes answer 0
    f = cx.fn("RaftLog::term")
    rets = cx.pg(f).returns()
    zero = [lits for lits, v, _ in rets if v == ("adt", "core::result::Result::Ok", (("0", ("int", 0)),))]
    ok = any(any(lt_true(lambda e: e[0] == "param", lambda e: contains(call("~RaftLog::first_index", ANY), e))(l) for l in lits) for lits in zero) and \
        any(any(lt_true(lambda e: e[0] == "call" and e[1].endswith("RaftLog::last_index"), lambda e: e[0] == "param")(l) for l in lits) for lits in zero)
    cx.check(ok, "term:range", "term(idx) answers 0 outside [first_index - 1, last_index]")
    # the unstable part's own term lookup is meaningful only inside that range: wherever else it is consulted (a walk
    # that calls the lookup directly instead of term()), the lower bound must be re-established for the index asked
    n = 0
    for c in cx.prog.all_calls:
        if c.fn.crate != "raft" or not c.data["callee"].endswith("Unstable::maybe_term") or (c.fn.impl_adt or "").endswith("Unstable"):
            continue
        n += 1
        idx = call_args(cx, c)[1]
        def lower(l, idx=idx):
            if l[0] != "is" or l[2] is not False or l[1][0] != "bin" or l[1][1] != "Lt" or l[1][2] != idx:
                return False
            y = l[1][3]
            return y[0] == "bin" and y[1] == "Sub" and y[3] == ("int", 1) and contains(call("~RaftLog::first_index", ANY), y[2])
        require(cx, c, cx.site_key(c, "term:raw-lookup"), "the unstable term lookup is consulted only for an index >= first_index() - 1", lower)
    cx.check(n >= 1, "term:raw-lookup:floor", "the unstable term lookup has a caller")


@obligation("LOGGUARD.slice", ["C14", "C05", "C07", "C13", "C20", "C15"], floor=3, kind="guard (CNF) + value shape",
            why="a slice that glues unstable entries behind a truncated stable read has a hole; an unlimited read ignores max_size")
def slice_(cx):
    f = cx.fn("RaftLog::slice")
    g = cx.pg(f)
    ext = [c for c in cx.prog.all_calls if c.fn is f and c.data["callee"].endswith("extend_from_slice")]
    cx.check(len(ext) == 1, "extend", "slice appends the unstable part at one site")
    se = [c for c in cx.prog.all_calls if c.fn is f and c.data["callee"].endswith("Storage::entries")]
    cx.check(len(se) == 1, "store-read", "slice reads the stable part at one site")
    for c in ext:
        def no_stable(l):
            return l[0] == "is" and l[2] is False and l[1][0] == "bin" and l[1][1] == "Lt" and l[1][2][0] == "param" and is_f(l[1][3], "Unstable.offset")
        def complete(l):
            if l[0] != "is" or l[2] is not False or l[1][0] != "bin" or l[1][1] != "Lt":
                return False
            a, b = strip_casts(l[1][2]), l[1][3]
            return "len" in show(a) and b[0] == "bin" and b[1] == "Sub"
        require(cx, c, cx.site_key(c, "contiguous"), "unstable entries are appended only if there was no stable part or the stable read returned the whole requested range", lambda l: no_stable(l) or complete(l), kill=False)
        def has_unstable(l):
            return l[0] == "is" and l[2] is True and l[1][0] == "bin" and l[1][1] == "Lt" and is_f(l[1][2], "Unstable.offset") and l[1][3][0] == "param"
        require(cx, c, cx.site_key(c, "needs-unstable"), "the unstable part is read only if high > unstable.offset", has_unstable, kill=False)
        a = call_args(cx, c)
        us = a[1]
        ok = us[0] == "call" and us[1].endswith("Unstable::slice") and as_max(us[2][1]) is not None and us[2][2][0] == "param"
        cx.check(ok, cx.site_key(c, "unstable-range"), "the unstable part is unstable.slice(max(low, offset), high) (found %s)" % show(us)[:120], c)
    for c in se:
        a = call_args(cx, c)
        ok_lo = a[1][0] == "param"
        mn = as_min(a[2])
        ok_hi = mn is not None and any(x[0] == "param" for x in mn) and any(is_f(x, "Unstable.offset") for x in mn)
        ok_max = a[3][0] in ("param", "call") and "max_size" in show(a[3])
        cx.check(ok_lo and ok_hi, cx.site_key(c, "stable-range"), "the stable part is store.entries(low, min(high, offset), ..) (found %s, %s)" % (show(a[1]), show(a[2])), c)
        cx.check(ok_max, cx.site_key(c, "stable-limit"), "the size limit is passed to the store (found %s)" % show(a[3]), c)
        def has_stable(l):
            return l[0] == "is" and l[2] is True and l[1][0] == "bin" and l[1][1] == "Lt" and l[1][2][0] == "param" and is_f(l[1][3], "Unstable.offset")
        require(cx, c, cx.site_key(c, "needs-stable"), "the store is read only if low < unstable.offset", has_stable, kill=False)
    # limit_size on every path that includes unstable entries
    lim = [c for c in cx.prog.all_calls if c.fn is f and c.data["callee"].endswith("util::limit_size")]
    ok = len(lim) == 1 and all(g.after_edge_must_pass(lambda lits: any(l[0] == "is" and l[2] is True and l[1][0] == "bin" and l[1][1] == "Lt" and is_f(l[1][2], "Unstable.offset") and l[1][3][0] == "param" for l in lits), lambda b: b == lim[0].block)[0] for _ in [0])
    cx.check(ok, "limit", "every result that includes unstable entries goes through limit_size")
    # bounds check first
    chk = [c for c in cx.prog.all_calls if c.fn is f and c.data["callee"] == cx.sfx("RaftLog::must_check_outofbounds")]
    ok = len(chk) == 1 and all(g.dominated_by_block(c.at, lambda b: b == chk[0].block) for c in se + ext)
    cx.check(ok, "bounds-first", "slice validates [low, high) against the log before reading anything")
    # the two storage errors a contract-abiding run can meet -- the range was compacted in the meantime, or the entries
    # are being fetched asynchronously -- go back to the caller (who sends a snapshot / retries); they are not fatal
    try:
        rets = g.returns(limit=20000)
    except OverflowError:
        rets = []
    for V in ("Compacted", "LogTemporarilyUnavailable"):
        hit = False
        for lits, v, _ in rets:
            if not ((v[0] == "adt" and v[1].endswith("Result::Err")) or (v[0] == "call" and v[1].endswith("::from_residual"))):
                continue
            if any(l[0] == "in" and V in l[2] and len(l[2]) <= 2 and any(x[0] == "call" and x[1].endswith("Storage::entries") for x in walk(l[1])) for l in lits):
                hit = True
        cx.check(hit, "store-error:" + V, "a stable read answered %s is returned to the caller as that error (not a fatal!)" % V)


def limiter_closure(cx, cp):
    """The take_while predicate of the size limiter: (first entry always kept, a further one iff cumulative size <= max, rest)"""
    from ..idioms import closure_returns
    r = closure_returns(cx.prog, cp) or []
    first = [(lits, v) for lits, v, _ in r if v == ("bool", True)]
    rest = [(lits, v) for lits, v, _ in r if v != ("bool", True)]
    ok1 = any(any(l[0] == "in" and l[2] == frozenset([0]) for l in lits) for lits, v in first)
    ok2 = bool(rest) and all(v[0] == "bin" and v[1] == "Le" and v[3][0] in ("upvar", "field", "local", "param") or (v[0] == "bin" and v[1] == "Le") for lits, v in rest)
    strict = any(v[0] == "bin" and v[1] == "Lt" for lits, v in rest)
    return ok1, ok2 and not strict, rest


@obligation("LOGGUARD.limit_size", ["C13", "C14", "C19", "C07", "C01"], floor=2, kind="closure shape",
            why="size-limited reads must return a non-empty maximal prefix within the limit")
def limit_size(cx):
    f = cx.fn("util::limit_size")
    rets = cx.pg(f).returns()
    # early returns: len <= 1, no limit
    early = any(any(l[0] == "is" and l[2] is False and l[1][0] == "bin" and l[1][1] == "Lt" and l[1][2] == ("int", 1) for l in lits) for lits, v, _ in rets)
    cx.check(early, "keep-one", "a vector of at most one entry is never truncated")
    clos = [sp for sp, s in cx.prog.calls_out[f.key] if s.kind == "closure"]
    # only a closure handed to take_while is the limiter (an `Option::filter(|m| m != NO_LIMIT)` is not)
    tw_args = [x for c in cx.prog.all_calls if c.fn is f and c.data["callee"].endswith("::take_while") for a_ in call_args(cx, c) for x in walk(a_) if x[0] == "closure"]
    if tw_args or not any(c.fn is f and c.data["callee"].endswith("::take_while") for c in cx.prog.all_calls):
        clos = [sp for sp in clos if any(strip_generics(x[1]) == strip_generics(sp) or x[1] == sp for x in tw_args)]
    pos_calls = [c for c in cx.prog.all_calls if c.fn is f and c.data["callee"].endswith("::position")]
    pos_clos = [x for c in pos_calls for a_ in call_args(cx, c) for x in walk(a_) if x[0] == "closure"]
    if not clos and len(pos_clos) == 1:
        # third form: `if let Some(k) = entries.iter().position(|e| <e no longer fits>) { entries.truncate(k) }` -- the
        # predicate is the negation of the take_while one: false while nothing was counted yet, else `max < size so far`
        from ..idioms import closure_returns
        r = closure_returns(cx.prog, pos_clos[0][1]) or []
        first = [(lits, v) for lits, v, _ in r if v == ("bool", False)]
        rest = [(lits, v) for lits, v, _ in r if v != ("bool", False)]
        ok1 = any(any(l[0] == "in" and l[2] == frozenset([0]) for l in lits) for lits, v in first)
        def over_budget(v):
            if v[0] == "un" and v[1] == "Not":
                v = v[2]
                return v[0] == "bin" and v[1] == "Le"
            return v[0] == "bin" and v[1] == "Lt"   # `max < size so far` (strict: an entry that exactly fills the limit is kept)
        ok2 = bool(rest) and all(over_budget(v) for lits, v in rest)
        cx.check(len(pos_clos) == 1, "closure", "limit_size finds the cut with one position() predicate")
        cx.check(ok1, "first-always", "the first entry is always kept (nothing counted yet -> not over budget)")
        cx.check(ok2, "within-limit", "a further entry is cut iff the cumulative size exceeds max, strictly (found %s)" % [show(v)[:80] for _, v in rest][:2])
        tr = [c for c in cx.prog.all_calls if c.fn is f and c.data["callee"].endswith("Vec::truncate")]
        cx.check(len(tr) == 1, "truncate", "the vector is truncated to the counted prefix")
        if tr:
            k = call_args(cx, tr[0])[1]
            okk = k[0] == "vfield" and k[1][0] == "call" and k[1][1].endswith("::position")
            cx.check(okk, "truncate:counter", "truncate receives the position found (found %s)" % show(k)[:80])
        return
    if not clos:
        # second form: an explicit loop with a kept-counter and a running byte size,
        #   for e in entries { let first = size == 0; size += e.compute_size(); if !first && size > max { break } kept += 1 }
        g = cx.pg(f)
        lits = [l for n_ in range(len(g.nodes)) for _, ls in g.edges[n_] or [] for l in ls]
        def over(l, strict_only=True):
            return l[0] == "is" and l[1][0] == "bin" and l[1][1] == "Lt" and any(x[0] == "call" and x[1].endswith("compute_size") or x[0] == "opaque" for x in walk(l[1][3])) and any(x[0] == "vfield" or x[0] == "param" for x in walk(l[1][2]))
        first = [l for l in lits if l[0] in ("in", "notin") and l[2] == frozenset([0]) and l[1][0] in ("phi", "opaque", "local")]
        ov = [l for l in lits if over(l)]
        nonstrict = [l for l in lits if l[0] == "is" and l[1][0] == "bin" and l[1][1] == "Lt" and any(x[0] == "call" and x[1].endswith("compute_size") or x[0] == "opaque" for x in walk(l[1][2])) and any(x[0] == "vfield" or x[0] == "param" for x in walk(l[1][3]))]
        cx.check(bool(first), "first-always", "the first entry is always kept (the running size is tested against 0 before the entry is added)")
        cx.check(bool(ov) and not nonstrict, "within-limit", "a further entry is kept iff the cumulative size stays <= max: the loop stops only on `size > max` (found %s)" % [show_lit(l)[:80] for l in (ov + nonstrict)][:3])
        tr = [c for c in cx.prog.all_calls if c.fn is f and c.data["callee"].endswith("Vec::truncate")]
        cx.check(len(tr) == 1, "truncate", "the vector is truncated to the counted prefix")
        if tr:
            k = call_args(cx, tr[0])[1]
            cx.check(k[0] in ("phi", "local"), "truncate:counter", "truncate receives the kept-counter (found %s)" % show(k)[:80])
        return
    cx.check(len(clos) == 1, "closure", "limit_size counts with one take_while closure")
    for cp in clos:
        ok1, ok2, rest = limiter_closure(cx, cp)
        cx.check(ok1, "first-always", "the first entry is always kept (size == 0 -> true)")
        cx.check(ok2, "within-limit", "a further entry is kept iff the cumulative size stays <= max (found %s)" % [show(v) for _, v in rest][:2])
    tr = [c for c in cx.prog.all_calls if c.fn is f and c.data["callee"].endswith("Vec::truncate")]
    cx.check(len(tr) == 1, "truncate", "the vector is truncated to the counted prefix")
