"""FLOW — pausing must be paired with resuming (DESIGN §5.9)."""
from ..engine import obligation, require, require_all, fn_name, callers_of, call_args
from ..an import show, strip_generics, walk
from ..pat import ANY, V, match, call, fld, alt, contains
from ..pg import show_lit
from ..idioms import is_param_of_adt
from ..prog import Site
from .commit import write_value, _in_msg_arm
from .vote import is_f, STATE
from .msg import tmpls, tkey, MT

PS = "raft::tracker::state::ProgressState"
STATE_P = "Progress.state"


def call_blocks(fn, suffix, pred=None):
    out = set()
    for bi, b in enumerate(fn.body.blocks):
        t = b["term"]
        if t["k"] == "call" and "const" in t["func"] and "fn" in t["func"]["const"]:
            p = strip_generics(t["func"]["const"]["fn"]["path"])
            if p.endswith(suffix):
                out.add(bi)
    return out


def arm_fns(cx, ty):
    """functions entered from a dispatcher arm for message type `ty` (callee of a call guarded by that type)"""
    out, loose = {}, {}
    for c in cx.prog.all_calls:
        sp = c.data["callee"]
        if sp in cx.prog.short and c.fn.crate == "raft":
            gl = None
            g = cx.pg(c.fn)
            ok, _ = g.guarded(c.at, lambda lits: any(l[0] == "in" and is_f(l[1], "Message.msg_type") and l[2] == frozenset([ty]) for l in lits))
            if ok:
                args = call_args(cx, c)
                f = cx.facts.fns[cx.prog.short[sp][0]]
                if any(a[0] == "param" and (c.fn.body.local_adt(a[1]) or "").endswith("eraftpb::Message") for a in args):
                    out[f.key] = f
                elif f.impl_adt and "raft::Raft" in f.impl_adt and any(x[0] == "param" and (c.fn.body.local_adt(x[1]) or "").endswith("eraftpb::Message") for a in args for x in walk(a)):
                    # a handler that is given parts of the message (`handle_snapshot_status(pr, m.from, m.reject)`)
                    loose[f.key] = f
    return out or loose


def lit_state(st):
    return lambda l: l[0] == "in" and is_f(l[1], "Progress.state") and l[2] == frozenset([st])


@obligation("FLOW.pause_gate", ["C13"], floor=3, kind="guard + exhaustive return shape",
            why="a paused progress (probing, window full, snapshot outstanding) must not be sent further appends")
def pause_gate(cx):
    fs = {t.fn.key: t.fn for t in tmpls(cx, {"MsgAppend"})}
    fs.update({t.fn.key: t.fn for t in tmpls(cx, {"MsgSnapshot"})})
    cx.check(bool(fs), "floor", "an append/snapshot sending function exists")
    for f in fs.values():
        for sp, s in cx.prog.calls_out[f.key]:
            if s.kind != "call":
                continue
            if not (sp.endswith("RaftCore::send") or sp.endswith("prepare_send_entries") or sp.endswith("prepare_send_snapshot") or sp.endswith("try_batching")):
                continue
            def not_paused(l):
                return l[0] == "is" and l[2] is False and l[1][0] == "call" and l[1][1].endswith("Progress::is_paused")
            require(cx, s, cx.site_key(s, "gate:" + sp.split("::")[-1]), "nothing is built or sent for a progress unless !pr.is_paused()", not_paused,
                    kill=False)  # building the message is what changes the pause state
    ip = cx.fn("Progress::is_paused")
    rets = cx.pg(ip).returns()
    seen = {}
    for lits, v, _ in rets:
        for l in lits:
            if l[0] == "in" and is_f(l[1], "Progress.state") and len(l[2]) == 1:
                seen[list(l[2])[0]] = v
    ok = set(seen) == {"Probe", "Replicate", "Snapshot"} and is_f(seen.get("Probe", ("?",)), "Progress.paused") and \
        seen.get("Replicate", ("?",))[0] == "call" and seen["Replicate"][1].endswith("Inflights::full") and seen.get("Snapshot") == ("bool", True)
    cx.check(ok, "is_paused", "is_paused(): Probe -> paused, Replicate -> ins.full(), Snapshot -> true (found %s)" % {k: show(v) for k, v in seen.items()})


def _last_index_of(cx, e):
    """X such that e is the index of the last element of X: `X.last().unwrap().index`, `(X.last() as Some).0.index`,
    `X.last().map(|e| e.index)` unwrapped; else None"""
    from ..idioms import unwrapped, closure_returns
    if e[0] == "field" and e[2] == "Entry.index":
        inner = unwrapped(e[1])
        if inner is not None and inner[0] == "call" and inner[1].endswith("::last"):
            return inner[2][0]
        return None
    inner = unwrapped(e)
    if inner is not None and inner[0] == "call" and inner[1].endswith("Option::map") and inner[2][0][0] == "call" and inner[2][0][1].endswith("::last") and inner[2][1][0] == "closure":
        r = closure_returns(cx.prog, inner[2][1][1]) or []
        if len(r) == 1 and r[0][1][0] == "field" and r[0][1][2] == "Entry.index":
            return inner[2][0][2][0]
    return None


@obligation("FLOW.window_accounting", ["C13"], floor=4, kind="pairing (after-edge must-pass) + exhaustive shape",
            why="an entry-carrying append that is not accounted for lets the leader exceed the inflight window / probe limit")
def window_accounting(cx):
    us = cx.fn("Progress::update_state")
    # every function that attaches entries to a MsgAppend: non-empty entries => update_state(last.index)
    n = 0
    for f in {c.fn.key: c.fn for c in callers_of(cx, us)}.values():
        g = cx.pg(f)
        ub = call_blocks(f, "Progress::update_state")
        for c in callers_of(cx, us):
            if c.fn is not f:
                continue
            n += 1
            a = call_args(cx, c)
            # the collection whose last index is reported: the message's entries, or the vector that this function
            # attaches to the message (`m.set_entries(ents.into())`, before or after the bookkeeping)
            attached = []
            for sp2, c2 in cx.prog.calls_out[f.key]:
                if c2.kind == "call" and sp2.endswith("set_entries"):
                    attached += [x for x in walk(call_args(cx, c2)[1]) if x[0] in ("param", "local")]
            coll = _last_index_of(cx, a[1])
            ok = coll is not None and (contains(fld("Message.entries"), coll) or any(x in attached for x in walk(coll)))
            cx.check(ok, cx.site_key(c, "update_state:arg"), "update_state receives the index of the last entry of the message (found %s)" % show(a[1])[:100], c)
        def nonempty(lits, attached_of=f):
            att = []
            for sp2, c2 in cx.prog.calls_out[attached_of.key]:
                if c2.kind == "call" and sp2.endswith("set_entries"):
                    att += [x for x in walk(call_args(cx, c2)[1]) if x[0] in ("param", "local")]
            def about(e):
                return contains(fld("Message.entries"), e) or any(x in att for x in walk(e))
            for l in lits:
                if l[0] == "is" and l[2] is False and l[1][0] == "call" and l[1][1].endswith("is_empty") and about(l[1]):
                    return True
                if l[0] == "in" and l[2] == frozenset(["Some"]) and l[1][0] == "call" and any(x[0] == "call" and x[1].endswith("::last") for x in walk(l[1])) and about(l[1]):
                    return True
            return False
        ok, ne = g.after_edge_must_pass(nonempty, lambda b: b in ub)
        if ne:
            cx.check(ok, "pair:" + fn_name(f), "%s: whenever the message carries entries, update_state is called before returning" % fn_name(f))
        else:
            # batching: after the entries were extended
            ext = call_blocks(f, "::append") | call_blocks(f, "set_entries")
            okb = bool(ext) and all(any(True for _ in [0]) for _ in [0])
            gdom = all(g.dominated_by_block((b, "term"), lambda bb: bb in ext) for b in ub)
            cx.check(okb and gdom, "pair:" + fn_name(f), "%s: update_state follows the extension of the queued append" % fn_name(f))
    cx.check(n >= 2, "floor", "update_state is called where entries are attached (fresh append and batching)")
    # update_state is exhaustive
    g = cx.pg(us)
    arms = {}
    for sp, s in cx.prog.calls_out[us.key]:
        if s.kind != "call":
            continue
        for l in cx.guard_lits(s):
            if l[0] == "in" and is_f(l[1], "Progress.state") and len(l[2]) == 1:
                arms.setdefault(list(l[2])[0], set()).add(sp.split("::")[-1])
    ok = arms.get("Replicate", set()) >= {"optimistic_update", "add"} and "pause" in arms.get("Probe", set())
    cx.check(ok, "update_state:shape", "update_state: Replicate -> next_idx := last + 1 and ins.add(last); Probe -> pause (found %s)" % {k: sorted(v) for k, v in arms.items()})
    ou = cx.fn("Progress::optimistic_update")
    ws = [s for s in cx.prog.writes.get("Progress.next_idx", []) if s.fn is ou]
    ok = len(ws) == 1 and match(("bin", "Add", alt(("param", 2, ANY), ("int", 1)), alt(("param", 2, ANY), ("int", 1))), write_value(cx, ws[0])) is not None
    cx.check(ok, "optimistic_update", "optimistic_update(n): next_idx := n + 1")
    add = cx.fn("Inflights::add")
    cs = callers_of(cx, add)
    cx.check(bool(cs) and all(c.fn is us for c in cs), "add:callers", "Inflights::add is called only from Progress::update_state (hence only for an unpaused Replicate progress)")


def _after(cx, f, edge_pred, suffixes, key, text, fresh_only=False):
    g = cx.pg(f)
    blocks = set()
    for s in suffixes:
        blocks |= call_blocks(f, s)
    ok, ne = g.after_edge_must_pass(lambda lits: any(edge_pred(l) for l in lits), lambda b: b in blocks, fresh_only=fresh_only)
    cx.check(ok and ne >= 1 and bool(blocks), key, text + (" [no such edge found]" if not ne else ""))


@obligation("FLOW.resume_pairing", ["C10", "C13", "C15"], floor=8, kind="pairing (after-edge must-pass) per handler arm",
            why="each missing un-pause edge is a reachable permanent stall of replication to that follower")
def resume_pairing(cx):
    # --- heartbeat response
    hb = arm_fns(cx, "MsgHeartbeatResponse")
    cx.check(bool(hb), "hbresp:handler", "a MsgHeartbeatResponse handler exists")
    for f in hb.values():
        g = cx.pg(f)
        found = lambda l: l[0] == "in" and l[2] == frozenset(["Some"]) and l[1][0] == "call" and "ProgressTracker::get" in l[1][1]
        has_found = any(found(l) for n_ in range(len(g.nodes)) for _, ls in g.edges[n_] or [] for l in ls)
        if has_found:
            _after(cx, f, found, ["Progress::resume"], "hbresp:resume", "heartbeat response: a found progress is always resumed (a lost probe cannot stall it)")
        else:
            # the dispatcher has already dropped responses of untracked senders and the handler unwraps its lookup:
            # from the unwrap on, every way out resumes
            unw = {c.block for c in cx.prog.all_calls if c.fn is f and c.data["callee"] in ("core::option::Option::unwrap", "core::option::Option::expect")
                   and any(x[0] == "call" and "ProgressTracker::get" in x[1] for x in walk(call_args(cx, c)[0]))}
            rs = call_blocks(f, "Progress::resume")
            ok = bool(unw) and bool(rs)
            for ub in unw:
                seen, work = set(), [m_ for n_ in g.by_block.get(ub, []) for m_, _ in g.edges[n_] or []]
                while work:
                    n_ = work.pop()
                    if n_ in seen:
                        continue
                    seen.add(n_)
                    bi = g.nodes[n_][0]
                    if bi in rs:
                        continue
                    if f.body.blocks[bi]["term"]["k"] == "return":
                        ok = False
                    work += [m_ for m_, _ in g.edges[n_] or []]
            cx.check(ok, "hbresp:resume", "heartbeat response: the sender's progress (looked up and unwrapped) is always resumed (a lost probe cannot stall it)")
        full = lambda l: l[0] == "is" and l[2] is True and l[1][0] == "call" and l[1][1].endswith("Inflights::full")
        _after(cx, f, full, ["Inflights::free_first_one"], "hbresp:free-one", "heartbeat response: a full window in Replicate gets one slot freed (lost acks cannot stall it)")
        behind = lambda l: l[0] == "is" and l[2] is True and l[1][0] == "bin" and l[1][1] == "Lt" and is_f(l[1][2], "Progress.matched") and l[1][3][0] == "call" and l[1][3][1].endswith("RaftLog::last_index")
        _after(cx, f, behind, ["RaftCore::send_append", "Raft::send_append"], "hbresp:send", "heartbeat response: a follower that is behind is sent an append")
        wants = lambda l: l[0] == "notin" and is_f(l[1], "Progress.pending_request_snapshot") and 0 in l[2]
        _after(cx, f, wants, ["RaftCore::send_append", "Raft::send_append"], "hbresp:send-snap", "heartbeat response: a follower that asked for a snapshot is served")
        # resume must come before the send (else the send is skipped as paused)
        rs, sd = call_blocks(f, "Progress::resume"), call_blocks(f, "RaftCore::send_append") | call_blocks(f, "Raft::send_append")
        ok = bool(rs) and bool(sd) and all(g.dominated_by_block((b, "term"), lambda bb: bb in rs) for b in sd)
        cx.check(ok, "hbresp:order", "heartbeat response: resume precedes the re-send")
    # --- append response
    ar = arm_fns(cx, "MsgAppendResponse")
    cx.check(bool(ar), "appresp:handler", "a MsgAppendResponse handler exists")
    for f in ar.values():
        decr = lambda l: l[0] == "is" and l[2] is True and l[1][0] == "call" and l[1][1].endswith("Progress::maybe_decr_to")
        _after(cx, f, decr, ["Raft::send_append", "RaftCore::send_append"], "reject:send", "rejected append: after a successful decrement the leader probes again")
        g = cx.pg(f)
        # Replicate -> become_probe on reject
        bp = call_blocks(f, "Progress::become_probe")
        okp = False
        for c in cx.prog.call_sites_of("Progress::become_probe"):
            if c.fn is f:
                gl = cx.guard_lits(c)
                if any(decr(l) for l in gl) and any(lit_state("Replicate")(l) for l in gl):
                    okp = True
        cx.check(okp, "reject:to-probe", "rejected append in Replicate: the progress falls back to Probe")
        upd = lambda l: l[0] == "is" and l[2] is True and l[1][0] == "call" and l[1][1].endswith("Progress::maybe_update")
        for st, suf, txt in (("Probe", "Progress::become_replicate", "accepted append in Probe: switch to Replicate"),
                             ("Replicate", "Inflights::free_to", "accepted append in Replicate: free the window up to the acknowledged index")):
            ok = False
            for c in cx.prog.call_sites_of(suf):
                if c.fn is f:
                    gl = cx.guard_lits(c)
                    if any(upd(l) for l in gl) and any(lit_state(st)(l) for l in gl):
                        ok = True
                        if suf.endswith("free_to"):
                            ok = is_f(call_args(cx, c)[1], "Message.index")
            cx.check(ok, "accept:" + st, txt)
        caught = lambda l: l[0] == "is" and l[2] is True and l[1][0] == "call" and l[1][1].endswith("is_snapshot_caught_up")
        _after(cx, f, caught, ["Progress::become_probe"], "accept:Snapshot", "accepted append in Snapshot: once caught up the progress leaves Snapshot")
    # --- snapshot status
    ss = arm_fns(cx, "MsgSnapStatus")
    cx.check(bool(ss), "snapstatus:handler", "a MsgSnapStatus handler exists")
    for f in ss.values():
        in_snap = lit_state("Snapshot")
        _after(cx, f, in_snap, ["Progress::become_probe"], "snapstatus:probe", "snapshot status (either outcome): the progress leaves Snapshot")
        _after(cx, f, in_snap, ["Progress::pause"], "snapstatus:pause", "snapshot status: wait for the next heartbeat / ack before re-sending")
        rej = lambda l: l[0] == "is" and l[2] is True and is_f(l[1], "Message.reject")
        _after(cx, f, rej, ["Progress::snapshot_failure"], "snapstatus:failure", "snapshot failure clears the pending snapshot index", fresh_only=True)
        ws = [s for s in cx.prog.writes.get("Progress.pending_request_snapshot", []) if s.fn is f and "stmt" in s.data and write_value(cx, s) == ("int", 0)]
        cx.check(bool(ws), "snapstatus:clear-request", "snapshot status clears the follower's snapshot request")
        gss = cx.pg(f)
        wb = {w.block for w in ws}
        okc, nc = gss.after_edge_must_pass(lambda lits: any(in_snap(l) for l in lits), lambda b: b in wb)
        cx.check(okc and nc >= 1, "snapstatus:clear-request:always", "... on BOTH outcomes (a request kept after a failed snapshot makes the leader push another snapshot the follower no longer asks for)")
    # --- unreachable
    ur = arm_fns(cx, "MsgUnreachable")
    cx.check(bool(ur), "unreachable:handler", "a MsgUnreachable handler exists")
    for f in ur.values():
        _after(cx, f, lit_state("Replicate"), ["Progress::become_probe"], "unreachable:probe", "unreachable peer in Replicate: fall back to Probe")
    # shapes of the transitions used above
    for name, writes in (("Progress::resume", ("Progress.paused", ("bool", False))), ("Progress::pause", ("Progress.paused", ("bool", True)))):
        f = cx.fn(name)
        ws = [s for s in cx.prog.writes.get(writes[0], []) if s.fn is f and "stmt" in s.data]
        cx.check(len(ws) == 1 and write_value(cx, ws[0]) == writes[1], "shape:" + name, "%s sets paused := %s" % (name, show(writes[1])))
    rst = cx.fn("Progress::reset_state")
    ws = {s.data["field"] for s, fk, pl in cx.prog.direct_writes(rst.key)}
    calls = {sp.split("::")[-1] for sp, s in cx.prog.calls_out[rst.key] if s.kind == "call"}
    cx.check({"Progress.paused", "Progress.pending_snapshot", "Progress.state"} <= ws and "reset" in calls, "shape:reset_state", "every state change clears paused, pending_snapshot and the inflight window")


@obligation("FLOW.window_capacity", ["C13"], floor=4, kind="pairing (every clear of the pending capacity applies or cancels it)",
            why="a runtime shrink of max_inflight_msgs is parked in incoming_cap while the window is busy; dropping the parked value without applying it leaves the old, larger window in force")
def window_capacity(cx):
    IC, CAP = "Inflights.incoming_cap", "Inflights.cap"
    n = 0
    capw = [s for s in cx.prog.writes.get(CAP, []) if "stmt" in s.data]
    for s in cx.prog.writes.get(IC, []):
        key = cx.site_key(s, "clear:" + IC)
        a = cx.prog.A(s.fn)
        g = cx.pg(s.fn)
        if "stmt" in s.data:
            v = write_value(cx, s)
            if v[0] == "adt" and v[1].endswith("Option::Some"):
                # parking: the requested capacity, only while the window is busy and the request shrinks it
                cx.check(v[2][0][1][0] == "param", cx.site_key(s, "park"), "the parked capacity is the requested one", s)
                n += 1
                continue
            if v != ("enum", "core::option::Option", "None"):
                cx.bad(key, "unrecognised write of incoming_cap: %s" % show(v)[:80], s)
                continue
            # cleared: either the request equals the capacity in force, or the request is applied on the same path
            same = [w for w in capw if w.fn is s.fn and write_value(cx, w)[0] == "param" and (w.block == s.block or g.dominated_by_block(s.at, lambda b, w=w: b == w.block) or g.dominated_by_block(w.at, lambda b: b == s.block))]
            equal = any(l[0] == "in" and l[2] == frozenset(["Equal"]) for l in cx.guard_lits(s)) or \
                any(l[0] == "is" and l[2] is True and l[1][0] == "bin" and l[1][1] == "Eq" and any(is_f(x, CAP) for x in l[1][2:4]) and any(x[0] == "param" for x in l[1][2:4]) for l in cx.guard_lits(s))
            cx.check(bool(same) or equal, key, "incoming_cap is cleared only when the requested capacity is applied (cap := request) or equals the one in force", s)
            n += 1
        else:
            # Option::take(): the taken value must reach `cap`
            took = [w for w in capw if w.fn is s.fn and any(x[0] == "call" and x[1].endswith("Option::take") and any(is_f(y, IC) for y in walk(x)) for x in walk(write_value(cx, w)))]
            cx.check(bool(took), key, "a taken incoming_cap is applied: cap := the taken value (else the capacity in force)", s)
            for w in took:
                v = write_value(cx, w)
                okv = (v[0] == "vfield" and v[1][0] == "call" and v[1][1].endswith("Option::take")) or (v[0] == "call" and v[1].endswith("unwrap_or") and is_f(v[2][1], CAP))
                cx.check(okv, cx.site_key(w, "apply"), "cap := incoming_cap.take() if any, else unchanged (found %s)" % show(v)[:100], w)
            n += 1
    cx.check(n >= 4, "floor", "capacity sites were found")


@obligation("FLOW.broadcast_targets", ["C10", "C13", "C08"], floor=2, kind="iteration shape (filter predicate / loop guard)",
            why="heartbeat responses are what un-pauses a probing peer, frees a full window and completes ReadIndex rounds; appends are how every peer (learners included) catches up: a broadcast that skips anyone but the node itself stalls that peer for good")
def broadcast_targets(cx):
    from ..idioms import closure_returns
    n = 0
    for name, callee in (("Raft::bcast_append", "send_append"), ("Raft::bcast_heartbeat_with_ctx", "send_heartbeat")):
        f = cx.fn(name)
        a = cx.prog.A(f)
        fname = fn_name(f)
        filt = [c for c in cx.prog.all_calls if c.fn is f and c.data["callee"].endswith("::filter")]
        okf = None
        if filt:
            # iterator form: prs.iter_mut().filter(|(id, _)| id != self_id).for_each(send)
            okf = len(filt) == 1
            for c in filt:
                args = call_args(cx, c)
                cl = [x for x in args if x[0] == "closure"]
                src_ok = any(y[0] == "call" and y[1].endswith("ProgressTracker::iter_mut") for y in walk(args[0])) or any(y[0] == "field" and y[2] == "ProgressTracker.progress" for y in walk(args[0]))
                r = closure_returns(cx.prog, cl[0][1]) if cl else None
                okc = bool(r) and len(r) == 1 and not r[0][0] and r[0][1][0] == "bin" and r[0][1][1] == "Ne" and any(x[0] == "upvar" for x in r[0][1][2:4])
                okf = okf and src_ok and okc
            cx.check(okf, fname + ":targets", "%s reaches every tracked peer except the node itself (filter is exactly `id != self.id`)" % fname, filt[0])
        else:
            # loop form: for (id, pr) in prs.iter_mut() { if id == self_id { continue } send(..) }
            sends = [c for c in cx.prog.all_calls if c.fn is f and c.data["callee"].endswith(callee)]
            okf = bool(sends)
            for c in sends:
                extra = []
                for l in cx.guard_lits(c):
                    if l[0] == "in" and l[2] == frozenset(["Some"]) and l[1][0] == "call" and l[1][1].endswith("::next"):
                        continue
                    if l[0] == "is" and l[2] is False and l[1][0] == "bin" and l[1][1] == "Eq" and any(is_f(x, "RaftCore.id") or x[0] == "local" for x in l[1][2:4]):
                        continue
                    extra.append(l)
                okf = okf and not extra
            cx.check(okf, fname + ":targets", "%s reaches every tracked peer except the node itself (no condition besides `id != self.id`)" % fname, sends[0] if sends else None)
        n += 1
    cx.check(n >= 2, "floor", "both broadcasts were found")


@obligation("FLOW.window_writers", ["C13", "C20"], floor=4, kind="who-may-write",
            why="the ring arithmetic of the in-flight window (wrap of start, count) lives in add / free_to / reset / set_cap; a second place that moves start or count without the wrap indexes past the buffer")
def window_writers(cx):
    allowed = {"add", "free_to", "reset", "set_cap", "new", "maybe_free_buffer"}
    n = 0
    for fk in ("Inflights.start", "Inflights.count"):
        for s in cx.prog.writes.get(fk, []):
            if s.fn.impl_trait:
                continue
            ok = s.fn.name in allowed and (s.fn.impl_adt or "").endswith("Inflights")
            cx.check(ok, cx.site_key(s, "write:" + fk), "%s is written only by Inflights::{add, free_to, reset, set_cap} (found in %s)" % (fk, fn_name(s.fn)), s)
            n += 1
    ff = cx.fn("Inflights::free_first_one")
    fto = [c for c in cx.prog.all_calls if c.fn is ff and c.data["callee"].endswith("Inflights::free_to")]
    cx.check(len(fto) == 1, "free_first_one", "free_first_one() frees through free_to(first)")
    for c in fto:
        a = call_args(cx, c)[1]
        cx.check(any(x[0] == "field" and x[2] == "Inflights.start" for x in walk(a)) and any(x[0] == "field" and x[2] == "Inflights.buffer" for x in walk(a)), "free_first_one:arg", "free_first_one() passes buffer[start] (found %s)" % show(a)[:80], c)
    cx.check(n >= 4, "floor", "window writers were found")
    # a ring that is thrown away restarts at slot 0: wherever `buffer` is replaced by a new vector, `start := 0` lies on
    # every path through that write (before or after it) -- except the first allocation of a ring that has no storage
    # yet (`buffer.capacity() == 0`), whose start is 0 by this very rule
    nb = 0
    for s in cx.prog.writes.get("Inflights.buffer", []):
        if s.fn.impl_trait or "stmt" not in s.data or s.fn.name == "new" or s.fn.name == "with_capacity":
            continue
        if s.data["stmt"]["place"]["p"] and any(isinstance(p_, dict) and "index" in p_ or isinstance(p_, dict) and "cindex" in p_ for p_ in s.data["stmt"]["place"]["p"]):
            continue   # an element store, not a replacement of the ring
        g = cx.pg(s.fn)
        zero = {w.block for w in cx.prog.writes.get("Inflights.start", []) if w.fn is s.fn and "stmt" in w.data and write_value(cx, w) == ("int", 0)}
        unalloc = any(l[0] in ("in", "is") and "capacity" in show(l[1]) and contains(fld("Inflights.buffer"), l[1]) for l in cx.guard_lits(s))
        before = bool(zero) and g.dominated_by_block(s.at, lambda b: b in zero)
        after = bool(zero)
        if after and not before:
            seen, work = set(), list(g.by_block.get(s.block, []))
            while work and after:
                n_ = work.pop()
                if n_ in seen:
                    continue
                seen.add(n_)
                bi = g.nodes[n_][0]
                if bi in zero:
                    continue
                if s.fn.body.blocks[bi]["term"]["k"] == "return":
                    after = False
                work += [m for m, _ in g.edges[n_] or []]
        nb += 1
        cx.check(unalloc or before or after, cx.site_key(s, "ring-restart"), "replacing the ring buffer rewinds `start` to 0 in the same step (%s)" % fn_name(s.fn), s)
    cx.check(nb >= 3, "ring-restart:floor", "the sites replacing the ring buffer were found")


@obligation("FLOW.resume_sources", ["C13"], floor=3, kind="who-may-call + guard",
            why="while probing, `paused` is the only thing that keeps a second append from going out before the first is answered: only fresh evidence (an advancing ack, a non-stale rejection, a heartbeat response, a state change) may clear it")
def resume_sources(cx):
    unp = {s.fn.key: s.fn for s in cx.prog.writes.get("Progress.paused", []) if "stmt" in s.data and write_value(cx, s) == ("bool", False)}
    hb = arm_fns(cx, "MsgHeartbeatResponse")
    n = 0
    kinds = set()
    for k, f in unp.items():
        if STATE_P in [w for w in cx.prog.modset(f)] and any(s.fn is f for s in cx.prog.writes.get(STATE_P, [])):
            kinds.add("transition")
            continue   # a state transition / reset: checked by FLOW.transitions
        if any(s.fn is f for s in cx.prog.writes.get("Progress.matched", [])):
            kinds.add("transition")
            continue   # Progress::reset
        for c in callers_of(cx, f):
            key = cx.site_key(c, "resume")
            if c.fn.key in hb or any(c.fn.key == h.key for h in hb.values()):
                kinds.add("heartbeat")
                cx.ok(key, "heartbeat response: one more probe per heartbeat interval", c)
                n += 1
                continue
            if any(s.fn is c.fn for s in cx.prog.writes.get("Progress.matched", [])):
                def advancing(l):
                    return l[0] == "is" and l[2] is True and l[1][0] == "bin" and l[1][1] == "Lt" and is_f(l[1][2], "Progress.matched") and l[1][3][0] == "param"
                require(cx, c, key, "an acknowledgement un-pauses the progress only if it advances matched (a stale or duplicated ack must not)", advancing, kill=False)
                kinds.add("ack")
                n += 1
                continue
            if any(s.fn is c.fn for s in cx.prog.writes.get("Progress.next_idx", [])):
                def fresh(l):
                    if l[0] == "notin" and l[1][0] == "param" and 0 in l[2]:
                        return True
                    if l[0] == "is" and l[1][0] == "bin" and l[1][1] == "Eq":
                        xs = l[1][2:4]
                        if any(x[0] == "param" for x in xs) and any(x[0] == "bin" and x[1] == "Sub" and is_f(x[2], "Progress.next_idx") and x[3] == ("int", 1) for x in xs):
                            return l[2] is True
                    return False
                require(cx, c, key, "a rejection un-pauses the progress only if it answers the outstanding probe (rejected == next_idx - 1) or asks for a snapshot", fresh, kill=False)
                kinds.add("reject")
                n += 1
                continue
            cx.bad(key, "the progress is un-paused at a site that is neither an advancing ack, a non-stale rejection, a heartbeat response nor a state transition", c)
    for k in ("ack", "reject", "heartbeat", "transition"):
        cx.check(k in kinds, "kind:" + k, "un-pausing on %s was found" % k)
    cx.check(n >= 3, "floor", "resume sites were found")


@obligation("FLOW.timers", ["C10", "C16", "C17"], floor=5, kind="pairing (after-edge must-pass) + value shape",
            why="without the timers nothing is ever elected, heartbeats stop, and a dead quorum or a stuck transfer is never noticed")
def timers(cx):
    from .step import self_step_templates
    te = cx.fn("Raft::tick_election")
    th = cx.fn("Raft::tick_heartbeat")
    def incr(fn, key):
        ws = [s for s in cx.prog.writes.get(key, []) if s.fn is fn and "stmt" in s.data]
        return any(match(("bin", "Add", alt(fld(key), ("int", 1)), alt(fld(key), ("int", 1))), write_value(cx, s)) is not None for s in ws), ws
    ok, ws = incr(te, "RaftCore.election_elapsed")
    cx.check(ok, "election:+1", "tick_election advances election_elapsed by one")
    # ... on every tick, whatever the node's role in the configuration: the same counter is the lease clock of
    # non-voters (a learner that never advances it never notices a dead leader's lease running out)
    gte = cx.pg(te)
    wb = {s.block for s in ws}
    rbs = [bi for bi in sorted(cx.prog.A(te).reach) if te.body.blocks[bi]["term"]["k"] == "return"]
    cx.check(bool(wb) and all(gte.dominated_by_block((rb, "term"), lambda b: b in wb) for rb in rbs), "election:+1:always", "tick_election advances election_elapsed on every path (no early return before the increment)")
    okh, wsh = incr(th, "RaftCore.heartbeat_elapsed")
    gth = cx.pg(th)
    wbh = {s.block for s in wsh}
    rbh = [bi for bi in sorted(cx.prog.A(th).reach) if th.body.blocks[bi]["term"]["k"] == "return"]
    cx.check(bool(wbh) and all(gth.dominated_by_block((rb, "term"), lambda b: b in wbh) for rb in rbh), "heartbeat:+1:always", "tick_heartbeat advances heartbeat_elapsed on every path")
    ok, _ = incr(th, "RaftCore.election_elapsed")
    ok2, _ = incr(th, "RaftCore.heartbeat_elapsed")
    cx.check(ok and ok2, "heartbeat:+1", "tick_heartbeat advances both counters by one")
    # the heartbeat counter goes back to zero only where the beat is due (tick_heartbeat, or a helper only it calls) and on
    # a role/term change: zeroing it anywhere else (on every broadcast, say) postpones the beat for as long as that path recurs
    from .vote import reset_fns as _rfs
    rkeys = {rf.key for rf, _ in _rfs(cx).values()}
    nz = 0
    for s in cx.prog.writes.get("RaftCore.heartbeat_elapsed", []):
        if "stmt" not in s.data or write_value(cx, s) != ("int", 0):
            continue
        nz += 1
        f = s.fn
        okz = f.key in rkeys or f is th or any(w.fn is f for w in cx.prog.writes.get(STATE, [])) \
            or (bool(callers_of(cx, f)) and all(c.fn is th or c.fn.key in rkeys for c in callers_of(cx, f)))
        cx.check(okz, cx.site_key(s, "heartbeat:zero"), "heartbeat_elapsed restarts only when the beat is sent or the role changes (in %s)" % fn_name(f), s)
    cx.check(nz >= 2, "heartbeat:zero:floor", "the sites restarting the heartbeat counter were found")
    selfs = self_step_templates(cx)
    def self_blocks(fn, ty):
        return {t.site.block for t in selfs if t.fn is fn and t.types() == {ty}}
    g = cx.pg(te)
    hup = self_blocks(te, "MsgHup")
    passed = lambda l: l[0] == "is" and l[2] is True and is_f(l[1], "RaftCore.promotable")
    # both conditions hold (in whichever order they are tested): the MsgHup step follows
    both = [l for n_ in range(len(g.nodes)) for _, ls in g.edges[n_] or [] for l in ls if passed(l) or (l[0] == "is" and l[2] is True and l[1][0] == "call" and l[1][1].endswith("pass_election_timeout"))]
    ok, ne = g.after_edge_must_pass(lambda lits: any(passed(l) for l in lits), lambda b: b in hup, assume=both)
    timeout = any(l[0] == "is" and l[2] is True and l[1][0] == "call" and l[1][1].endswith("pass_election_timeout") for t in selfs if t.fn is te for l in cx.guard_lits(t.site))
    cx.check(ok and ne >= 1 and bool(hup) and timeout, "election:campaign", "tick_election: once the (randomized) timeout has passed on a promotable node, a self-addressed MsgHup is stepped")
    # (one of the two conditions is tested on every path of the election tick)
    gte2 = cx.pg(te)
    cond = lambda l: l[0] == "is" and (is_f(l[1], "RaftCore.promotable") or (l[1][0] == "call" and l[1][1].endswith("pass_election_timeout")))
    c_tested = {gte2.nodes[n_][0] for n_ in range(len(gte2.nodes)) for _, ls in gte2.edges[n_] or [] if any(cond(l) for l in ls)}
    if not gte2.truncated:
        cx.check(bool(c_tested) and all(gte2.dominated_by_block((rb, "term"), lambda b: b in c_tested) for rb in rbs), "election:campaign:every-tick",
                 "tick_election: the campaign condition is tested on every path")
    pet = cx.fn("Raft::pass_election_timeout")
    rets = cx.pg(pet).returns()
    ok = len(rets) == 1 and rets[0][1][0] == "bin" and rets[0][1] == ("bin", "Le", rets[0][1][2], rets[0][1][3]) and is_f(rets[0][1][2], "RaftCore.randomized_election_timeout") and is_f(rets[0][1][3], "RaftCore.election_elapsed")
    cx.check(ok, "election:threshold", "pass_election_timeout() = election_elapsed >= randomized_election_timeout")
    g = cx.pg(th)
    et = lambda l: l[0] == "is" and l[2] is False and l[1][0] == "bin" and l[1][1] == "Lt" and is_f(l[1][2], "RaftCore.election_elapsed") and is_f(l[1][3], "RaftCore.election_timeout")
    cq = lambda l: l[0] == "is" and l[2] is True and is_f(l[1], "RaftCore.check_quorum")
    cqb = self_blocks(th, "MsgCheckQuorum")
    ok, ne = g.after_edge_must_pass(lambda lits: any(cq(l) for l in lits), lambda b: b in cqb, fresh_only=True)
    okg = all(any(et(l) for l in cx.guard_lits(t.site)) for t in selfs if t.fn is th and t.types() == {"MsgCheckQuorum"})
    cx.check(ok and ne >= 1 and bool(cqb) and okg, "leader:check-quorum", "tick_heartbeat: every election_timeout ticks, with check_quorum on, a self-addressed MsgCheckQuorum is stepped")
    rz = {s.block for s in cx.prog.writes.get("RaftCore.election_elapsed", []) if s.fn is th and "stmt" in s.data and write_value(cx, s) == ("int", 0)}
    ok, ne = g.after_edge_must_pass(lambda lits: any(et(l) for l in lits), lambda b: b in rz)
    cx.check(ok and ne >= 1, "leader:election-reset", "tick_heartbeat: the election counter restarts when it reaches election_timeout")
    # (the election-timeout test itself is made on every leader tick: nothing returns or branches around it)
    etb = lambda l: l[0] == "is" and l[1][0] == "bin" and l[1][1] == "Lt" and is_f(l[1][2], "RaftCore.election_elapsed") and is_f(l[1][3], "RaftCore.election_timeout")
    et_tested = {g.nodes[n_][0] for n_ in range(len(g.nodes)) for _, ls in g.edges[n_] or [] if any(etb(l) for l in ls)}
    if not g.truncated:
        cx.check(bool(et_tested) and all(g.dominated_by_block((rb, "term"), lambda b: b in et_tested) for rb in rbh), "leader:election-timeout:every-tick",
                 "tick_heartbeat: the election-timeout test (lease check, transfer abort) is made on every path")
    ht = lambda l: l[0] == "is" and l[2] is False and l[1][0] == "bin" and l[1][1] == "Lt" and is_f(l[1][2], "RaftCore.heartbeat_elapsed") and is_f(l[1][3], "RaftCore.heartbeat_timeout")
    bb = self_blocks(th, "MsgBeat")
    ok, ne = g.after_edge_must_pass(lambda lits: any(ht(l) for l in lits), lambda b: b in bb)
    cx.check(ok and ne >= 1 and bool(bb), "leader:beat", "tick_heartbeat: every heartbeat_timeout ticks a self-addressed MsgBeat is stepped")
    # ... and the heartbeat timer is consulted on every tick on which the node is still leader: the lease branch (check
    # quorum, transfer abort) must not return, or short-circuit, past it -- a beat that falls on a lease tick would
    # slip, and with heartbeat_tick == election_tick - 1 every beat falls on one
    hb = lambda l: l[0] == "is" and l[1][0] == "bin" and l[1][1] == "Lt" and is_f(l[1][2], "RaftCore.heartbeat_elapsed") and is_f(l[1][3], "RaftCore.heartbeat_timeout")
    tested = set()
    st_lit = None
    for n_ in range(len(g.nodes)):
        for _, ls in g.edges[n_] or []:
            if any(hb(l) for l in ls):
                tested.add(g.nodes[n_][0])
            for l in ls:
                if l[0] in ("in", "notin") and is_f(l[1], STATE) and st_lit is None:
                    st_lit = ("in", l[1], frozenset(["Leader"]), l[3] if len(l) > 3 else None)
    if not g.truncated:
        okc = bool(tested) and all(g.dominated_by_block((rb, "term"), lambda b: b in tested, assume=[st_lit] if st_lit else None) for rb in rbh)
        cx.check(okc, "leader:beat:every-tick", "tick_heartbeat: the heartbeat timer is tested on every path on which the node is still leader (the lease branch neither returns nor short-circuits past it)")
    # MsgBeat arm broadcasts heartbeats
    okb = any(_in_msg_arm(cx, c, {"MsgBeat"}, depth=0) for c in cx.prog.call_sites_of("Raft::bcast_heartbeat")) or \
        any(_in_msg_arm(cx, c, {"MsgBeat"}, depth=0) for c in cx.prog.call_sites_of("Raft::bcast_heartbeat_with_ctx"))
    cx.check(okb, "beat:broadcast", "the MsgBeat arm broadcasts heartbeats")
    # tick dispatch
    tk = cx.fn("Raft::tick")
    g = cx.pg(tk)
    okh = oke = False
    for sp, s in cx.prog.calls_out[tk.key]:
        if s.kind != "call":
            continue
        if sp == cx.sfx("Raft::tick_heartbeat"):
            okh = g.guarded(s.at, lambda lits: any(l[0] == "in" and is_f(l[1], STATE) and l[2] == frozenset(["Leader"]) for l in lits))[0]
        if sp.endswith("tick_election"):
            oke = g.guarded(s.at, lambda lits: any(l[0] == "in" and is_f(l[1], STATE) and "Leader" not in l[2] for l in lits))[0]
    # and every role reaches one of them
    tb = call_blocks(tk, cx.sfx("Raft::tick_heartbeat")) | call_blocks(tk, "tick_election")
    rets = [bi for bi in sorted(cx.prog.A(tk).reach) if tk.body.blocks[bi]["term"]["k"] == "return"]
    allr = all(g.dominated_by_block((rb, "term"), lambda b: b in tb) for rb in rets)
    cx.check(okh and oke and allr, "tick:dispatch", "tick(): leaders run the heartbeat tick, every other role the election tick")
    # every role/term change restarts both counters and draws a fresh randomized timeout
    from .vote import reset_fns
    for k, (rf, _) in reset_fns(cx).items():
        g = cx.pg(rf)
        rets = [bi for bi in sorted(cx.prog.A(rf).reach) if rf.body.blocks[bi]["term"]["k"] == "return"]
        for fk, what in (("RaftCore.election_elapsed", "election"), ("RaftCore.heartbeat_elapsed", "heartbeat")):
            zs = {w.block for w in cx.prog.writes.get(fk, []) if w.fn is rf and "stmt" in w.data and write_value(cx, w) == ("int", 0)}
            ok = bool(zs) and all(g.dominated_by_block((rb, "term"), lambda b: b in zs) for rb in rets)
            cx.check(ok, fn_name(rf) + ":" + what + "-restart", "%s restarts the %s counter on every path" % (fn_name(rf), what))
        rb_ = {c.block for sp, c in cx.prog.calls_out[rf.key] if c.kind == "call" and "RaftCore.randomized_election_timeout" in cx.prog.modset_short(sp)}
        ok = bool(rb_) and all(g.dominated_by_block((rb, "term"), lambda b: b in rb_) for rb in rets)
        cx.check(ok, fn_name(rf) + ":randomize", "%s draws a fresh randomized election timeout on every path" % fn_name(rf))


def _is_payload_sum(cx, e):
    from ..idioms import closure_returns
    if not (e[0] == "call" and e[1].endswith("::sum") and len(e[2]) == 1):
        return False
    m = e[2][0]
    if not (m[0] == "call" and m[1].endswith("::map") and len(m[2]) == 2 and m[2][1][0] == "closure"):
        return False
    it = m[2][0]
    if not (it[0] == "call" and it[1].endswith("::iter") and it[2][0][0] == "param"):
        return False
    rets = closure_returns(cx.prog, m[2][1][1])
    if not rets or len(rets) != 1:
        return False
    r = rets[0][1]
    return r[0] == "call" and r[1].endswith("::len") and any(x[0] == "field" and x[2].endswith("Entry.data") for x in walk(r))


@obligation("FLOW.uncommitted", ["C10", "C13"], floor=3, kind="return shape + order",
            why="proposals must be refused beyond max_uncommitted_size, but one is always admitted when nothing is outstanding and empty payloads never refused")
def uncommitted(cx):
    f = cx.fn("UncommittedState::maybe_increase_uncommitted_size")
    rets = cx.pg(f).returns(limit=20000)
    g = cx.pg(f)
    adds = {s.block for s in cx.prog.writes.get("UncommittedState.uncommitted_size", []) if s.fn is f}
    tr = [lits for lits, v, _ in rets if v == ("bool", True)]
    fa = [lits for lits, v, _ in rets if v == ("bool", False)]
    def has(lits, p):
        return any(p(l) for l in lits)
    nolimit = lambda l: l[0] == "is" and l[2] is True and l[1][0] == "call" and l[1][1].startswith("raft::raft::UncommittedState::")
    size0 = lambda l: l[0] == "in" and l[2] == frozenset([0]) and l[1][0] in ("call", "local", "phi") and not is_f(l[1], "UncommittedState.uncommitted_size")
    unc0 = lambda l: l[0] == "in" and l[2] == frozenset([0]) and is_f(l[1], "UncommittedState.uncommitted_size")
    fits = lambda l: l[0] == "is" and l[2] is False and l[1][0] == "bin" and l[1][1] == "Lt" and is_f(l[1][2], "UncommittedState.max_uncommitted_size")
    over = lambda l: l[0] == "is" and l[2] is True and l[1][0] == "bin" and l[1][1] == "Lt" and is_f(l[1][2], "UncommittedState.max_uncommitted_size")
    # second accepted form: a running total over the entries, tested after each addition, charged once at the end
    # (`for e in ents { size += len(e); if !fits(size) { return false } } unc += size; true`). The exact path table
    # below is for the straight-line form; the loop form is decided by _running_total (same four facts: what is tested,
    # against what, what is charged, and that they are one and the same quantity).
    addsites0 = [s for s in cx.prog.writes.get("UncommittedState.uncommitted_size", []) if s.fn is f and "stmt" in s.data]
    if len(addsites0) == 1:
        v0 = write_value(cx, addsites0[0])
        acc = [x for x in (v0[2:4] if v0[0] == "bin" and v0[1] == "Add" else []) if x[0] in ("phi", "local") and not is_f(x, "UncommittedState.uncommitted_size")]
        if acc and _running_total(cx, f, g, acc[0], addsites0[0], rets, nolimit, unc0, fits, over):
            _uncommitted_callers(cx, f)
            return
    ok_t = bool(tr) and all(has(l, nolimit) or has(l, size0) or has(l, unc0) or has(l, fits) for l in tr)
    kinds = {k for k, p in (("nolimit", nolimit), ("size0", size0), ("unc0", unc0), ("fits", fits)) if any(has(l, p) for l in tr)}
    ok_f = bool(fa) and all(has(l, over) and not has(l, nolimit) and not has(l, size0) and not has(l, unc0) for l in fa)
    cx.check(ok_t and ok_f and kinds == {"nolimit", "size0", "unc0", "fits"}, "admission", "admit iff no limit | size == 0 | nothing outstanding | size + outstanding <= max (true-paths: %s)" % sorted(kinds))
    # the size that is tested and charged is the sum of the payload lengths of the offered entries
    szs = {l[1] for lits in tr + fa for l in lits if size0(l)}
    cx.check(len(szs) == 1, "size:one", "one payload size is tested against zero")
    for sz in szs:
        cx.check(_is_payload_sum(cx, sz), "size:shape", "the payload size is sum(len(entry.data)) over the offered entries, nothing added (found %s)" % show(sz)[:140])
        for lits in fa:
            for l in lits:
                if over(l):
                    e = l[1][3]
                    okf = e[0] == "bin" and e[1] == "Add" and sz in e[2:4] and any(is_f(x, "UncommittedState.uncommitted_size") for x in e[2:4])
                    cx.check(okf, "limit:shape", "refused iff max_uncommitted_size < size + uncommitted_size (found %s)" % show(e)[:140])
    # the counter is increased on every admitting (limited) path, by exactly the payload size, and never on a refusing one
    addsites = [s for s in cx.prog.writes.get("UncommittedState.uncommitted_size", []) if s.fn is f and "stmt" in s.data]
    cx.check(len(addsites) == 1, "accounting:site", "admission adds to uncommitted_size at one site")
    admit_edge = lambda lits: any(size0(l) or unc0(l) or fits(l) for l in lits)
    ok, ne = g.after_edge_must_pass(admit_edge, lambda b: b in adds)
    cx.check(ok and ne >= 1, "accounting", "every admitted (limited) proposal is added to uncommitted_size")
    for s in addsites:
        v = write_value(cx, s)
        okv = v[0] == "bin" and v[1] == "Add" and any(is_f(x, "UncommittedState.uncommitted_size") for x in v[2:4]) and any(x[0] in ("call", "local", "phi") for x in v[2:4])
        cx.check(okv, "accounting:value", "uncommitted_size += the payload size just admitted (found %s)" % show(v)[:120], s)
        over_edge = lambda lits: any(over(l) for l in lits)
        okr, _ = g.after_edge_never_reaches(over_edge, lambda b: b in adds)
        cx.check(okr, "accounting:refused", "a refused proposal is not charged", s)
    _uncommitted_callers(cx, f)


def _running_total(cx, f, g, acc, addsite, rets, nolimit, unc0, fits, over):
    """Loop form of the admission. Returns False (and checks nothing) if the function is not in that form."""
    a = cx.prog.A(f)
    L = acc[1]
    defs = a.defs[L]
    if len(defs) != 2 or any(d[2] != "assign" for d in defs):
        return False
    vals = [a.expr_rvalue(d[3], (d[0], d[1])) for d in defs]
    zero = [v for v in vals if v == ("int", 0)]
    step = [v for v in vals if v[0] == "bin" and v[1] == "Add"]
    if len(zero) != 1 or len(step) != 1:
        return False
    st = step[0]
    plen = [x for x in st[2:4] if x[0] == "call" and x[1].endswith("::len") and any(y[0] == "field" and y[2].endswith("Entry.data") for y in walk(x))]
    self_ref = [x for x in st[2:4] if x[0] in ("phi", "local") and x[1] == L]
    cx.check(len(plen) == 1 and len(self_ref) == 1, "size:shape", "the running total adds len(entry.data) of each offered entry, nothing else (found %s)" % show(st)[:120])
    def mentions_acc(e):
        return any((x[0] in ("phi", "local") and len(x) > 1 and x[1] == L) or (x[0] == "opaque" and str(x[1]) in ("loop:_%d" % L, "cycle:_%d" % L)) for x in walk(e))
    tested = [l for lits, v, _ in rets for l in lits if over(l) or fits(l)]
    okt = bool(tested) and all(l[1][3][0] == "bin" and l[1][3][1] == "Add" and any(mentions_acc(x) for x in l[1][3][2:4]) and any(is_f(x, "UncommittedState.uncommitted_size") for x in l[1][3][2:4]) for l in tested)
    cx.check(okt, "limit:shape", "what is tested against the limit is the running total + uncommitted_size -- the very quantity that is charged afterwards, not the size of one entry")
    adds = {addsite.block}
    fa = [lits for lits, v, _ in rets if v == ("bool", False)]
    def refusal(lits):
        # the verdict is taken by the last test on the path: total != 0, outstanding != 0, total + outstanding > max
        tail = [l for l in lits if not (l[0] == "is" and "slog" in show(l[1]))][-3:]
        return len(tail) == 3 and over(tail[2]) and any(l[0] == "notin" and 0 in l[2] and is_f(l[1], "UncommittedState.uncommitted_size") for l in tail[:2]) and \
            any(l[0] == "notin" and 0 in l[2] and mentions_acc(l[1]) for l in tail[:2]) and not any(nolimit(l) for l in lits)
    okf = bool(fa) and all(refusal(lits) for lits in fa)
    cx.check(okf, "admission", "a proposal is refused only when the limit is finite, something is outstanding and the running total no longer fits")
    okr, _ = g.after_edge_never_reaches(lambda lits: any(over(l) for l in lits), lambda b: b in adds)
    cx.check(okr, "accounting:refused", "a refused proposal is not charged", addsite)
    tb = [b for lits, v, b in rets if v == ("bool", True) and not any(nolimit(l) for l in lits)]
    okc = bool(tb) and all(b in adds or g.dominated_by_block((b, "term"), lambda bb: bb in adds, assume=[("is", l[1], False) for lits, v, _ in rets for l in lits if nolimit(l)][:1]) for b in set(tb))
    cx.check(okc, "accounting", "every admitted (limited) proposal is added to uncommitted_size")
    v = write_value(cx, addsite)
    cx.check(v[0] == "bin" and v[1] == "Add" and any(is_f(x, "UncommittedState.uncommitted_size") for x in v[2:4]), "accounting:value", "uncommitted_size += the running total just admitted (found %s)" % show(v)[:120], addsite)
    return True


def _uncommitted_callers(cx, f):
    g = cx.pg(f)
    # the leader's append asks first and appends nothing when refused
    from .append import stamp_fns
    for lf in stamp_fns(cx).values():
        gg = cx.pg(lf)
        app = [c for c in cx.prog.call_sites_of("RaftLog::append") if c.fn is lf]
        def admitted(l):
            return l[0] == "is" and l[2] is True and l[1][0] == "call" and (l[1][1] == cx.sfx("UncommittedState::maybe_increase_uncommitted_size") or cx.sfx("UncommittedState::maybe_increase_uncommitted_size") in cx.prog.reachable_fns([l[1][1]]))
        for c in app:
            require(cx, c, cx.site_key(c, "admitted"), "the leader appends proposals only after the uncommitted-size admission succeeded", admitted, kill=False)
    # ... and whatever was charged IS appended: between a successful admission and the append there is no way out
    # (a proposal charged and then dropped or blanked leaks budget until the next leadership change)
    adm_names = {cx.sfx("UncommittedState::maybe_increase_uncommitted_size")}
    sites = []
    work = list(callers_of(cx, f))
    while work:
        c = work.pop()
        try:
            rs = cx.pg(c.fn).returns(limit=50) if len(c.fn.body.blocks) <= 12 else []
        except OverflowError:
            rs = []
        if len(rs) == 1 and rs[0][1][0] == "call" and rs[0][1][1] in adm_names:
            # a forwarding wrapper (`pub fn maybe_increase..(&mut self, e) -> bool { self.uncommitted_state.maybe_increase..(e) }`)
            adm_names.add(strip_generics(c.fn.key))
            work += callers_of(cx, c.fn)
        else:
            sites.append(c)
    for c in sites:
        F = c.fn
        gF = cx.pg(F)
        reach_append = set()
        for sp, x in cx.prog.calls_out[F.key]:
            if x.kind == "call" and (sp.endswith("RaftLog::append") or any(k2.endswith("RaftLog::append") or "RaftLog::<T>::append" in k2 for k2 in cx.prog.reachable_fns([sp]))):
                reach_append.add(x.block)
        def admitted_true(l):
            return l[0] == "is" and l[2] is True and l[1][0] == "call" and l[1][1] in adm_names
        okc, nc = gF.after_edge_must_pass(lambda lits: any(admitted_true(l) for l in lits), lambda b: b in reach_append)
        cx.check(okc and nc >= 1 and bool(reach_append), cx.site_key(c, "charged-then-appended"), "every proposal charged to the uncommitted budget is appended (no exit between the admission and the append)", c)
    bl = [s for s in cx.prog.writes.get("UncommittedState.uncommitted_size", []) if "stmt" in s.data and write_value(cx, s) == ("int", 0) and any(x.fn is s.fn for x in cx.prog.writes.get(STATE, []))]
    cx.check(bool(bl), "leader-reset", "becoming leader zeroes the uncommitted size")


TAIL = "UncommittedState.last_log_tail_index"
UNC = "UncommittedState.uncommitted_size"


@obligation("FLOW.uncommitted_tail", ["C10", "C13"], floor=4, kind="who-may-write + value shape + order",
            why="entries inherited from an earlier term were never charged to this leader's budget; releasing them when they are handed out makes the leader under-count and exceed max_uncommitted_size")
def uncommitted_tail(cx):
    from ..engine import operand_read_before
    from ..idioms import closure_returns
    n = 0
    # (a) the only writer is the leader transition; the value is the last index BEFORE the leader's empty entry
    ws = [s for s in cx.prog.writes.get(TAIL, []) if "stmt" in s.data]
    cx.check(len(ws) == 1, "writers", "last_log_tail_index is assigned at one site (found %d)" % len(ws))
    for s in ws:
        key = cx.site_key(s, "write:" + TAIL)
        cx.check(any(x.fn is s.fn and "stmt" in x.data and write_value(cx, x) == ("enum", "raft::raft::StateRole", "Leader") for x in cx.prog.writes.get(STATE, [])), key + ":where", "it is assigned in the leader transition", s)
        v = write_value(cx, s)
        ok = v[0] == "call" and v[1].endswith("RaftLog::last_index")
        before = operand_read_before(cx, s.fn, s.data["stmt"]["rv"].get("use", {}), "Raft::append_entry", strict=True)
        cx.check(ok and bool(before), key, "last_log_tail_index := last_index() taken before the new leader appends its empty entry (found %s)" % show(v), s, value=show(v))
        n += 1
    # (b) the release skips exactly the entries at or below that index and sums payload bytes of the rest
    f = cx.fn("UncommittedState::maybe_reduce_uncommitted_size")
    cx.check(f is not None, "release:fn", "the release function exists")
    if f is None:
        return
    g = cx.pg(f)
    name = fn_name(f)
    sizes = set()
    def csub(e):
        return e[0] == "call" and (e[1].endswith("::checked_sub") or e[1].endswith("::saturating_sub")) and len(e[2]) == 2 and is_f(e[2][0], UNC)
    for lits, v, b in g.returns(limit=2000):
        for l in lits:
            if l[0] == "is" and l[1][0] == "bin" and l[1][1] == "Lt" and is_f(l[1][2], UNC):
                sizes.add(l[1][3])
            if l[0] == "in" and csub(l[1]):
                sizes.add(l[1][2][1])
    for s_ in [x for x in cx.prog.writes.get(UNC, []) if x.fn is f and "stmt" in x.data]:
        for x in walk(write_value(cx, s_)):
            if csub(x):
                sizes.add(x[2][1])
    cx.check(len(sizes) == 1, name + ":size", "the released size is compared with / subtracted from the outstanding size (uncommitted_size < size, checked_sub, saturating_sub)")
    for size in sizes:
        closures = [x for x in walk(size) if x[0] == "closure"]
        skip = [x for x in walk(size) if x[0] == "call" and (x[1].endswith("::skip_while") or x[1].endswith("::filter"))]
        if not skip:
            # third form: the first accounted entry is looked up, `ents[ents.iter().position(|e| e.index > tail).unwrap_or(ents.len())..]`
            # (the position predicate is a keep-predicate, like filter's; no match = nothing is accounted)
            for x in walk(size):
                if x[0] == "adt" and x[1].endswith("RangeFrom::RangeFrom"):
                    st = dict(x[2]).get("start")
                    if st is not None and st[0] == "call" and st[1].endswith("Option::unwrap_or") and len(st[2]) == 2 and st[2][0][0] == "call" and st[2][0][1].endswith("::position") \
                            and st[2][1][0] in ("call", "len") and show(st[2][1]).split("(")[0].endswith("len"):
                        skip.append(st[2][0])
        cx.check(len(skip) == 1, name + ":skip", "entries up to last_log_tail_index are skipped before summing (found %s)" % show(size)[:160])
        for sk in skip:
            cl = [a for a in sk[2] if a[0] == "closure"]
            ok = False
            if len(cl) == 1:
                caps = dict(cl[0][2])
                rets = closure_returns(cx.prog, cl[0][1])
                if rets and len(rets) == 1 and not rets[0][0]:
                    r = rets[0][1]
                    def is_idx(e):
                        return any(x[0] == "field" and x[2].endswith("Entry.index") for x in walk(e)) or any(x[0] == "call" and x[1].endswith("Entry::get_index") for x in walk(e))
                    def is_tail(e):
                        return (e[0] == "upvar" and is_f(caps.get(e[1], ("?",)), TAIL)) or is_f(e, TAIL)
                    # index <= tail   or   !(tail < index)
                    if r[0] == "bin" and r[1] == "Le" and is_idx(r[2]) and is_tail(r[3]):
                        ok = True
                    if r[0] == "bin" and r[1] == "Ge" and is_tail(r[2]) and is_idx(r[3]):
                        ok = True
                    if r[0] == "not" and r[1][0] == "bin" and r[1][1] == "Lt" and is_tail(r[1][2]) and is_idx(r[1][3]):
                        ok = True
                    if r[0] == "not" and r[1][0] == "bin" and r[1][1] == "Gt" and is_idx(r[1][2]) and is_tail(r[1][3]):
                        ok = True
                    if sk[1].endswith("::filter") or sk[1].endswith("::position"):
                        # keep-predicate: the complement
                        ok = (r[0] == "bin" and r[1] == "Gt" and is_idx(r[2]) and is_tail(r[3])) or (r[0] == "bin" and r[1] == "Lt" and is_tail(r[2]) and is_idx(r[3]))
                    shown = show(r)
                else:
                    shown = "several paths"
            else:
                shown = "no closure"
            cx.check(ok, name + ":skip-pred", "skipped while entry.index <= last_log_tail_index (found %s)" % shown)
            n += 1
        # what is summed: payload length of each remaining entry
        mp = [x for x in walk(size) if x[0] == "call" and x[1].endswith("::map")]
        okm = False
        for m in mp:
            for a in m[2]:
                if a[0] in ("closure", "fnref"):
                    from ..idioms import callable_returns
                    rets = callable_returns(cx.prog, a)
                    if rets and len(rets) == 1:
                        r = rets[0][1]
                        okm = r[0] == "call" and r[1].endswith("::len") and any(x[0] == "field" and x[2].endswith("Entry.data") for x in walk(r))
        cx.check(okm, name + ":bytes", "the released size is the sum of the payload lengths")
        n += 1
        # the counter saturates at zero, else decreases by exactly that size
        variants = []
        for s in [x for x in cx.prog.writes.get(UNC, []) if x.fn is f and "stmt" in x.data]:
            v = write_value(cx, s)
            if v[0] == "phi":
                # `counter = if enough { counter - size } else { 0 }`: one store of a value chosen earlier -- read it per path
                from ..engine import subst_phis
                try:
                    pv = g.site_values(s.at, lambda env: dict(env or {}), 2000)
                except OverflowError:
                    pv = None
                if pv:
                    seen_v = []
                    for lits_, env_ in pv:
                        v_ = subst_phis(v, env_)
                        if (frozenset(lits_), v_) not in seen_v:
                            seen_v.append((frozenset(lits_), v_))
                            variants.append((s, v_, list(lits_)))
                    continue
            variants.append((s, v, cx.guard_lits(s)))
        for s, v, lits in variants:
            cs = ("call", None)
            under = any(l[0] == "is" and l[2] is True and l[1][0] == "bin" and l[1] == ("bin", "Lt", l[1][2], size) and is_f(l[1][2], UNC) for l in lits) or \
                any(l[0] == "in" and l[2] == frozenset(["None"]) and csub(l[1]) and l[1][2][1] == size for l in lits)
            fits = any(l[0] == "is" and l[2] is False and l[1][0] == "bin" and l[1] == ("bin", "Lt", l[1][2], size) and is_f(l[1][2], UNC) for l in lits) or \
                any(l[0] == "in" and l[2] == frozenset(["Some"]) and csub(l[1]) and l[1][2][1] == size for l in lits)
            if v == ("int", 0):
                cx.check(under, cx.site_key(s, "saturate"), "the counter is zeroed only when more is released than is outstanding", s)
            elif v[0] == "call" and v[1].endswith("::saturating_sub") and csub(v) and v[2][1] == size:
                cx.ok(cx.site_key(s, "decrease"), "uncommitted_size := uncommitted_size.saturating_sub(size)", s)
            else:
                okv = (v[0] == "bin" and v[1] == "Sub" and is_f(v[2], UNC) and v[3] == size) or (v[0] == "vfield" and csub(v[1]) and v[1][2][1] == size and v[1][1].endswith("::checked_sub"))
                cx.check(okv and fits, cx.site_key(s, "decrease"), "otherwise the counter decreases by exactly the released size (found %s)" % show(v)[:120], s)
            n += 1
    cx.check(n >= 4, "floor", "tail-index sites were found")


@obligation("FLOW.transitions", ["C04", "C10", "C13", "C15"], floor=5, kind="effect shape (object-flow fragments)",
            why="a progress that keeps a stale Snapshot/paused state across a reset or transition is never sent anything again")
def transitions(cx):
    from ..templates import fragment
    from .vote import reset_fns
    from ..an import strip_generics as sg
    PSa = "raft::tracker::state::ProgressState"
    # the default state is Probe
    df = [f for k, f in cx.facts.fns.items() if "ProgressState as core::default::Default>::default" in k]
    cx.need(df, "<ProgressState as Default>::default")
    rets = cx.pg(df[0]).returns()
    cx.check(len(rets) == 1 and rets[0][1] == ("enum", PSa, "Probe"), "default", "ProgressState::default() is Probe")

    def is_probe(v):
        return v == ("enum", PSa, "Probe") or (v[0] == "call" and "ProgressState as core::default::Default>::default" in v[1])
    spec = {
        "Progress::become_probe": lambda st: is_probe(st.get("state", ("?",))),
        "Progress::become_replicate": lambda st: st.get("state") == ("enum", PSa, "Replicate"),
        "Progress::become_snapshot": lambda st: st.get("state") == ("enum", PSa, "Snapshot") and st.get("pending_snapshot", ("?",))[0] == "param",
    }
    for name, pred in spec.items():
        f = cx.fn(name)
        fr = fragment(cx.prog, f, 1, "Progress") or []
        ok = bool(fr) and all(pred(st) and st.get("paused") == ("bool", False) for _, st in fr)
        cx.check(ok, name, "%s establishes its state and clears `paused` on every path" % name, shape=[{k: show(v) for k, v in st.items() if k in ("state", "paused", "pending_snapshot", "next_idx")} for _, st in fr])
        cx.check("reset" in {sp.split("::")[-1] for sp in cx.prog.reachable_fns([sg(f.key)]) if "Inflights" in sp}, name + ":window", "%s empties the inflight window" % name)
    # the per-peer reset used on every role change
    n = 0
    for k, (rf, p) in reset_fns(cx).items():
        for sp, s in cx.prog.calls_out[rf.key]:
            if s.kind != "call" or sp not in cx.prog.short:
                continue
            f = cx.facts.fns[cx.prog.short[sp][0]]
            if f.impl_adt != "raft::tracker::progress::Progress":
                continue
            n += 1
            fr = fragment(cx.prog, f, 1, "Progress") or []
            ok = bool(fr) and all(is_probe(st.get("state", ("?",))) and st.get("paused") == ("bool", False) and st.get("pending_snapshot") == ("int", 0) and st.get("matched") == ("int", 0) and st.get("next_idx", ("?",))[0] == "param" for _, st in fr)
            cx.check(ok, "reset:" + fn_name(f), "on every role change each progress restarts in Probe, unpaused, with no pending snapshot, matched = 0 and the given next index",
                     s, shape=[{k2: show(v) for k2, v in st.items() if k2 != "*"} for _, st in fr])
            cx.check(any("Inflights::reset" in x for x in cx.prog.reachable_fns([sp])), "reset:window:" + fn_name(f), "and with an empty inflight window")
            okr = bool(fr) and all(st.get("pending_request_snapshot") == ("int", 0) for _, st in fr)
            cx.check(okr, "reset:request:" + fn_name(f), "and with the peer's recorded snapshot request forgotten (a request noted in one leadership must not be served in a later one)", s)
            a = call_args(cx, s)
            ok = match(("bin", "Add", alt(call("~RaftLog::last_index", ANY), ("int", 1)), alt(call("~RaftLog::last_index", ANY), ("int", 1))), a[1]) is not None
            cx.check(ok, "reset:next:" + fn_name(f), "the restart index is last_index + 1 (found %s)" % show(a[1]), s)
    cx.check(n >= 1, "floor:reset", "the role-change reset touches every progress")
