"""CHANGER — configuration-change algebra: type-level immutability + guards (DESIGN §5.14, C12)."""
from ..engine import obligation, require, require_all, fn_name, callers_of, call_args
from ..an import show, strip_generics, walk
from ..pat import ANY, V, match, call, fld, alt, contains
from ..pg import show_lit
from ..prog import Site
from .vote import is_f
from .flow import call_blocks
from ..idioms import closure_returns

CH = "raft::confchange::changer::Changer"
PT = "raft::tracker::ProgressTracker"


@obligation("CHANGER.immutability", ["C12"], floor=3, kind="type-level (signature / Freeze facts)",
            why="a rejected change must leave configuration and progress untouched: the changer can only read the tracker")
def immutability(cx):
    ad = cx.facts.adt(CH)
    cx.need(ad, "struct Changer")
    flds = ad["variants"][0]["fields"]
    ok = len(flds) == 1 and flds[0]["ty"].startswith("&") and not flds[0]["ty"].startswith("&mut") and "ProgressTracker" in flds[0]["ty"]
    cx.check(ok, "borrow", "Changer holds a shared reference to the tracker (field type: %s)" % [f["ty"] for f in flds])
    pt = cx.facts.adt(PT)
    cx.need(pt, "struct ProgressTracker")
    cx.check(pt["freeze"], "freeze", "ProgressTracker has no interior mutability (Freeze): nothing reachable through &ProgressTracker can change")
    for name in ("Changer::simple", "Changer::enter_joint", "Changer::leave_joint"):
        f = cx.fn(name)
        ret = f.body.local_ty(0)
        ok = "Configuration" in ret and "Result" in ret
        mods = {fk for fk in cx.prog.mod[f.key] if fk.startswith("ProgressTracker.")}
        # `(root 1 = self)` effects: none on the tracker
        rooted = {fk for (r, fk) in cx.prog.eff[f.key] if r == 1 and (fk.startswith("ProgressTracker.") or fk.startswith("Progress."))}
        cx.check(ok and not rooted, "op:" + name, "%s returns a fresh (Configuration, MapChange) and writes nothing reachable from the tracker (writes: %s)" % (name, sorted(rooted)))
    inc = cx.facts.adt("raft::confchange::changer::IncrChangeMap")
    cx.need(inc, "struct IncrChangeMap")
    base = [f for f in inc["variants"][0]["fields"] if f["name"] == "base"]
    cx.check(bool(base) and base[0]["ty"].startswith("&") and not base[0]["ty"].startswith("&mut"), "incr-map", "the incremental change map only borrows the progress map")


@obligation("CHANGER.guards", ["C12"], floor=8, kind="guard + value shape",
            why="joint/simple preconditions and the at-least-one-voter rule are what keeps quorums overlapping across a change")
def guards(cx):
    simple, enter, leave = cx.fn("Changer::simple"), cx.fn("Changer::enter_joint"), cx.fn("Changer::leave_joint")
    apply_ = cx.fn("Changer::apply")

    def joint_is(want):
        def acc(l):
            if l[0] == "is" and l[1][0] == "call" and l[1][1].endswith("confchange::joint"):
                return l[2] is want
            return False
        return acc
    # preconditions: the Ok return is reachable only with the right jointness
    for f, want, name in ((simple, False, "simple"), (enter, False, "enter_joint"), (leave, True, "leave_joint")):
        cs = [s for sp, s in cx.prog.calls_out[f.key] if s.kind == "call" and sp == cx.sfx("Changer::check_and_copy")]
        cx.check(len(cs) == 1, name + ":copy", "%s works on a copy of the current configuration" % name)
        for c in cs:
            require(cx, c, cx.site_key(c, name + ":jointness"), "%s proceeds only if the current config is %sjoint" % (name, "" if want else "not "), joint_is(want), kill=False)
    # enter_joint: at least one incoming voter, outgoing := copy of incoming before the changes
    ap = [s for sp, s in cx.prog.calls_out[enter.key] if s.kind == "call" and sp.endswith("Changer::apply")]
    cx.check(len(ap) == 1, "enter:apply", "enter_joint applies the changes once")
    for c in ap:
        def has_voter(l):
            return l[0] == "is" and l[2] is False and l[1][0] == "call" and l[1][1].endswith("is_empty") and contains(fld("Configuration.incoming"), l[1])
        require(cx, c, cx.site_key(c, "enter:nonempty"), "a zero-voter config cannot be made joint", has_voter, kill=False)
        g = cx.pg(enter)
        ext = [s for sp, s in cx.prog.calls_out[enter.key] if s.kind == "call" and sp.endswith("::extend")]
        ok = False
        for e in ext:
            a = call_args(cx, e)
            if contains(fld("Configuration.outgoing"), a[0]) and contains(fld("Configuration.incoming"), a[1]):
                ok = g.dominated_by_block(c.at, lambda b, e=e: b == e.block)
        cx.check(ok, "enter:copy-outgoing", "enter_joint copies incoming into outgoing before applying the changes")
    ws = [s for s in cx.prog.writes.get("Configuration.auto_leave", []) if s.fn is enter and "stmt" in s.data]
    cx.check(len(ws) == 1 and cx.prog.A(enter).expr_rvalue(ws[0].data["stmt"]["rv"], ws[0].at)[0] == "param", "enter:auto_leave", "enter_joint records the requested auto_leave")
    # simple: symmetric difference of incoming voters <= 1
    rets = cx.pg(simple).returns(limit=20000)
    oks = [lits for lits, v, _ in rets if v[0] == "adt" and v[1].endswith("Result::Ok")]
    def diff_le_1(l):
        return l[0] == "is" and l[2] is False and l[1][0] == "bin" and l[1][1] == "Lt" and l[1][2] == ("int", 1) and "symmetric_difference" in show(l[1][3]) and contains(fld("Configuration.incoming"), l[1][3])
    ok = bool(oks) and all(any(diff_le_1(l) for l in lits) for lits in oks)
    cx.check(ok, "simple:one-voter", "simple succeeds only if the incoming voter set changed by at most one member")
    # the comparison is against the tracker's current incoming voters
    okc = False
    for lits in oks:
        for l in lits:
            if diff_le_1(l):
                okc = contains(fld("Changer.tracker"), l[1][3])
    cx.check(okc, "simple:against-current", "the difference is taken against the current (pre-change) voters")
    # leave_joint
    g = cx.pg(leave)
    a = cx.prog.A(leave)
    ext = [s for sp, s in cx.prog.calls_out[leave.key] if s.kind == "call" and sp.endswith("::extend")]
    ok = any(contains(fld("Configuration.learners"), call_args(cx, e)[0]) and contains(fld("Configuration.learners_next"), call_args(cx, e)[1]) and "drain" in show(call_args(cx, e)[1]) for e in ext)
    cx.check(ok, "leave:promote-learners", "leave_joint moves the staged learners (learners_next, drained) into learners")
    clr = [s for sp, s in cx.prog.calls_out[leave.key] if s.kind == "call" and sp.endswith("::clear") and contains(fld("Configuration.outgoing"), call_args(cx, s)[0])]
    cx.check(len(clr) == 1, "leave:clear-outgoing", "leave_joint clears the outgoing voters")
    ws = [s for s in cx.prog.writes.get("Configuration.auto_leave", []) if s.fn is leave and "stmt" in s.data]
    cx.check(len(ws) == 1 and a.expr_rvalue(ws[0].data["stmt"]["rv"], ws[0].at) == ("bool", False), "leave:auto_leave", "leave_joint resets auto_leave")
    pushes = [s for sp, s in cx.prog.calls_out[leave.key] if s.kind == "call" and sp.endswith("Vec::push")]
    okp = False
    for p in pushes:
        def not_in(which):
            return lambda l: l[0] == "is" and l[2] is False and l[1][0] == "call" and l[1][1].endswith("::contains") and contains(fld(which), l[1])
        r1 = g.guarded(p.at, lambda lits: any(not_in("Configuration.incoming")(l) for l in lits))[0]
        r2 = g.guarded(p.at, lambda lits: any(not_in("Configuration.learners")(l) for l in lits))[0]
        v = call_args(cx, p)[1]
        okp = r1 and r2 and contains(("enum", "raft::confchange::changer::MapChangeType", "Remove"), v)
        # and it happens before outgoing is cleared
        okp = okp and bool(clr) and not g.dominated_by_block(p.at, lambda b: b == clr[0].block)
    if not pushes:
        # iterator form: changes.extend(outgoing.iter().filter(|id| !incoming.contains(id) && !learners.contains(id)).map(|id| (*id, Remove)))
        pass
        for e in ext:
            a1 = call_args(cx, e)[1]
            fl = [x for x in walk(a1) if x[0] == "call" and x[1].endswith("::filter")]
            mp = [x for x in walk(a1) if x[0] == "call" and x[1].endswith("::map")]
            if len(fl) != 1 or len(mp) != 1 or not contains(fld("Configuration.outgoing"), fl[0][2][0]):
                continue
            fc = [x for x in fl[0][2] if x[0] == "closure"]
            mc = [x for x in mp[0][2] if x[0] == "closure"]
            if len(fc) != 1 or len(mc) != 1:
                continue
            okf = True
            from ..idioms import _apply_closure
            for r in _apply_closure(cx.prog, fc[0], ("item",)) or [((), ("?",))]:
                lits, v = r[0], r[1]
                if v == ("bool", False):
                    continue
                def neg_contains(which, lits=lits, v=v):
                    inl = any(l[0] == "is" and l[2] is False and l[1][0] == "call" and l[1][1].endswith("::contains") and any(x[0] == "field" and x[2] == which for x in walk(l[1])) for l in lits)
                    inv = v[0] == "un" and v[1] == "Not" and v[2][0] == "call" and v[2][1].endswith("::contains") and any(x[0] == "field" and x[2] == which for x in walk(v[2]))
                    return inl or inv
                okf = okf and neg_contains("Configuration.incoming") and neg_contains("Configuration.learners") and (v == ("bool", True) or v[0] == "un")
            mr = closure_returns(cx.prog, mc[0][1]) or []
            okm = len(mr) == 1 and contains(("enum", "raft::confchange::changer::MapChangeType", "Remove"), mr[0][1])
            okp = okf and okm and bool(clr) and not g.dominated_by_block(e.at, lambda b: b == clr[0].block)
    cx.check(okp, "leave:remove-progress", "leave_joint removes the progress of outgoing voters that are neither incoming voters nor learners (before clearing outgoing)")
    # apply(): node_id == 0 skipped, at least one voter afterwards, dispatch by change type
    g = cx.pg(apply_)
    disp = {}
    # `for cc in ccs.iter().filter(|cc| cc.node_id != 0)`: the zero ids are dropped by the iterator itself
    filt_blocks = set()
    for sp, s in cx.prog.calls_out[apply_.key]:
        if s.kind == "call" and sp.endswith("::filter"):
            fa = call_args(cx, s)
            if len(fa) == 2 and fa[1][0] == "closure":
                rr = closure_returns(cx.prog, fa[1][1]) or []
                if len(rr) == 1 and rr[0][1][0] == "bin" and rr[0][1][1] == "Ne" and ("int", 0) in rr[0][1][2:4] and any(x[0] == "field" and x[2] == "ConfChangeSingle.node_id" for x in walk(rr[0][1])):
                    filt_blocks.add(s.block)
    for sp, s in cx.prog.calls_out[apply_.key]:
        if s.kind != "call":
            continue
        for l in cx.guard_lits(s):
            if l[0] == "in" and is_f(l[1], "ConfChangeSingle.change_type") and len(l[2]) == 1:
                disp[list(l[2])[0]] = sp.split("::")[-1]
                nz = any(x[0] == "notin" and is_f(x[1], "ConfChangeSingle.node_id") and 0 in x[2] for x in cx.guard_lits(s)) or \
                    (bool(filt_blocks) and g.dominated_by_block(s.at, lambda b: b in filt_blocks) and any(y[0] == "call" and "Filter" in y[1] and y[1].endswith("::next") for x in cx.guard_lits(s) for y in walk(x[1])))
                cx.check(nz, "apply:skip-zero:" + sp.split("::")[-1], "changes naming node 0 are skipped", s)
    want = {"AddNode": cx.fn("Changer::make_voter").name, "AddLearnerNode": cx.fn("Changer::make_learner").name, "RemoveNode": cx.fn("Changer::remove").name}
    cx.check(disp == want and len(set(disp.values())) == 3, "apply:dispatch", "apply dispatches AddNode/AddLearnerNode/RemoveNode to three distinct operations (their effects are decided by CHANGER.disjointness) (found %s)" % disp)
    rets = cx.pg(apply_).returns(limit=20000)
    oks = [lits for lits, v, _ in rets if not (v[0] == "adt" and v[1].endswith("Result::Err"))]
    ok = bool(oks) and all(any(l[0] == "is" and l[2] is False and l[1][0] == "call" and l[1][1].endswith("is_empty") and contains(fld("Configuration.incoming"), l[1]) for l in lits) for lits in oks)
    cx.check(ok, "apply:at-least-one-voter", "apply succeeds only if at least one incoming voter remains")


@obligation("CHANGER.disjointness", ["C12"], floor=6, kind="effect shape per operation",
            why="voters and learners must stay disjoint and staged learners must stay inside the outgoing voters")
def disjointness(cx):
    def ops(f):
        """[(set-field, method, site)] for HashSet insert/remove on configuration fields"""
        out = []
        for sp, s in cx.prog.calls_out[f.key]:
            if s.kind != "call":
                continue
            m = sp.rsplit("::", 1)[-1]
            if m in ("insert", "remove"):
                a0 = call_args(cx, s)[0]
                for key in ("Configuration.incoming", "Configuration.outgoing", "Configuration.learners_next", "Configuration.learners"):
                    if contains(fld(key), a0):
                        out.append((key.split(".")[1], m, s))
                        break
        return out
    def unconditional(f, o, wanted, name):
        """after the `id is tracked` test, every wanted set operation lies on every path to the return"""
        g = cx.pg(f)
        tracked = lambda lits: any(l[0] == "is" and l[2] is True and l[1][0] == "call" and l[1][1] == cx.sfx("IncrChangeMap::contains") for l in lits)
        for k, m in wanted:
            blocks = {s.block for kk, mm, s in o if (kk, mm) == (k, m)}
            ok, ne = g.after_edge_must_pass(tracked, lambda b: b in blocks, assume=getattr(unconditional, "assume", None))
            cx.check(ok and ne >= 1 and bool(blocks), name + ":always:" + k + "." + m, "%s: for a tracked id, %s.%s(id) happens on every path (not behind a further condition)" % (name, k, m))
    mv = cx.fn("Changer::make_voter")
    o = ops(mv)
    unconditional(mv, o, [("incoming", "insert"), ("learners", "remove"), ("learners_next", "remove")], "make_voter")
    got = {(k, m) for k, m, s in o}
    cx.check({("incoming", "insert"), ("learners", "remove"), ("learners_next", "remove")} <= got, "make_voter", "make_voter: incoming += id; learners -= id; learners_next -= id (found %s)" % sorted(got))
    ml = cx.fn("Changer::make_learner")
    o = ops(ml)
    got = {(k, m) for k, m, s in o}
    cx.check({("incoming", "remove"), ("learners", "insert"), ("learners_next", "insert")} <= got, "make_learner", "make_learner: incoming -= id; then learners_next += id or learners += id (found %s)" % sorted(got))
    # make_learner: after `id is tracked` and `not already a learner`, the removals are unconditional
    g = cx.pg(ml)
    notl = lambda lits: any(l[0] == "is" and l[2] is False and l[1][0] == "call" and l[1][1].endswith("::contains") and contains(fld("Configuration.learners"), l[1]) and not contains(fld("Configuration.learners_next"), l[1]) for l in lits)
    for k2, m2 in (("incoming", "remove"), ("learners_next", "remove")):
        blocks = {s.block for kk, mm, s in o if (kk, mm) == (k2, m2)}
        ok, ne = g.after_edge_must_pass(notl, lambda b: b in blocks)
        cx.check(ok and ne >= 1 and bool(blocks), "make_learner:always:" + k2, "make_learner: a tracked non-learner always leaves %s" % k2)
    for k, m, s in o:
        if m != "insert":
            continue
        if any(l[0] == "is" and l[2] is False and l[1][0] == "call" and l[1][1] == cx.sfx("IncrChangeMap::contains") for l in cx.guard_lits(s)):
            continue   # the untracked-id path (checked below with the initialising helper)
        def in_out(want):
            return lambda l: l[0] == "is" and l[2] is want and l[1][0] == "call" and l[1][1].endswith("::contains") and contains(fld("Configuration.outgoing"), l[1])
        want = (k == "learners_next")
        ok = g.guarded(s.at, lambda lits: any(in_out(want)(l) for l in lits))[0]
        cx.check(ok, "make_learner:" + k, "the demoted node is staged in learners_next iff it is still an outgoing voter, else it becomes a learner at once", s)
    rm = cx.fn("Changer::remove")
    o = ops(rm)
    unconditional(rm, o, [("incoming", "remove"), ("learners", "remove"), ("learners_next", "remove")], "remove")
    got = {(k, m) for k, m, s in o}
    cx.check({("incoming", "remove"), ("learners", "remove"), ("learners_next", "remove")} <= got, "remove", "remove: id leaves incoming, learners and learners_next (found %s)" % sorted(got))
    g = cx.pg(rm)
    pushes = [s for sp, s in cx.prog.calls_out[rm.key] if s.kind == "call" and sp.endswith("Vec::push")]
    ok = len(pushes) == 1 and g.guarded(pushes[0].at, lambda lits: any(l[0] == "is" and l[2] is False and l[1][0] == "call" and l[1][1].endswith("::contains") and contains(fld("Configuration.outgoing"), l[1]) for l in lits))[0]
    cx.check(ok, "remove:keep-progress", "remove drops the progress only if the node is not an outgoing voter (it still votes in the joint config)")
    # unknown ids: make_voter adds a voter, make_learner a learner, both add a progress entry -- in the operation
    # itself or in the initialising helper it calls (where exactly the insertion is written does not matter)
    ip = cx.fn("Changer::init_progress")
    oip = ops(ip)
    ip_push = [s for sp, s in cx.prog.calls_out[ip.key] if s.kind == "call" and sp.endswith("Vec::push") and contains(("enum", "raft::confchange::changer::MapChangeType", "Add"), call_args(cx, s)[1])]
    for f, name, field in ((mv, "make_voter", "incoming"), (ml, "make_learner", "learners")):
        g = cx.pg(f)
        cs = [s for sp, s in cx.prog.calls_out[f.key] if s.kind == "call" and sp == cx.sfx("Changer::init_progress")]
        untracked = lambda lits: any(l[0] == "is" and l[2] is False and l[1][0] == "call" and l[1][1] == cx.sfx("IncrChangeMap::contains") for l in lits)
        ok = len(cs) == 1 and g.guarded(cs[0].at, untracked)[0]
        cx.check(ok, name + ":unknown", "%s initialises progress exactly for ids not yet tracked" % name)
        if len(cs) != 1:
            continue
        c = cs[0]
        args = call_args(cx, c)
        # what the helper does for THIS call (its branches on a bool parameter are resolved with the constant passed)
        active = []
        for k, m, s in oip:
            keep = True
            for l in cx.guard_lits(s):
                if l[0] == "is" and l[1][0] == "param" and ip.body.local_ty(l[1][1]) == "bool":
                    av = args[l[1][1] - 1]
                    if av[0] == "bool" and av[1] is not l[2]:
                        keep = False
            if keep:
                active.append((k, m))
        own = [(k, m) for k, m, s in ops(f) if untracked(cx.guard_lits(s))]
        eff = set(active) | set(own)
        ins = {k for k, m in eff if m == "insert"}
        cx.check(ins == {field}, name + ":unknown:member", "%s of an untracked id makes it exactly a member of `%s` (found inserts into %s)" % (name, field, sorted(ins)), c)
        own_push = [s for sp, s in cx.prog.calls_out[f.key] if s.kind == "call" and sp.endswith("Vec::push") and contains(("enum", "raft::confchange::changer::MapChangeType", "Add"), call_args(cx, s)[1]) and untracked(cx.guard_lits(s))]
        cx.check(len(ip_push) + len(own_push) == 1, name + ":unknown:progress", "%s of an untracked id adds one progress entry" % name, c)


@obligation("CHANGER.progress_sync", ["C12"], floor=2, kind="effect shape",
            why="the progress map must track exactly the members of the configuration")
def progress_sync(cx):
    ac = cx.fn("ProgressTracker::apply_conf")
    g = cx.pg(ac)
    arms = {}

    def map_ops(fn):
        """insert/remove calls on the progress map made by fn"""
        out = []
        for sp2, s2 in cx.prog.calls_out[fn.key]:
            if s2.kind == "call" and sp2.rsplit("::", 1)[-1] in ("insert", "remove") and contains(fld("ProgressTracker.progress"), call_args(cx, s2)[0]):
                out.append(sp2.rsplit("::", 1)[-1])
        return out
    for sp, s in cx.prog.calls_out[ac.key]:
        if s.kind != "call":
            continue
        m = sp.rsplit("::", 1)[-1]
        ops = []
        if m in ("insert", "remove") and contains(fld("ProgressTracker.progress"), call_args(cx, s)[0]):
            ops = [m]
        elif sp in cx.prog.short:
            # an arm body moved into a private helper of the tracker
            hf = cx.prog.fn_by_short(sp)
            if hf is not None and hf.vis != "Public" and hf.impl_adt == ac.impl_adt:
                ops = map_ops(hf)
        if len(ops) == 1:
            for l in cx.guard_lits(s):
                if l[0] == "in" and l[3] and l[3].endswith("MapChangeType") and len(l[2]) == 1:
                    arms[list(l[2])[0]] = ops[0]
    cx.check(arms == {"Add": "insert", "Remove": "remove"}, "apply_conf", "apply_conf inserts a progress for every Add and removes it for every Remove (found %s)" % arms)
    ws = [s for s in cx.prog.writes.get("ProgressTracker.conf", []) if s.fn is ac and "stmt" in s.data]
    cx.check(len(ws) == 1 and cx.prog.A(ac).expr_rvalue(ws[0].data["stmt"]["rv"], ws[0].at)[0] == "param", "apply_conf:conf", "apply_conf installs the new configuration")
    # IncrChangeMap::contains: last change wins, else the base map
    ic = cx.fn("IncrChangeMap::contains")
    rets = cx.pg(ic).returns()
    m = {}
    for lits, v, _ in rets:
        for l in lits:
            if l[0] == "in" and len(l[2]) == 1:
                m[list(l[2])[0]] = v
    ok = m.get("Remove") == ("bool", False) and m.get("Add") == ("bool", True) and any(v[0] == "call" and v[1].endswith("contains_key") for v in m.values())
    cx.check(ok, "incr-contains", "IncrChangeMap::contains: a pending Remove hides, a pending Add shows, otherwise the base map decides (found %s)" % {k: show(v) for k, v in m.items()})
    rf = [sp for sp, s in cx.prog.calls_out[ic.key] if s.kind == "call" and sp.endswith("rfind")]
    cx.check(bool(rf), "incr-contains:last-wins", "the most recent change for an id decides")
