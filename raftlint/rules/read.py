"""READ — ReadIndex in Safe mode (DESIGN §5.7)."""
import re
from ..engine import obligation, require, require_all, fn_name, callers_of, call_args
from ..an import show, strip_generics, walk
from ..pat import ANY, V, match, call, fld, alt, contains
from ..pg import show_lit
from ..idioms import term_is, closure_apply, is_param_of_adt
from .commit import write_value, _in_msg_arm
from .vote import is_f, TERM, STATE, reset_fns, msg_type_in
from .msg import tmpls, tkey


def _own_term(cx, l):
    """literal says: the entry at the commit index carries the node's own term"""
    if l[0] != "is" or l[2] is not True:
        return False
    e = l[1]
    if e[0] == "call" and e[1].endswith("Raft::commit_to_current_term"):
        return True
    r = term_is(cx.prog, l)
    return r is not None and is_f(r[1], "RaftLog.committed") and is_f(r[2], TERM)


@obligation("READ.own_term_commit", ["C08"], floor=2, kind="guard + return shape",
            why="a fresh leader would answer with a commit index that misses entries committed by its predecessor")
def own_term_commit(cx):
    f = cx.fn("Raft::commit_to_current_term")
    rets = cx.pg(f).returns()
    ok = len(rets) == 1
    if ok:
        r = term_is(cx.prog, ("is", rets[0][1], True))
        ok = r is not None and is_f(r[1], "RaftLog.committed") and is_f(r[2], TERM)
    cx.check(ok, "shape", "commit_to_current_term() = (raft_log.term(committed) == Ok(self.term))", shape=show(rets[0][1]) if rets else None)
    n = 0
    for suffix in ("ReadOnly::add_request", "Raft::handle_ready_read_index"):
        for c in cx.prog.call_sites_of(cx.sfx(suffix)):
            if not _in_msg_arm(cx, c, {"MsgReadIndex"}, depth=0):
                continue
            n += 1
            require(cx, c, cx.site_key(c, "read:" + suffix.split("::")[-1]), "a leader registers or answers a read only after it has committed an entry of its own term", lambda l: _own_term(cx, l))
    cx.check(n >= 2, "floor", "the MsgReadIndex arm registers (Safe) and answers (single voter / lease) reads")


@obligation("READ.recorded_index", ["C08", "C01", "C04", "C20"], floor=2, kind="argument source + value shape",
            why="the index promised to the reader must be the commit index at registration, and the probe must carry that request's context")
def recorded_index(cx):
    ar = cx.fn("ReadOnly::add_request")
    for c in callers_of(cx, ar):
        args = call_args(cx, c)
        key = cx.site_key(c, "call:add_request")
        ok = is_f(args[1], "RaftLog.committed") and args[2][0] == "param" and is_f(args[3], "RaftCore.id")
        cx.check(ok, key, "add_request(raft_log.committed, m, self.id) (found %s)" % [show(a) for a in args[1:]], c)
        # the heartbeat broadcast that follows carries m's context
        m = args[2]
        bc = [b for sp, b in cx.prog.calls_out[c.fn.key] if b.kind == "call" and sp == cx.sfx("Raft::bcast_heartbeat_with_ctx")]
        okb = False
        for b in bc:
            a = call_args(cx, b)[1]
            if contains(fld("Entry.data"), a) and contains(("field", m, "Message.entries"), a):
                g = cx.pg(c.fn)
                okb = okb or g.dominated_by_block(b.at, lambda bi, c=c: bi == c.block)
        cx.check(okb, key + ":probe", "registering a Safe read is followed by a heartbeat broadcast carrying that request's context", c)
    # reads answered at once (single voter, lease) and reads released later hand out either the commit index
    # or the index recorded with the request -- never anything else (last_index, persisted, applied ...)
    hr = cx.fn("Raft::handle_ready_read_index")
    nimm = 0
    for c in callers_of(cx, hr):
        args = call_args(cx, c)
        idx, req = args[2], args[1]
        imm = is_f(idx, "RaftLog.committed")
        rel = idx[0] == "field" and idx[2] == "ReadIndexStatus.index" and req[0] == "field" and req[2] == "ReadIndexStatus.req" and idx[1] == req[1]
        cx.check(imm or rel, cx.site_key(c, "read-index"), "a read is answered with raft_log.committed or with the (req, index) pair recorded at registration (found %s)" % show(idx)[:100], c)
        nimm += 1
    cx.check(nimm >= 2, "read-index:floor", "the sites answering reads were found")
    # a request whose context is already pending is not queued again (the queue and the map must stay one-to-one: a context
    # queued twice leaves `advance` with a queue entry that has no status -- its unwrap / fatal)
    pushes = [c for c in cx.prog.all_calls if c.fn is ar and c.data["callee"].endswith("VecDeque::push_back")]
    for c in pushes:
        def fresh(l):
            e = l[1]
            if l[0] == "is" and l[2] is False and e[0] == "call" and e[1].endswith("::contains_key") and any(is_f(x, "ReadOnly.pending_read_index") for x in walk(e)):
                return True
            if l[0] == "in" and l[2] in (frozenset(["Vacant"]), frozenset([1])) and e[0] == "call" and e[1].endswith("::entry") and any(is_f(x, "ReadOnly.pending_read_index") for x in walk(e)):
                return True
            if l[0] == "in" and l[2] == frozenset(["None"]) and e[0] == "call" and (e[1].endswith("HashMap::get") or e[1].endswith("HashMap::insert")) and any(is_f(x, "ReadOnly.pending_read_index") for x in walk(e)):
                return True
            return False
        require(cx, c, cx.site_key(c, "dedupe"), "a read request is queued only if its context is not already in the pending map (the whole map, not just the newest entry)", fresh, kill=False)
    # what add_request stores (directly, or through a private constructor helper it calls with its own parameters)
    ok_idx = ok_req = ok_ack = False
    cands = [(ar, None)]
    for sp, c in cx.prog.calls_out[ar.key]:
        hf = cx.prog.fn_by_short(sp) if c.kind == "call" and sp in cx.prog.short else None
        if hf is not None and hf.vis != "Public" and hf.crate == "raft":
            cands.append((hf, c))

    def from_param(h, site, v):
        """v (an expression inside h) is a parameter of add_request"""
        if v[0] != "param":
            return False
        if site is None:
            return True
        args = call_args(cx, site)
        return v[1] - 1 < len(args) and args[v[1] - 1][0] == "param"
    for h, site in cands:
        a = cx.prog.A(h)
        for bi in sorted(a.reach):
            for si, st in enumerate(h.body.blocks[bi]["stmts"]):
                if st["k"] == "assign" and st["rv"].get("agg") == "adt" and st["rv"]["adt"].endswith("ReadIndexStatus"):
                    e = a.expr_rvalue(st["rv"], (bi, si))
                    d = dict(e[2])
                    ok_idx = from_param(h, site, d.get("index", ("?",)))
                    ok_req = from_param(h, site, d.get("req", ("?",)))
                    # acks: iter::once(self_id).collect() -- the set holding exactly that one id
                    ak = d.get("acks", ("?",))
                    if ak[0] == "call" and ak[1].endswith("::collect") and len(ak[2]) == 1 and ak[2][0][0] == "call" and ak[2][0][1].endswith("iter::sources::once::once") and len(ak[2][0][2]) == 1:
                        ok_ack = ok_ack or from_param(h, site, ak[2][0][2][0])
        ins = [c for c in cx.prog.call_sites_of("HashSet::insert") if c.fn is h]
        for c in ins:
            ok_ack = ok_ack or from_param(h, site, call_args(cx, c)[1])
        # ... and with nothing else: the set the single insert goes into was created empty (acks given to an
        # earlier request were given BEFORE this one was issued)
        for c in ins:
            recv = call_args(cx, c)[0]
            if recv[0] == "local":
                ds = a.defs[recv[1]]
                empty_ctor = bool(ds) and all(d[2] == "call" and re.search(r"(HashSet::default|HashSet::new|HashSet::with_capacity(_and_hasher)?|Default>::default)$", strip_generics(h.body.blocks[d[0]]["term"]["func"].get("const", {}).get("fn", {}).get("path", ""))) for d in ds)
                ok_ack = ok_ack and empty_ctor and len(ins) == 1
                if not (empty_ctor and len(ins) == 1):
                    cx.bad("stored:acks-origin", "the ack set of a new read request starts with the leader's own id only (the set must be created empty and receive exactly that one id)", c)
    cx.check(ok_idx and ok_req and ok_ack, "stored", "add_request stores (req, index) as given and starts the ack set with the leader's own id")


def _quorum_ack_lit(cx, ctx):
    def acc(l):
        if l[0] != "is" or l[2] is not True:
            return False
        e = l[1]
        b = match(call("~ProgressTracker::has_quorum", ANY, V("s")), e)
        if b and contains(call("~ReadOnly::recv_ack", ANY, ANY, ctx), b["s"]):
            return True
        # the test is a predicate handed in by the caller and applied to this request's acknowledgements
        # (`fn ack_and_advance(.., confirmed: impl FnOnce(&HashSet<u64>) -> bool)`): every in-crate caller is decided
        # where the helper is spliced in; here only "released behind the predicate on recv_ack(from, ctx)" is left
        if e[0] == "call" and e[1].rsplit("::", 1)[-1] in ("call_once", "call", "call_mut") and len(e[2]) == 2 and e[2][0][0] == "param" and contains(call("~ReadOnly::recv_ack", ANY, ANY, ctx), e[2][1]):
            return True
        b = match(call("~Option::is_some_and", call("~ReadOnly::recv_ack", ANY, ANY, ctx), V("c")), e)
        if b:
            r = closure_apply(cx.prog, b["c"], [("arg0",)])
            return r is not None and match(call("~ProgressTracker::has_quorum", ANY, ("arg0",)), r) is not None
        return False
    return acc


@obligation("READ.quorum_ack", ["C08"], floor=2, kind="guard",
            why="a partitioned (superseded) leader must not answer reads")
def quorum_ack(cx):
    adv = cx.fn("ReadOnly::advance")
    cs = callers_of(cx, adv)
    cx.check(len(cs) >= 1, "floor", "ReadOnly::advance has callers")
    for c in cs:
        args = call_args(cx, c)
        ctx = args[1]
        require(cx, c, cx.site_key(c, "call:advance"), "pending reads are released only behind has_quorum(recv_ack(from, ctx)) for the same ctx", _quorum_ack_lit(cx, ctx), kill=False, detail={"ctx": show(ctx)})
    ra = cx.fn("ReadOnly::recv_ack")
    # an acknowledgement taken from a received message counts only if the message carries a read context: the
    # periodic heartbeat's responses have none, may have been sent before the read was issued, and must not
    # confirm a read whose own context happens to be empty
    nmsg = 0
    for c in callers_of(cx, ra):
        args = call_args(cx, c)
        if not (contains(fld("Message.context"), args[2]) and any(x[0] == "param" for x in walk(args[2]))):
            continue
        nmsg += 1
        cexpr = [x for x in walk(args[2]) if x[0] == "field" and x[2] == "Message.context"][0]
        def nonempty(l, cexpr=cexpr):
            return l[0] == "is" and l[2] is False and l[1][0] == "call" and l[1][1].endswith("is_empty") and contains(cexpr, l[1])
        require(cx, c, cx.site_key(c, "ack:context"), "a heartbeat response acknowledges pending reads only if it carries a non-empty context", nonempty, kill=False)
    cx.check(nmsg >= 1, "ack:context:floor", "the heartbeat-response path recording read acknowledgements was found")
    callees = {sp.split("::")[-1] for sp, s in cx.prog.calls_out[ra.key] if s.kind == "call"}
    clos = [sp for sp, s in cx.prog.calls_out[ra.key] if s.kind == "closure"]
    for cp in clos:
        for k in cx.prog.short.get(cp, []):
            callees |= {sp.split("::")[-1] for sp, s in cx.prog.calls_out[k] if s.kind == "call"}
    ok = "get_mut" in callees and not ({"entry", "or_insert", "or_default", "or_insert_with"} & callees) and "insert" in callees
    cx.check(ok, "recv_ack", "recv_ack only adds the acknowledging id to the set of an existing pending request (callees: %s)" % sorted(callees))
    # ... of the request the acknowledgement was sent for: every lookup into the pending-read table inside recv_ack is
    # keyed by the context that came with the acknowledgement, never by something read from the queue (an echo of an
    # older, already answered request says nothing about leadership after a younger request was issued)
    nk = 0
    for sp, s in cx.prog.calls_out[ra.key]:
        if s.kind != "call" or sp.split("::")[-1] not in ("get_mut", "get", "entry", "remove", "get_key_value"):
            continue
        a = call_args(cx, s)
        if len(a) < 2 or not contains(fld("ReadOnly.pending_read_index"), a[0]):
            continue
        nk += 1
        leaves = list(walk(a[1]))
        okk = any(x[0] == "param" for x in leaves) and not any(x[0] == "field" for x in leaves)
        cx.check(okk, cx.site_key(s, "ack:key"), "recv_ack credits the acknowledgement to the request named by the received context only (key: %s)" % show(a[1])[:120], s)
    cx.check(nk >= 1 or not ok, "ack:key:floor", "the pending-read lookup of recv_ack was found")


@obligation("READ.drop_on_reset", ["C08"], floor=1, kind="must-pass-through",
            why="acknowledgements gathered in one leadership would be counted in a later one")
def drop_on_reset(cx):
    for k, (fn, p) in reset_fns(cx).items():
        ws = [s for s in cx.prog.writes.get("RaftCore.read_only", []) if s.fn is fn and "stmt" in s.data]
        ok = False
        g = cx.pg(fn)
        for s in ws:
            v = write_value(cx, s)
            if v[0] == "call" and v[1].endswith("ReadOnly::new"):
                rets = [bi for bi in sorted(cx.prog.A(fn).reach) if fn.body.blocks[bi]["term"]["k"] == "return"]
                ok = all(g.dominated_by_block((rb, "term"), lambda b, s=s: b == s.block) for rb in rets)
        cx.check(ok, "reset:" + fn_name(fn), "every reset replaces read_only by a fresh ReadOnly::new(option) on all paths")


@obligation("READ.routing", ["C08"], floor=4, kind="who-may-call + guard + message template",
            why="a read state must be returned only on the node where the request was issued")
def routing(cx):
    pushes = []
    for c in cx.prog.call_sites_of("alloc::vec::Vec::push"):
        args = call_args(cx, c)
        if is_f(args[0], "RaftCore.read_states"):
            pushes.append(c)
    cx.check(len(pushes) >= 2, "floor", "read states are produced by the leader's local delivery and by the follower's MsgReadIndexResp arm")
    for c in pushes:
        key = cx.site_key(c, "push:read_states")
        args = call_args(cx, c)
        rs = args[1]
        if _in_msg_arm(cx, c, {"MsgReadIndexResp"}, depth=0):
            ok = rs[0] == "adt" and is_f(dict(rs[2]).get("index", ("?",)), "Message.index")
            cx.check(ok, key, "follower: the read state carries the index of the leader's response", c)
            continue
        # local delivery: req.from in {INVALID_ID, self.id}
        req = None
        exprs = [rs]
        for x in walk(rs):
            if x[0] == "local":
                init = cx.prog.A(c.fn).init_expr(x[1])
                if init is not None:
                    exprs.append(init)
        for e in exprs:
            for x in walk(e):
                if x[0] == "param" and (c.fn.body.local_adt(x[1]) or "").endswith("eraftpb::Message"):
                    req = x
        cx.check(req is not None, key + ":req", "local delivery consumes the original request", c)
        if req is None:
            continue
        def local(l, req=req):
            if l[0] == "in" and l[1] == ("field", req, "Message.from") and l[2] == frozenset([0]):
                return True
            if l[0] == "is" and l[2] is True:
                b = match(("bin", "Eq", V("a"), V("b")), l[1])
                return bool(b) and ("field", req, "Message.from") in (b["a"], b["b"]) and any(is_f(x, "RaftCore.id") for x in (b["a"], b["b"]))
            return False
        require(cx, c, key, "leader: a read state is delivered locally only if the request came from this node (from == 0 or from == self.id)", local, kill=False)
        ok = rs[0] == "adt" and dict(rs[2]).get("index", ("?",))[0] == "param"
        cx.check(ok, key + ":index", "the delivered read state carries the index recorded for the request", c)
    n = 0
    for t in tmpls(cx, {"MsgReadIndexResp"}):
        n += 1
        key = tkey(cx, t, "MsgReadIndexResp")
        to = t.get("to")
        ok = is_f(to, "Message.from")
        req = to[1] if ok else None
        ent = t.get("entries")
        ok2 = req is not None and contains(req, ent)
        cx.check(ok and ok2, key, "a remote read is answered to its requester (to = req.from) echoing its entries (found to=%s entries=%s)" % (t.show_field("to")[:60], t.show_field("entries")[:60]), t.site)
    cx.check(n >= 1, "floor:resp", "a MsgReadIndexResp template exists")
    n = 0
    for t in tmpls(cx, {"MsgHeartbeatResponse"}):
        n += 1
        c = t.get("context")
        to = t.get("to")
        m = to[1] if is_f(to, "Message.from") else None
        ok = m is not None and (c == ("field", m, "Message.context") or (c[0] == "call" and "context" in c[1] and m in c[2]))
        cx.check(ok, tkey(cx, t, "MsgHeartbeatResponse"), "a heartbeat response echoes the heartbeat's context to its sender (found %s)" % t.show_field("context"), t.site)
    cx.check(n >= 1, "floor:hbresp", "a MsgHeartbeatResponse template exists")


@obligation("READ.single_voter_fastpath", ["C08"], floor=2, kind="guard + return shape",
            why="answering a read without a heartbeat quorum round is sound only if the leader is the sole voter of every half of the configuration")
def single_voter_fastpath(cx):
    # immediate answers in the MsgReadIndex arm (not preceded by a quorum-checked advance)
    n = 0
    for c in cx.prog.call_sites_of(cx.sfx("Raft::handle_ready_read_index")):
        if not _in_msg_arm(cx, c, {"MsgReadIndex"}, depth=0):
            continue
        n += 1
        def single(l):
            return l[0] == "is" and l[2] is True and l[1][0] == "call" and l[1][1].endswith("is_singleton")
        def lease(l):
            return l[0] == "in" and is_f(l[1], "ReadOnly.option") and l[2] == frozenset(["LeaseBased"])
        require(cx, c, cx.site_key(c, "immediate"), "a read is answered immediately only for a singleton configuration (or under the lease-based option)", lambda l: single(l) or lease(l), kill=False)
    cx.check(n >= 1, "floor", "the immediate-answer sites of the MsgReadIndex arm were found")
    f = cx.fn("joint::Configuration::is_singleton")
    rets = cx.pg(f).returns()
    ok = bool(rets)
    saw_true = False
    for lits, v, _ in rets:
        empty_out = [l for l in lits if l[0] == "is" and l[1][0] == "call" and l[1][1].endswith("is_empty") and contains(fld("Configuration.outgoing"), l[1])]
        if v == ("bool", False):
            ok = ok and bool(empty_out) and empty_out[0][2] is False
        else:
            saw_true = True
            one = (v[0] == "bin" and v[1] == "Eq" and ("int", 1) in v[2:] and any(contains(fld("Configuration.incoming"), x) for x in v[2:])) or \
                any(l[0] == "in" and l[2] == frozenset([1]) and contains(fld("Configuration.incoming"), l[1]) for l in lits)
            ok = ok and bool(empty_out) and empty_out[0][2] is True and one
    cx.check(ok and saw_true, "is_singleton", "is_singleton() = outgoing.is_empty() && incoming.len() == 1", shape=[(show(v), [show_lit(l) for l in lits]) for lits, v, _ in rets])
    pf = cx.fn("ProgressTracker::is_singleton")
    rets = cx.pg(pf).returns()
    ok = len(rets) == 1 and rets[0][1][0] == "call" and rets[0][1][1].endswith("joint::Configuration::is_singleton") and contains(fld("Configuration.voters"), rets[0][1])
    cx.check(ok, "tracker", "the tracker asks its current joint configuration")
