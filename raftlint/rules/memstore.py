"""MEMSTORE — MemStorage honours the Storage contract: guard clauses only (DESIGN §5.16, C19)."""
from ..engine import obligation, require, require_all, fn_name, callers_of, call_args
from ..an import show, strip_generics, walk
from ..pat import ANY, V, match, call, fld, alt, contains
from ..pg import show_lit
from ..idioms import strip_casts
from ..templates import return_template
from ..prog import Site
from .vote import is_f

ENT = "MemStorageCore.entries"


FIRST_LAST = [None, None]


def _is_first(e):
    if e[0] == "call" and (e[1] == FIRST_LAST[0] or e[1].endswith("MemStorageCore::first_index")):
        return True
    if is_f(e, "Entry.index") and contains(fld(ENT), e):
        return contains(("int", 0), e) or any(x[0] == "call" and x[1].endswith("::first") for x in walk(e))
    return False


def _is_last(e):
    return e[0] == "call" and (e[1] == FIRST_LAST[1] or e[1].endswith("MemStorageCore::last_index"))


HAS_ENTRY = [None]


def _is_has_entry(p):
    return p == HAS_ENTRY[0]


def _nonempty(l):
    if l[0] == "is" and l[2] is True and l[1][0] == "call" and _is_has_entry(l[1][1]):
        return True
    if l[0] == "in" and l[2] == frozenset(["Some"]) and l[1][0] == "call" and (l[1][1].endswith("::first") or l[1][1].endswith("::last")) and contains(fld(ENT), l[1]):
        return True
    if l[0] == "is" and l[2] is False and l[1][0] == "call" and l[1][1].endswith("is_empty") and contains(fld(ENT), l[1]):
        return True
    return False


def _greater_than_snapshot(l):
    # three-way comparison of the snapshot point: Ordering::Greater
    if l[0] == "in" and l[2] == frozenset(["Greater"]) and contains(fld("SnapshotMetadata.index"), l[1]):
        return True
    # ... read as the comparison it stands for: stored snapshot index < the point asked for
    return l[0] == "is" and l[2] is True and l[1][0] == "bin" and l[1][1] == "Lt" and l[1][2][0] == "field" and l[1][2][2] == "SnapshotMetadata.index" and l[1][2][1][0] == "field"


@obligation("MEMSTORE.index_guards", ["C19"], floor=5, kind="bounds-guard dominance for every indexing site",
            why="an index into the entry vector that is not range-guarded answers a query with a panic or with wrong data")
def index_guards(cx):
    from ..engine import AnchorMissing
    try:
        HAS_ENTRY[0] = cx.sfx("MemStorageCore::has_entry_at")
    except AnchorMissing:
        HAS_ENTRY[0] = "\0no-such-predicate"   # the bounds predicate was dissolved into its users: their own guards decide
    FIRST_LAST[0], FIRST_LAST[1] = cx.sfx("MemStorageCore::first_index"), cx.sfx("MemStorageCore::last_index")
    n = 0
    for c in cx.prog.all_calls:
        if c.fn.crate != "raft" or "storage::" not in c.fn.key:
            continue
        sp = c.data["callee"]
        if not (sp.endswith("::index") or sp.endswith("::index_mut") or sp.endswith("::drain")):
            continue
        args = call_args(cx, c)
        if not is_f(args[0], ENT):
            continue
        n += 1
        idx = args[1]
        key = cx.site_key(c, "index:entries[%s]" % show(idx)[:50])
        if idx == ("int", 0):
            require(cx, c, key, "entries[0] needs evidence that the log is non-empty (has_entry_at / first().is_some() / !is_empty / commit > snapshot index)",
                    lambda l: _nonempty(l) or _greater_than_snapshot(l), kill=False)
            continue
        # computed positions: every `x - base` inside the index expression needs !(x < base) and an upper bound
        subs = [x for x in walk(idx) if x[0] == "bin" and x[1] == "Sub"]
        cx.check(bool(subs), key + ":shape", "a computed position is an offset `x - first` (found %s)" % show(idx)[:100], c)
        # which bound each offset needs: range start -> lower, range end -> upper (+1), single position -> both
        need = {}
        rng = [x for x in walk(idx) if x[0] == "adt" and "::Range" in x[1]]
        if rng:
            for nm, e in rng[0][2]:
                for sb in walk(e):
                    if sb[0] == "bin" and sb[1] == "Sub":
                        need[sb] = ("lower",) if nm == "start" and len(rng[0][2]) == 2 else (("upper",) if nm == "end" and len(rng[0][2]) == 2 else ("lower", "upper"))
        for sb in subs:
            x, base = sb[2], sb[3]
            cx.check(_is_first(base), key + ":base", "the offset base is the first index of the vector (found %s)" % show(base)[:80], c)
            def lower(l, x=x):
                if l[0] == "is" and l[2] is True and l[1][0] == "call" and _is_has_entry(l[1][1]) and x in l[1][2]:
                    return True
                if _greater_than_snapshot(l):
                    return True
                if l[0] == "is" and l[2] is False and l[1][0] == "bin" and l[1][1] == "Lt" and l[1][2] == x and _is_first(l[1][3]):
                    return True
                if l[0] == "is" and l[2] is True and l[1][0] == "bin" and l[1][1] == "Lt" and l[1][3] == x and _is_first(l[1][2]):
                    return True
                return False
            def upper(l, x=x):
                if l[0] == "is" and l[1][0] == "call" and _is_has_entry(l[1][1]) and l[2] is True and x in l[1][2]:
                    return True
                if _greater_than_snapshot(l):
                    return True   # commit <= last_index is the store's own invariant (assumption, see evidence)
                if l[0] == "is" and l[2] is False and l[1][0] == "bin" and l[1][1] == "Lt" and l[1][3] == x:
                    a = l[1][2]
                    return _is_last(a) or (a[0] == "bin" and a[1] == "Add" and any(_is_last(y) for y in a[2:]) and ("int", 1) in a[2:])
                return False
            clauses = []
            for nd in need.get(sb, ("lower", "upper")):
                clauses.append(("!(x < first)", lower) if nd == "lower" else ("!(x > last [+1])", upper))
            require_all(cx, c, key + ":" + show(x)[:30], "position %s - first is used only within [first, last(+1)]" % show(x)[:40], clauses, kill=False)
        if "has_entry_at" not in " ".join(show_lit(l) for l in cx.guard_lits(c)) and any(contains(fld(ENT), sb[3]) for sb in subs):
            # base read from entries[0] itself: covered by the entries[0] site above
            pass
    cx.check(n >= 5, "floor", "indexing sites into MemStorageCore.entries were found (%d)" % n)
    try:
        he = cx.fn("MemStorageCore::has_entry_at")
    except AnchorMissing:
        # a private predicate, not an anchor: every indexing site above was decided on its own dominating guards
        cx.ok("has_entry_at", "no separate bounds predicate; every indexing site carries its own range guards")
        return
    rets = cx.pg(he).returns()
    ok = bool(rets)
    for lits, v, _ in rets:
        if v == ("bool", False):
            continue
        # the true-ish path: non-empty, >= first, and the returned value is idx <= last
        ne = any(l[0] == "is" and l[2] is False and l[1][0] == "call" and l[1][1].endswith("is_empty") for l in lits)
        lo = any(l[0] == "is" and l[2] is False and l[1][0] == "bin" and l[1][1] == "Lt" and l[1][2][0] == "param" and _is_first(l[1][3]) for l in lits)
        hi = v[0] == "bin" and v[1] == "Le" and v[2][0] == "param" and _is_last(v[3])
        ok = ok and ne and lo and hi
    cx.check(ok, "has_entry_at", "has_entry_at(i) = !entries.is_empty() && i >= first_index() && i <= last_index()")


def _err(v, name):
    return any(x[0] == "enum" and x[2] == name for x in walk(v)) or any(x[0] == "adt" and x[1].endswith("::" + name) for x in walk(v))


def _limited_prefix(cx, f):
    """Second accepted form of the size limit: every successful return is `S[..k].to_vec()` with k the number of
    leading entries the limiter keeps -- all of S only when S has at most one entry or there is no limit, else the
    count of the (validated) take_while predicate fed with the caller's max_size."""
    from .logguard import limiter_closure
    try:
        rets = cx.pg(f).returns()
    except OverflowError:
        return False
    counted = 0
    for lits, v, _ in rets:
        if not (v[0] == "adt" and v[1].endswith("Result::Ok")):
            continue
        x = v[2][0][1]
        if not (x[0] == "call" and x[1].endswith("to_vec") and x[2][0][0] == "call" and x[2][0][1].endswith("::index") and len(x[2][0][2]) == 2):
            return False
        S, rng = x[2][0][2]
        if not (rng[0] == "adt" and rng[1].endswith("RangeTo::RangeTo")):
            return False
        k = strip_casts(dict(rng[2])["end"])
        if k[0] == "call" and k[1].endswith("::len") and k[2][0] == S:
            short = any(l[0] == "is" and l[2] is False and l[1][0] == "bin" and l[1][1] == "Lt" and l[1][2] == ("int", 1) and l[1][3] == k for l in lits)
            nolimit = any(l[0] == "in" and "max_size" in show(l[1]) and (l[2] == frozenset(["None"]) or l[2] == frozenset([18446744073709551615])) for l in lits)
            if not (short or nolimit):
                return False
            continue
        if k[0] == "call" and k[1].endswith("Iterator::count") and k[2][0][0] == "call" and k[2][0][1].endswith("take_while"):
            it, clos = k[2][0][2]
            if not (clos[0] == "closure" and it[0] == "call" and it[2][0] == S):
                return False
            ok1, ok2, _ = limiter_closure(cx, clos[1])
            caps = dict(clos[2])
            if not (ok1 and ok2 and any("max_size" in show(c) for c in caps.values())):
                return False
            counted += 1
            continue
        return False
    return counted >= 1


def _first_entry(l, want):
    """literal: entries.first() is Some / None"""
    return l[0] == "in" and l[2] == frozenset([want]) and l[1][0] == "call" and l[1][1].endswith("::first") and contains(fld("MemStorageCore.entries"), l[1])


def _lt(l, a_pred, b_pred, val):
    return l[0] == "is" and l[2] is val and l[1][0] == "bin" and l[1][1] == "Lt" and a_pred(l[1][2]) and b_pred(l[1][3])


def _below_first(lits):
    """idx < first_index(), also when written out over the two cases of first_index(): the first entry's index when
    there are entries, the snapshot index (+1, minus the snapshot point itself handled before) when there are none"""
    par = lambda e: e[0] == "param"
    if any(_lt(l, par, _is_first, True) for l in lits):
        return True
    if any(_first_entry(l, "Some") for l in lits) and any(_lt(l, par, lambda e: e[0] == "field" and e[2] == "Entry.index" and any(x[0] == "call" and x[1].endswith("::first") for x in walk(e)), True) for l in lits):
        return True
    if any(_first_entry(l, "None") for l in lits) and any(_lt(l, par, lambda e: contains(fld("SnapshotMetadata.index"), e), True) for l in lits):
        return True
    return False


def _above_last(lits):
    par = lambda e: e[0] == "param"
    if any(_lt(l, _is_last, par, True) for l in lits):
        return True
    # no entries: everything above the snapshot point (which was answered first) is unavailable
    if any(_first_entry(l, "None") for l in lits) and any(_lt(l, par, lambda e: contains(fld("SnapshotMetadata.index"), e), False) for l in lits) and \
            any(l[0] == "is" and l[2] is False and l[1][0] == "bin" and l[1][1] == "Eq" and contains(fld("SnapshotMetadata.index"), l[1]) for l in lits):
        return True
    return False


@obligation("MEMSTORE.error_mapping", ["C19"], floor=4, kind="return shape",
            why="compacted or not-yet-available indexes must yield the documented errors rather than wrong data")
def error_mapping(cx):
    tf = [f for f in cx.prog.find("Storage>::term") if "MemStorage" in f.key]
    cx.need(len(tf) == 1, "<MemStorage as Storage>::term")
    rets = cx.pg(tf[0]).returns()
    seen = set()
    ok = True
    for lits, v, _ in rets:
        eq_snap = [l for l in lits if l[0] == "is" and l[1][0] == "bin" and l[1][1] == "Eq" and contains(fld("SnapshotMetadata.index"), l[1])]
        if contains(fld("SnapshotMetadata.term"), v):
            ok = ok and bool(eq_snap) and eq_snap[0][2] is True and len(lits) == 1
            seen.add("snapshot")
        elif _err(v, "Compacted"):
            ok = ok and _below_first(lits)
            seen.add("compacted")
        elif _err(v, "Unavailable"):
            ok = ok and _above_last(lits)
            seen.add("unavailable")
        elif contains(fld("Entry.term"), v):
            seen.add("entry")
        else:
            ok = False
    cx.check(ok and seen == {"snapshot", "compacted", "unavailable", "entry"}, "term", "term(idx): snapshot term if idx == snapshot index (checked first); Compacted below first; Unavailable above last; else the entry's term",
             shape=sorted(seen))
    ef = [f for f in cx.prog.find("Storage>::entries") if "MemStorage" in f.key]
    cx.need(len(ef) == 1, "<MemStorage as Storage>::entries")
    f = ef[0]
    rets = cx.pg(f).returns()
    comp = [lits for lits, v, _ in rets if _err(v, "Compacted")]
    ok = bool(comp) and all(any(l[0] == "is" and l[2] is True and l[1][0] == "bin" and l[1][1] == "Lt" and l[1][2][0] == "param" and _is_first(l[1][3]) for l in lits) for lits in comp)
    cx.check(ok, "entries:compacted", "entries(low, ..) answers Compacted iff low < first_index()")
    lim = [c for c in cx.prog.all_calls if c.fn is f and c.data["callee"].endswith("util::limit_size")]
    okl = len(lim) == 1
    if okl:
        a = call_args(cx, lim[0])
        okl = "max_size" in show(a[1])
        g = cx.pg(f)
        copies = [c.block for c in cx.prog.all_calls if c.fn is f and c.data["callee"].endswith("to_vec")]
        okl = okl and bool(copies)
        # from the copy of the range, no way to a return that avoids limit_size
        for n in range(len(g.nodes)):
            if g.nodes[n][0] not in copies:
                continue
            seen, work = set(), [n]
            while work:
                x = work.pop()
                if x in seen:
                    continue
                seen.add(x)
                bi = g.nodes[x][0]
                if bi == lim[0].block:
                    continue
                if f.body.blocks[bi]["term"]["k"] == "return":
                    okl = False
                work.extend(y for y, _ in g.edges[x] or [])
    if not lim:
        okl = _limited_prefix(cx, f)
    cx.check(okl, "entries:limit", "every successful range read goes through limit_size(max_size)")
    asf = cx.fn("MemStorageCore::apply_snapshot")
    rets = cx.pg(asf).returns()
    ood = [lits for lits, v, _ in rets if _err(v, "SnapshotOutOfDate")]
    ok = bool(ood) and all(any(l[0] == "is" and l[2] is True and l[1][0] == "bin" and l[1][1] == "Lt" and _is_first(l[1][3]) for l in lits) for lits in ood)
    cx.check(ok, "apply_snapshot:out-of-date", "apply_snapshot answers SnapshotOutOfDate iff first_index() > snapshot index")
    nonood = [lits for lits, v, _ in rets if not _err(v, "SnapshotOutOfDate")]
    ok = all(any(l[0] == "is" and l[2] is False and l[1][0] == "bin" and l[1][1] == "Lt" and _is_first(l[1][3]) for l in lits) for lits in nonood)
    cx.check(ok and bool(nonood), "apply_snapshot:accept", "an up-to-date snapshot is applied")


@obligation("MEMSTORE.mutation_guards", ["C19", "C02", "C06"], floor=4, kind="guard + value shape",
            why="appends must not leave gaps or overwrite compacted indexes; compaction must drop exactly the prefix")
def mutation_guards(cx):
    ap = cx.fn("MemStorageCore::append")
    g = cx.pg(ap)
    drains = [c for c in cx.prog.all_calls if c.fn is ap and c.data["callee"].endswith("::drain")]
    cx.check(len(drains) == 1, "append:drain", "append truncates the overwritten suffix at one site")
    for c in drains:
        def not_compacted(l):
            return l[0] == "is" and l[2] is False and l[1][0] == "bin" and l[1][1] == "Lt" and is_f(l[1][2], "Entry.index") and _is_first(l[1][3])
        def no_gap(l):
            if l[0] != "is" or l[2] is not False or l[1][0] != "bin" or l[1][1] != "Lt":
                return False
            a = l[1][2]
            return is_f(l[1][3], "Entry.index") and a[0] == "bin" and a[1] == "Add" and any(_is_last(y) for y in a[2:]) and ("int", 1) in a[2:]
        require_all(cx, c, cx.site_key(c, "append"), "append proceeds only if ents[0].index >= first_index() and ents[0].index <= last_index() + 1",
                    [("no overwrite of compacted entries", not_compacted), ("no gap", no_gap)], kill=False)
        a = call_args(cx, c)[1]
        st = None
        for x in walk(a):
            if x[0] == "adt" and x[1].endswith("RangeFrom::RangeFrom"):
                st = strip_casts(dict(x[2])["start"])
        ok = st is not None and st[0] == "bin" and st[1] == "Sub" and is_f(st[2], "Entry.index") and _is_first(st[3])
        cx.check(ok, cx.site_key(c, "append:from"), "append truncates from ents[0].index - first_index() (found %s)" % (show(st) if st else None), c)
    ext = [c for c in cx.prog.all_calls if c.fn is ap and c.data["callee"].endswith("extend_from_slice")]
    ok = len(ext) == 1 and len(drains) == 1 and g.dominated_by_block(ext[0].at, lambda b: b == drains[0].block)
    cx.check(ok, "append:extend", "the new entries are appended after the truncation")
    cp = cx.fn("MemStorageCore::compact")
    drains = [c for c in cx.prog.all_calls if c.fn is cp and c.data["callee"].endswith("::drain")]
    cx.check(len(drains) == 1, "compact:drain", "compact drops a prefix at one site")
    for c in drains:
        def above_first(l):
            return l[0] == "is" and l[2] is True and l[1][0] == "bin" and l[1][1] == "Lt" and _is_first(l[1][2]) and l[1][3][0] == "param"
        def within(l):
            if l[0] != "is" or l[2] is not False or l[1][0] != "bin" or l[1][1] != "Lt":
                return False
            a = l[1][2]
            return l[1][3][0] == "param" and a[0] == "bin" and a[1] == "Add" and any(_is_last(y) for y in a[2:]) and ("int", 1) in a[2:]
        require_all(cx, c, cx.site_key(c, "compact"), "compact drains only if first_index() < compact_index <= last_index() + 1",
                    [("compact_index > first_index (else no-op)", above_first), ("compact_index <= last_index + 1 (else panic)", within)], kill=False)
        a = call_args(cx, c)[1]
        en = None
        for x in walk(a):
            if x[0] == "adt" and x[1].endswith("RangeTo::RangeTo"):
                en = strip_casts(dict(x[2])["end"])
        ok = en is not None and en[0] == "bin" and en[1] == "Sub" and en[2][0] == "param" and (is_f(en[3], "Entry.index") or _is_first(en[3]))
        cx.check(ok, cx.site_key(c, "compact:to"), "compact drains ..(compact_index - first entry index) (found %s)" % (show(en) if en else None), c)
    # the snapshot point (index, term, conf state of the last applied snapshot) changes only by applying a snapshot:
    # compaction drops entries, it does not invent a boundary term
    for s_, fk, pl in [x for k in cx.facts.fns if cx.facts.fns[k].crate == "raft" and (cx.facts.fns[k].impl_adt or "").endswith("MemStorageCore") for x in cx.prog.direct_writes(k)]:
        if fk.startswith("MemStorageCore.snapshot_metadata") or (fk.startswith("SnapshotMetadata.") and any(isinstance(p_, dict) and p_.get("n") == "snapshot_metadata" for p_ in pl.get("p", []))):
            cx.check(s_.fn.name in ("apply_snapshot",), cx.site_key(s_, "write:snapshot_metadata"), "MemStorageCore.snapshot_metadata is written only by apply_snapshot (found in %s)" % fn_name(s_.fn), s_)
    # set_hardstate(hs) stores hs -- all of it, always (a hard state that differs only in the vote is still a promise)
    sh = cx.fn("MemStorageCore::set_hardstate")
    gsh = cx.pg(sh)
    hws = [s for s, fk, pl in cx.prog.direct_writes(sh.key) if fk == "RaftState.hard_state" and "stmt" in s.data]
    okh = len(hws) == 1 and cx.prog.A(sh).expr_rvalue(hws[0].data["stmt"]["rv"], hws[0].at)[0] == "param"
    retsb = [bi for bi in sorted(cx.prog.A(sh).reach) if sh.body.blocks[bi]["term"]["k"] == "return"]
    okh = okh and all(rb == hws[0].block or gsh.dominated_by_block((rb, "term"), lambda b: b == hws[0].block) for rb in retsb)
    cx.check(okh, "set_hardstate", "set_hardstate(hs) stores the whole hard state on every path (no 'unchanged' shortcut that could drop a vote)")
    asf = cx.fn("MemStorageCore::apply_snapshot")
    clears = [c for c in cx.prog.all_calls if c.fn is asf and c.data["callee"].endswith("Vec::clear")]
    ws = {s.data["field"] for s in cx.prog.direct_writes(asf.key) for s in [s[0]]}
    ok = len(clears) == 1 and "MemStorageCore.snapshot_metadata" in ws and "HardState.commit" in ws and "RaftState.conf_state" in ws
    a = cx.prog.A(asf)
    cv = [a.expr_rvalue(s.data["stmt"]["rv"], s.at) for s, fk, pl in cx.prog.direct_writes(asf.key) if fk == "HardState.commit" and "stmt" in s.data]
    okc = len(cv) == 1 and is_f(cv[0], "SnapshotMetadata.index")
    cx.check(okc, "apply_snapshot:commit", "apply_snapshot: hard_state.commit := the snapshot's index exactly (the entries it may have pointed into are gone) (found %s)" % [show(v) for v in cv])
    tv = [a.expr_rvalue(s.data["stmt"]["rv"], s.at) for s, fk, pl in cx.prog.direct_writes(asf.key) if fk == "HardState.term" and "stmt" in s.data]
    from ..idioms import as_max
    okt = True
    for v in tv:
        mx = as_max(v)
        okt = okt and mx is not None and any(is_f(x, "HardState.term") for x in mx) and any(is_f(x, "SnapshotMetadata.term") for x in mx) and len(mx) == 2
    cx.check(okt, "apply_snapshot:term", "apply_snapshot never lowers the stored term: hard_state.term := max(hard_state.term, snapshot term) (found %s)" % [show(v) for v in tv])
    mv = [a.expr_rvalue(s.data["stmt"]["rv"], s.at) for s, fk, pl in cx.prog.direct_writes(asf.key) if fk == "MemStorageCore.snapshot_metadata" and "stmt" in s.data]
    okm = len(mv) == 1 and (mv[0][0] in ("local", "call")) 
    cx.check(okm, "apply_snapshot:meta", "apply_snapshot stores the snapshot's metadata as the new snapshot point")
    cx.check(ok, "apply_snapshot:reset", "apply_snapshot replaces the snapshot point, the commit index, the configuration and clears the entries (writes: %s)" % sorted(ws))


@obligation("MEMSTORE.snapshot", ["C19"], floor=3, kind="value shape",
            why="a snapshot taken at the stored commit index must carry that index's term and the stored configuration, and never be behind the request")
def snapshot(cx):
    sf = cx.fn("MemStorageCore::snapshot")
    a = cx.prog.A(sf)
    ws = cx.prog.direct_writes(sf.key)
    by = {}
    for s, fk, pl in ws:
        by.setdefault(fk, []).append(s)
    def val(s):
        return a.expr_rvalue(s.data["stmt"]["rv"], s.at) if "stmt" in s.data else a.expr_call(s.data["term"], s.at)
    idx = [val(s) for s in by.get("SnapshotMetadata.index", [])]
    from ..idioms import as_max
    # (the "never behind the request" fix-up may be folded in: max(hard_state.commit, request_index))
    folded = len(idx) == 1 and as_max(idx[0]) is not None and sum(1 for x in as_max(idx[0]) if is_f(x, "HardState.commit")) == 1 and sum(1 for x in as_max(idx[0]) if x[0] == "param") == 1
    cx.check((len(idx) == 1 and is_f(idx[0], "HardState.commit")) or folded, "index", "snapshot index := hard_state.commit (found %s)" % [show(v) for v in idx])
    tm = [s for s in by.get("SnapshotMetadata.term", [])]
    cx.check(len(tm) == 1, "term:one", "the snapshot term is assigned once")
    g = cx.pg(sf)
    # the three-way comparison
    rets = cx.pg(sf).returns(limit=20000)
    cases = {}
    for s in tm:
        v = val(s)
        vals = v[3] if v[0] == "phi" else (v,)
        for x in vals:
            if is_f(x, "SnapshotMetadata.term"):
                cases["Equal"] = x
            elif is_f(x, "Entry.term") and contains(fld(ENT), x):
                cases["Greater"] = x
    cx.check("Equal" in cases and "Greater" in cases, "term:cases", "term := stored snapshot term when commit == snapshot index, else the term of entries[commit - first] (cases found: %s)" % sorted(cases))
    cs = False
    for c in cx.prog.all_calls:
        if c.fn is sf and c.data["callee"].endswith("set_conf_state"):
            cs = contains(fld("RaftState.conf_state"), call_args(cx, c)[1])
    cx.check(cs, "conf_state", "the snapshot carries a copy of the stored ConfState")
    ss = [f for f in cx.prog.find("Storage>::snapshot") if "MemStorage" in f.key]
    cx.need(len(ss) == 1, "<MemStorage as Storage>::snapshot")
    f = ss[0]
    ok = False
    for s in cx.prog.writes.get("SnapshotMetadata.index", []):
        if s.fn is f and "stmt" in s.data:
            v = cx.prog.A(f).expr_rvalue(s.data["stmt"]["rv"], s.at)
            if v[0] == "param":
                def behind(l, v=v):
                    # the index compared is that of the snapshot just built (not the stored snapshot point)
                    return l[0] == "is" and l[2] is True and l[1][0] == "bin" and l[1][1] == "Lt" and is_f(l[1][2], "SnapshotMetadata.index") and l[1][3] == v and \
                        not any(x[0] == "field" and x[2] == "MemStorageCore.snapshot_metadata" for x in walk(l[1][2]))
                ok = require(cx, s, cx.site_key(s, "raise"), "the snapshot index is raised to request_index only if it is below it", behind, kill=False)
    if not ok and folded:
        # the core builder took the request index in: Storage::snapshot must pass its own request_index on
        for c in cx.prog.call_sites_of(cx.sfx("MemStorageCore::snapshot")):
            if c.fn is f:
                pi = [x for x in as_max(idx[0]) if x[0] == "param"][0][1]
                a_ = call_args(cx, c)
                ok = pi - 1 < len(a_) and a_[pi - 1][0] == "param"
    cx.check(ok, "request_index", "Storage::snapshot never returns an index below the requested one")
