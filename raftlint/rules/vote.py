"""VOTE — term, vote, role (DESIGN §5.2)."""
from ..engine import obligation, require, require_all, fn_name, callers_of, call_args
from ..an import show, strip_generics
from ..pat import ANY, V, match, call, fld, alt
from ..pg import implies, show_lit, contradicts
from ..idioms import is_param_of_adt
from .commit import write_value, ctor_sites

TERM = "RaftCore.term"
VOTE = "RaftCore.vote"
STATE = "RaftCore.state"
MSGTYPE = "raft_proto::protos::eraftpb::MessageType"
LEADER_ORIGINATED = {"MsgAppend", "MsgHeartbeat", "MsgSnapshot"}


def is_f(e, key):
    return e[0] == "field" and e[2] == key


def lit_term_changed(p):
    """accepts `!(self.term == p)`"""
    def acc(l):
        if l[0] != "is" or l[2] is not False:
            return False
        m = match(("bin", "Eq", V("a"), V("b")), l[1])
        if not m:
            return False
        a, b = m["a"], m["b"]
        return (is_f(a, TERM) and b == p) or (is_f(b, TERM) and a == p)
    return acc


def only_called_from_ctor(cx, fn, adt="raft::Raft"):
    cs = callers_of(cx, fn)
    ctors = {f.key for f, _, _, _ in ctor_sites(cx, adt)}
    return bool(cs) and all(c.fn.key in ctors for c in cs)


def reset_fns(cx):
    """Functions that contain the reset idiom: `term := p` (p a parameter) under `term != p`."""
    out = {}
    for s in cx.prog.writes.get(TERM, []):
        if s.kind != "write" or "stmt" not in s.data:
            continue
        v = write_value(cx, s)
        if v[0] == "param":
            out[s.fn.key] = (s.fn, v)
    return out


@obligation("VOTE.term_writers", ["C02", "C06", "C16"], floor=2, kind="who-may-write + guard + value",
            why="the term may change only through reset(term) under `term != new` or by reloading the hard state")
def term_writers(cx):
    ws = cx.prog.writes.get(TERM, [])
    cx.need(ws, "field RaftCore.term")
    for s in ws:
        key = cx.site_key(s, "write:" + TERM)
        if s.kind != "write" or "stmt" not in s.data:
            cx.bad(key, "RaftCore.term written by a call result / external callee", s)
            continue
        v = write_value(cx, s)
        if v[0] == "param" and not is_param_of_adt(s.fn, v, "HardState"):
            require(cx, s, key, "reset idiom: `term := %s` only under `term != %s`" % (show(v), show(v)), lit_term_changed(v), detail={"value": show(v)})
        elif is_f(v, "HardState.term") and is_param_of_adt(s.fn, v[1], "HardState"):
            cx.check(only_called_from_ctor(cx, s.fn), key, "load idiom: the hard state is loaded into term only while constructing the node", s, value=show(v))
        else:
            cx.bad(key, "unrecognised writer of RaftCore.term: value %s" % show(v), s, value=show(v))


@obligation("VOTE.vote_writers", ["C02", "C06", "C16"], floor=4, kind="who-may-write + guard + value",
            why="clearing or setting the vote outside reset/candidate/grant/load lets a node vote twice in a term")
def vote_writers(cx):
    ws = cx.prog.writes.get(VOTE, [])
    cx.need(ws, "field RaftCore.vote")
    resets = reset_fns(cx)
    kinds = set()
    for s in ws:
        key = cx.site_key(s, "write:" + VOTE)
        if s.kind != "write" or "stmt" not in s.data:
            cx.bad(key, "RaftCore.vote written by a call result / external callee", s)
            continue
        v = write_value(cx, s)
        if v == ("int", 0):
            r = resets.get(s.fn.key)
            if r is None:
                cx.bad(key, "vote cleared outside the function that changes the term", s)
                continue
            ok = require(cx, s, key, "reset idiom: `vote := INVALID_ID` only under the same `term != new` guard as the term write", lit_term_changed(r[1]),
                         kill=False)  # the term write itself sits between the guard and this write
            if ok:
                kinds.add("reset")
        elif is_f(v, "RaftCore.id"):
            # candidate idiom: after reset(self.term + 1) on all paths
            g = cx.pg(s.fn)
            a = cx.prog.A(s.fn)
            rs = {strip_generics(k) for k in resets}

            def is_bump(bi, a=a, s=s):
                t = s.fn.body.blocks[bi]["term"]
                if t["k"] != "call":
                    return False
                fc = t["func"]
                if not ("const" in fc and "fn" in fc["const"]):
                    return False
                if strip_generics(fc["const"]["fn"]["path"]) not in rs:
                    return False
                args = [a.expr_operand(o, (bi, "term")) for o in t["args"]]
                return any(match(("bin", "Add", alt(("int", 1), fld(TERM)), alt(("int", 1), fld(TERM))), x) and x[2] != x[3] for x in args)
            ok = g.dominated_by_block(s.at, is_bump)
            cx.check(ok, key, "candidate idiom: `vote := self.id` only after reset(self.term + 1) on every path", s, value=show(v))
            if ok:
                kinds.add("candidate")
        elif is_f(v, "Message.from") and is_param_of_adt(s.fn, v[1], "Message"):
            cx.ok(key, "grant idiom: `vote := m.from` (guards decided by VOTE.grant_once / VOTE.grant_guard)", s, value=show(v))
            kinds.add("grant")
        elif is_f(v, "HardState.vote") and is_param_of_adt(s.fn, v[1], "HardState"):
            ok = only_called_from_ctor(cx, s.fn)
            cx.check(ok, key, "load idiom: the hard state is loaded into vote only while constructing the node", s, value=show(v))
            if ok:
                kinds.add("load")
        else:
            cx.bad(key, "unrecognised writer of RaftCore.vote: value %s" % show(v), s, value=show(v))
    for k in ("reset", "candidate", "grant", "load"):
        cx.check(k in kinds, "idiom:" + k, "the protocol needs a %s write of the vote; none was recognised" % k)


def msg_type_in(mexpr, types):
    def acc(l):
        return l[0] == "in" and is_f(l[1], "Message.msg_type") and (mexpr is None or l[1][1] == mexpr) and l[2] <= frozenset(types)
    return acc


def grant_sites(cx):
    out = []
    for s in cx.prog.writes.get(VOTE, []):
        if s.kind == "write" and "stmt" in s.data:
            v = write_value(cx, s)
            if is_f(v, "Message.from") and is_param_of_adt(s.fn, v[1], "Message"):
                out.append((s, v[1]))
    return out


@obligation("VOTE.grant_once", ["C02", "C06"], floor=1, kind="guard + kill",
            why="a second vote in a term gives two leaders in that term")
def grant_once(cx):
    for s, m in grant_sites(cx):
        key = cx.site_key(s, "write:" + VOTE)

        def can_vote(l, m=m):
            # vote == m.from
            if l[0] == "is" and l[2] is True:
                b = match(("bin", "Eq", V("a"), V("b")), l[1])
                if b and ((is_f(b["a"], VOTE) and b["b"] == ("field", m, "Message.from")) or (is_f(b["b"], VOTE) and b["a"] == ("field", m, "Message.from"))):
                    return True
            # vote == INVALID_ID
            if l[0] == "in" and is_f(l[1], VOTE) and l[2] == frozenset([0]):
                return True
            # pre-vote disjunct (excluded below by the MsgRequestVote test)
            if msg_type_in(m, {"MsgRequestPreVote"})(l):
                return True
            return False
        require_all(cx, s, key, "grant `vote := m.from` only if (vote == m.from or vote == INVALID_ID) and the message is a real vote request",
                    [("vote is free or already given to this candidate", can_vote),
                     ("message type is MsgRequestVote", msg_type_in(m, {"MsgRequestVote"}))])


def _classify_term_arg(cx, s, arg, depth=0):
    """How is the new-term argument of a term-changing call derived? -> (ok, idiom-name)"""
    fn = s.fn
    if is_f(arg, TERM):
        return True, "SAME"
    b = match(("bin", "Add", V("a"), V("b")), arg)
    if b and ((is_f(b["a"], TERM) and b["b"] == ("int", 1)) or (is_f(b["b"], TERM) and b["a"] == ("int", 1))):
        return True, "NEXT"
    if is_f(arg, "Message.term") and is_param_of_adt(fn, arg[1], "Message"):
        m = arg[1]
        g = cx.pg(fn)

        def higher(l, arg=arg):
            return l[0] == "is" and l[2] is True and match(("bin", "Lt", fld(TERM), arg), l[1]) is not None
        ok, _ = g.guarded(s.at, lambda lits: any(higher(l) for l in lits))
        if ok:
            return True, "HIGHER"
        ok, _ = g.guarded(s.at, lambda lits: any(msg_type_in(m, LEADER_ORIGINATED)(l) for l in lits))
        if ok:
            # the candidate's arms for leader-originated traffic; equality with self.term follows from the
            # step preamble (VOTE.lower_term_returns + the higher-term branch), not re-derived here
            ok2 = _state_in(cx, s, {"Candidate", "PreCandidate"})
            return ok2, "LEADER-MSG"
        return False, "m.term without `m.term > self.term` and outside the candidate's leader-message arms"
    if arg[0] == "param":
        # PARAM-FORWARD: the obligation moves to the callers
        if depth > 3:
            return False, "forwarding chain too deep"
        cs = callers_of(cx, fn)
        if not cs:
            return True, "PARAM-FORWARD(no in-crate caller)"
        for c in cs:
            args = call_args(cx, c)
            i = arg[1] - 1
            if i >= len(args):
                return False, "arity"
            ok, why = _classify_term_arg(cx, c, args[i], depth + 1)
            key = cx.site_key(c, "call:" + fn_name(fn))
            cx.check(ok, key, "new term passed to %s: %s [%s]" % (fn_name(fn), show(args[i]), why), c, arg=show(args[i]))
        return True, "PARAM-FORWARD"
    return False, "unrecognised source"


def _state_in(cx, s, states, depth=2):
    def acc(l):
        return l[0] == "in" and is_f(l[1], STATE) and l[2] <= frozenset(states)
    g = cx.pg(s.fn)
    ok, _ = g.guarded(s.at, lambda lits: any(acc(l) for l in lits))
    if ok:
        return True
    if depth <= 0:
        return False
    cs = callers_of(cx, s.fn)
    return bool(cs) and all(_state_in(cx, c, states, depth - 1) for c in cs)


@obligation("VOTE.reset_callers", ["C02", "C06", "C16"], floor=8, kind="argument source",
            why="a role change that lowers the term re-opens an old term's vote")
def reset_callers(cx):
    resets = reset_fns(cx)
    cx.need(resets, "reset idiom function (writer of RaftCore.term from a parameter)")
    for k, (fn, p) in resets.items():
        for c in callers_of(cx, fn):
            args = call_args(cx, c)
            i = p[1] - 1
            ok, why = _classify_term_arg(cx, c, args[i])
            key = cx.site_key(c, "call:" + fn_name(fn))
            cx.check(ok, key, "new term passed to %s: %s [%s]" % (fn_name(fn), show(args[i]), why), c, arg=show(args[i]))


FORBIDDEN_ADTS = {"RaftCore", "RaftLog", "Unstable", "ProgressTracker", "Progress", "Inflights", "ReadOnly", "Configuration", "StateRole"}
HARMLESS_FIELDS = {"RaftCore.logger"}


@obligation("VOTE.lower_term_returns", ["C02", "C05", "C08", "C16"], floor=1, kind="must-not-reach under constraint",
            why="a deposed leader's traffic must not be acted upon")
def lower_term_returns(cx):
    step = cx.fn("Raft::step")
    a = cx.prog.A(step)
    g = cx.pg(step)
    m = ("param", 2, step.body.local_name(2))
    mterm = ("field", m, "Message.term")
    # find the self.term expression as it appears in the preamble's comparison
    selfterm = None
    for n in range(len(g.nodes)):
        for _, lits in g.edges[n] or []:
            for l in lits:
                if l[0] == "is":
                    b = match(("bin", "Lt", mterm, V("t")), l[1])
                    if b and is_f(b["t"], TERM):
                        selfterm = b["t"]
    cx.need(selfterm is not None, "comparison `m.term < self.term` in Raft::step")
    assume = [("notin", mterm, frozenset([0]), None), ("is", ("bin", "Lt", mterm, selfterm), True)]
    blocks = g.reach(assume)
    bad = []
    sends = 0
    for bi in sorted(blocks):
        for (root, fk) in cx.prog.block_effects(step, bi):
            adt = fk.split(".")[0]
            if adt in FORBIDDEN_ADTS and fk not in HARMLESS_FIELDS and (root == 1 or root == "?"):
                bad.append((bi, fk))
        t = step.body.blocks[bi]["term"]
        if t["k"] == "call":
            fc = t["func"]
            if "const" in fc and "fn" in fc["const"] and strip_generics(fc["const"]["fn"]["path"]).endswith("RaftCore::send"):
                sends += 1
    from ..prog import Site
    key = "Raft::step#lower-term-region"
    site = Site(step, 0, "term", "region")
    cx.check(not bad, key, "with 0 != m.term < self.term, step must return without touching term/vote/role/log/progress/read state (writes found: %s)" % sorted(set(fk for _, fk in bad))[:8],
             site, blocks_in_region=len(blocks), sends_in_region=sends, writes=[("bb%d" % b, fk) for b, fk in bad][:10])
    # the region must not fall through to the dispatcher: no role dispatcher call reachable
    disp = []
    for bi in sorted(blocks):
        t = step.body.blocks[bi]["term"]
        if t["k"] == "call" and "const" in t["func"] and "fn" in t["func"]["const"]:
            p = strip_generics(t["func"]["const"]["fn"]["path"])
            if cx.prog.short.get(p) and ("RaftCore.state" in cx.prog.modset_short(p) or "RaftLog.committed" in cx.prog.modset_short(p)):
                disp.append(p)
    cx.check(not disp, key + ":no-dispatch", "the lower-term branch reaches no state-changing callee (found: %s)" % sorted(set(disp))[:5], site)


@obligation("VOTE.leader_gate", ["C02", "C05", "C06"], floor=1, kind="who-may-write + caller guard",
            why="leadership without a (joint) majority of votes")
def leader_gate(cx):
    ws = [s for s in cx.prog.writes.get(STATE, []) if s.kind == "write" and "stmt" in s.data and write_value(cx, s) == ("enum", "raft::raft::StateRole", "Leader")]
    cx.need(ws, "write of StateRole::Leader to RaftCore.state")
    fns = {s.fn.key: s.fn for s in ws}
    cx.check(len(fns) == 1, "writers", "state := Leader is written in exactly one function (found %d)" % len(fns))
    for fn in fns.values():
        cs = callers_of(cx, fn)
        cx.check(bool(cs), "callers:" + fn_name(fn), "the leader transition has an in-crate caller")
        for c in cs:
            key = cx.site_key(c, "call:" + fn_name(fn))
            a = cx.prog.A(c.fn)
            g = cx.pg(c.fn)

            def won(l):
                return l[0] == "in" and l[2] == frozenset(["Won"]) and match(("tfield", call("~ProgressTracker::tally_votes", ANY), 2), l[1]) is not None

            def not_pre(l):
                return l[0] == "in" and is_f(l[1], STATE) and "PreCandidate" not in l[2]
            ok = require_all(cx, c, key, "become leader only when tally_votes() says Won and the node is not a pre-candidate",
                             [("tally_votes().2 == Won", won), ("state != PreCandidate", not_pre)])
            # the tally must follow the recording of the vote that was just received
            def is_record(bi, c=c):
                t = c.fn.body.blocks[bi]["term"]
                return t["k"] == "call" and "const" in t["func"] and "fn" in t["func"]["const"] and strip_generics(t["func"]["const"]["fn"]["path"]).endswith("ProgressTracker::record_vote")
            cx.check(g.dominated_by_block(c.at, is_record), key + ":after-record", "the winning tally is taken after record_vote in the same function", c)


@obligation("VOTE.response_kind", ["C01", "C02", "C03"], floor=1, kind="guard (CNF)",
            why="pre-vote grants of term T counted as real votes for T elect a leader nobody voted for")
def response_kind(cx):
    rec = cx.fn("ProgressTracker::record_vote")
    n = 0
    # walk up from record_vote to the call sites whose vote argument is read from a received message
    todo = [(c, 2) for c in callers_of(cx, rec)]
    seen = set()
    while todo:
        c, vi = todo.pop()
        args = call_args(cx, c)
        v = args[vi]
        if v[0] == "param":
            for cc in callers_of(cx, c.fn):
                if (cc.fn.key, cc.block) not in seen:
                    seen.add((cc.fn.key, cc.block))
                    todo.append((cc, v[1] - 1))
            continue
        b = match(("un", "Not", fld("Message.reject", V("m"))), v)
        if not b:
            if v[0] == "bool":
                continue  # the node's own vote
            cx.bad(cx.site_key(c, "call:record-vote"), "vote recorded from an unrecognised source: %s" % show(v), c)
            continue
        m = b["m"]
        n += 1
        key = cx.site_key(c, "call:record-response")

        def state_not(st):
            return lambda l: l[0] == "in" and is_f(l[1], STATE) and st not in l[2]
        ok = require_all(cx, c, key, "a response is counted only if it answers the current candidacy: (PreCandidate, PreVoteResponse) or (Candidate, VoteResponse)",
                         [("state != PreCandidate or type == MsgRequestPreVoteResponse", lambda l: state_not("PreCandidate")(l) or msg_type_in(m, {"MsgRequestPreVoteResponse"})(l)),
                          ("state != Candidate or type == MsgRequestVoteResponse", lambda l: state_not("Candidate")(l) or msg_type_in(m, {"MsgRequestVoteResponse"})(l)),
                          ("type is a vote response", msg_type_in(m, {"MsgRequestPreVoteResponse", "MsgRequestVoteResponse"}))])
        ok2 = _state_in(cx, c, {"Candidate", "PreCandidate"})
        cx.check(ok2, key + ":role", "responses are counted only while Candidate or PreCandidate (dispatcher context)", c)
    cx.check(n >= 1, "floor:responses", "at least one site records a vote taken from a received response")


@obligation("VOTE.tally_source", ["C02", "C08", "C11"], floor=3, kind="value shape",
            why="votes and read acks must be tallied against the current joint configuration")
def tally_source(cx):
    g = cx.pg(cx.fn("ProgressTracker::tally_votes"))
    rets = g.returns()
    ok = bool(rets)
    shape = None
    for lits, v, _ in rets:
        res = v[1][2] if v[0] == "tuple" and len(v[1]) == 3 else None
        shape = res
        if res is None or not match(call("~ProgressTracker::vote_result", ANY, fld("ProgressTracker.votes")), res):
            ok = False
    cx.check(ok, "tally_votes", "tally_votes() returns vote_result(&self.votes) as its verdict", shape=show(shape) if shape else None)
    g = cx.pg(cx.fn("ProgressTracker::vote_result"))
    rets = g.returns()
    ok = bool(rets)
    for lits, v, _ in rets:
        shape = v
        if not match(call("~joint::Configuration::vote_result", fld("Configuration.voters", fld("ProgressTracker.conf")), ANY), v):
            ok = False
    cx.check(ok, "vote_result", "ProgressTracker::vote_result tallies over self.conf.voters (the current joint configuration)", shape=show(shape))
    g = cx.pg(cx.fn("ProgressTracker::has_quorum"))
    rets = g.returns()
    ok = bool(rets)
    for lits, v, _ in rets:
        shape = v
        b = match(("bin", "Eq", V("a"), V("b")), v) or match(call(ANY, V("a"), V("b")), v)
        if not b:
            ok = False
            continue
        sides = [b["a"], b["b"]]
        if not any(x == ("enum", "raft::quorum::VoteResult", "Won") for x in sides) or not any(match(call("~joint::Configuration::vote_result", fld("Configuration.voters", fld("ProgressTracker.conf")), ANY), x) for x in sides):
            ok = False
    cx.check(ok, "has_quorum", "has_quorum(set) == (self.conf.voters.vote_result(member of set) == Won)", shape=show(shape))


@obligation("VOTE.uptodate_shape", ["C03", "C10", "C14"], floor=2, kind="exact finite truth table from return paths",
            why="C03 direction: nobody with a worse log may be accepted; C10 direction: an equally up-to-date candidate must be accepted, else identical logs can never elect anybody")
def uptodate_shape(cx):
    f = cx.fn("RaftLog::is_up_to_date")
    rets = cx.pg(f).returns()
    cx.check(bool(rets), "paths", "is_up_to_date has enumerable return paths")
    body = f.body
    # parameters: (self, last_index, term)
    pidx = ptrm = None
    for i in range(2, body.arg_count + 1):
        n = body.local_name(i)
        if n and "term" in n:
            ptrm = ("param", i, n)
        else:
            pidx = ("param", i, n)
    cx.need(pidx is not None and ptrm is not None, "parameters (last_index, term) of is_up_to_date")

    def kind(e):
        if e == ptrm:
            return ("t", "cand")
        if e == pidx:
            return ("i", "cand")
        if e[0] == "call" and e[1].endswith("RaftLog::last_term"):
            return ("t", "own")
        if e[0] == "call" and e[1].endswith("RaftLog::last_index"):
            return ("i", "own")
        return None

    def ev(e, val, asg):
        """value of boolean expr under asg = {'t': cmp(cand, own), 'i': cmp(cand, own)} with cmp in -1/0/1"""
        if e[0] == "bool":
            return e[1] == val
        if e[0] != "bin" or e[1] not in ("Lt", "Le", "Eq", "Ne"):
            return None
        ka, kb = kind(e[2]), kind(e[3])
        if ka is None or kb is None or ka[0] != kb[0] or ka[1] == kb[1]:
            return None
        c = asg[ka[0]]            # cmp(cand, own)
        if ka[1] == "own":
            c = -c                # now cmp(a, b)
        r = {"Lt": c < 0, "Le": c <= 0, "Eq": c == 0, "Ne": c != 0}[e[1]]
        return r == val
    bad_c03, bad_c10, unknown = [], [], False
    for t in (-1, 0, 1):
        for i in (-1, 0, 1):
            asg = {"t": t, "i": i}
            want = t > 0 or (t == 0 and i >= 0)
            got = set()
            for lits, v, _ in rets:
                sat = True
                for l in lits:
                    if l[0] != "is":
                        sat = None
                        break
                    r = ev(l[1], l[2], asg)
                    if r is None:
                        sat = None
                        break
                    sat = sat and r
                if sat is None:
                    unknown = True
                    continue
                if sat:
                    r = ev(v, True, asg)
                    if r is None:
                        unknown = True
                    else:
                        got.add(r)
            if got == {True} and not want:
                bad_c03.append((t, i))
            if got == {False} and want:
                bad_c10.append((t, i))
            if len(got) != 1:
                unknown = True
    cx.check(not unknown, "recognised", "every path of is_up_to_date compares (term, last_term) and (last_index, last_index()) only")
    cx.check(not bad_c03, "C03:no-worse-log-accepted", "is_up_to_date never accepts a candidate whose (last term, last index) is behind the voter's (accepted although behind at cmp(term), cmp(index) = %s)" % bad_c03)
    cx.check(not bad_c10, "C10:equal-log-accepted", "is_up_to_date accepts every candidate that is at least as up to date (refused at %s)" % bad_c10)
