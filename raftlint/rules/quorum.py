"""QUORUM — commit index and vote tallies are exact (DESIGN §5.13)."""
import re
from ..engine import obligation, require, require_all, fn_name, callers_of, call_args
from ..an import show, strip_generics, walk
from ..pat import ANY, V, match, call, fld, alt, contains
from ..pg import show_lit
from ..idioms import as_min, closure_returns
from .vote import is_f
from .flow import call_blocks

VR = "raft::quorum::VoteResult"


def _rets(cx, suffix, limit=20000):
    f = cx.fn(suffix)
    return f, cx.pg(f).returns(limit=limit)


@obligation("QUORUM.threshold", ["C04", "C11"], floor=3, kind="return shape + sibling agreement",
            why="a wrong majority size commits without a quorum or elects two leaders")
def threshold(cx):
    f, rets = _rets(cx, "util::majority")
    ok = len(rets) == 1
    v = rets[0][1] if rets else None
    if ok:
        b = match(("bin", "Add", V("x"), V("y")), v)
        ok = bool(b) and ("int", 1) in (b["x"], b["y"])
        if ok:
            d = b["x"] if b["y"] == ("int", 1) else b["y"]
            ok = d[0] == "bin" and d[1] == "Div" and d[2][0] == "param" and d[3] == ("int", 2)
    cx.check(ok, "majority", "majority(n) = n / 2 + 1 (found %s)" % (show(v) if v else None), shape=show(v) if v else None)
    # both users take the majority of the size of the set they iterate
    ci = cx.fn("majority::Configuration::committed_index")
    vr = cx.fn("majority::Configuration::vote_result")
    for fn, what in ((ci, "commit"), (vr, "vote")):
        cs = [c for c in cx.prog.call_sites_of("util::majority") if c.fn is fn]
        cx.check(len(cs) == 1, what + ":one", "the %s computation takes one majority threshold" % what)
        for c in cs:
            a = call_args(cx, c)[0]
            if what == "vote":
                ok = match(call("~HashSet::len", fld("Configuration.voters")), a) is not None
            else:
                # length of the gathered slice, which has one slot per voter
                ok = a[0] in ("call", "len") and "len" in show(a) and contains(call("~HashSet::len", fld("Configuration.voters")), a)
            cx.check(ok, what + ":arg", "the %s threshold is majority(number of voters of this configuration) (found %s)" % (what, show(a)[:160]), c, arg=show(a)[:200])


@obligation("QUORUM.pick", ["C04", "C11"], floor=3, kind="return shape",
            why="picking the wrong rank commits an index that a majority has not acknowledged")
def pick(cx):
    f, rets = _rets(cx, "majority::Configuration::committed_index")
    cx.check(bool(rets), "paths", "committed_index has enumerable return paths")
    # the sort: descending by index
    sorts = [c for c in cx.prog.all_calls if c.fn is f and (c.data["callee"].endswith("::sort_by") or c.data["callee"].endswith("::sort_unstable_by") or c.data["callee"].endswith("sort_by_key"))]
    cx.check(len(sorts) == 1, "sort", "the gathered indexes are sorted once")
    desc = None
    for c in sorts:
        args = call_args(cx, c)
        clo = args[1]
        if clo[0] == "closure":
            r = closure_returns(cx.prog, clo[1]) or []
            if len(r) == 1:
                v = r[0][1]
                b = match(call(ANY, fld("Index.index", V("x")), fld("Index.index", V("y"))), v)
                if b and "cmp" in v[1]:
                    # closure params: _2 = a, _3 = b
                    if b["x"][0] == "param" and b["y"][0] == "param":
                        desc = b["x"][1] > b["y"][1]
        cx.check(desc is not None, "sort:cmp", "the comparator orders by Index.index", c)
    plain = [(lits, v) for lits, v, _ in rets if v[0] == "tuple" and any(l[0] == "is" and l[2] is False and l[1][0] == "param" and f.body.local_ty(l[1][1]) == "bool" for l in lits)]
    cx.check(bool(plain), "plain:paths", "there are return paths with group commit off")
    for lits, v in plain[:40]:
        idx = v[1][0]
        b = match(fld("Index.index", ("index", V("arr"), V("i"))), idx)
        ok = False
        if b and desc is not None:
            i = b["i"]
            q = call("~util::majority", ANY)
            if desc:
                ok = match(("bin", "Sub", q, ("int", 1)), i) is not None
            else:
                m = match(("bin", "Sub", V("len"), q), i)
                ok = m is not None and "len" in show(m["len"])
        cx.check(ok, "plain:rank", "without group commit the result is the element of rank majority-1 from the top (found %s)" % show(idx)[:140])
        break
    # missing voters contribute Index::default()
    dflt = [c for c in cx.prog.all_calls if c.fn is f and c.data["callee"].endswith("Option::unwrap_or_default")]
    cx.check(len(dflt) >= 1 and all(contains(call("~acked_index", ANY, ANY), call_args(cx, c)[0]) or "acked_index" in show(call_args(cx, c)[0]) for c in dflt), "missing-voter", "a voter without an acknowledged index counts as Index::default() (0)")
    empty = [(lits, v) for lits, v, _ in rets if any(l[0] == "is" and l[2] is True and l[1][0] == "call" and l[1][1].endswith("is_empty") for l in lits)]
    ok = bool(empty) and all(v == ("tuple", (("int", 18446744073709551615), ("bool", True))) for _, v in empty)
    cx.check(ok, "empty", "the empty configuration yields (u64::MAX, true)")


@obligation("QUORUM.membership", ["C10", "C09", "C17", "C11"], floor=2, kind="return shape",
            why="a voter of the outgoing half of a joint configuration is still a voter: it must be allowed to campaign and to receive a leadership transfer, and its id belongs to the voter ids")
def membership(cx):
    f = cx.fn("joint::Configuration::contains")
    rets = cx.pg(f).returns()
    halves = set()
    ok = bool(rets)
    for lits, v, _ in rets:
        for x in [l[1] for l in lits if l[0] == "is"] + [v]:
            if x[0] == "call" and x[1].endswith("::contains"):
                for h in ("incoming", "outgoing"):
                    if any(y[0] == "field" and y[2] == "Configuration." + h for y in walk(x)):
                        halves.add(h)
        if v == ("bool", True):
            ok = ok and any(l[0] == "is" and l[2] is True and l[1][0] == "call" and l[1][1].endswith("::contains") for l in lits)
        elif v == ("bool", False):
            ok = ok and sum(1 for l in lits if l[0] == "is" and l[2] is False and l[1][0] == "call" and l[1][1].endswith("::contains")) >= 2
        else:
            ok = ok and v[0] == "call" and v[1].endswith("::contains") and any(l[0] == "is" and l[2] is False for l in lits)
    cx.check(ok and halves == {"incoming", "outgoing"}, "contains", "JointConfig::contains(id) = incoming.contains(id) || outgoing.contains(id) (halves consulted: %s)" % sorted(halves))
    f = cx.fn("joint::Configuration::ids")
    rets = cx.pg(f).returns()
    ok = len(rets) == 1 and all(any(y[0] == "field" and y[2] == "Configuration." + h for y in walk(rets[0][1])) for h in ("incoming", "outgoing"))
    cx.check(ok, "ids", "JointConfig::ids() ranges over both halves (found %s)" % (show(rets[0][1])[:100] if rets else None))


@obligation("QUORUM.gather", ["C04", "C11"], floor=4, kind="collection shape (origin + one element per voter)",
            why="ranking a buffer that holds anything but exactly one acknowledged index per voter picks the wrong quorum index")
def gather(cx):
    f = cx.fn("majority::Configuration::committed_index")
    a = cx.prog.A(f)
    g = cx.pg(f)
    n = 0
    VOT = "Configuration.voters"

    def over_voters(lits):
        return any(l[0] == "in" and l[2] == frozenset(["Some"]) and l[1][0] == "call" and l[1][1].endswith("::next") for l in lits)

    def from_voters(e):
        return any(is_f(x, VOT) for x in walk(e))
    calls = [c for c in cx.prog.all_calls if c.fn is f]
    # heap path: pushes into an initially EMPTY vector, one acknowledged index per voter
    pushes = [c for c in calls if c.data["callee"].endswith("Vec::push") or c.data["callee"].endswith("Vec::insert") or c.data["callee"].endswith("::extend")]
    for c in pushes:
        args = call_args(cx, c)
        key = cx.site_key(c, "push")
        recv = args[0]
        ok_origin = False
        if recv[0] == "local":
            ds = a.defs[recv[1]]
            ok_origin = bool(ds) and all(d[2] == "call" and re.search(r"Vec::(with_capacity|new)$", strip_generics(f.body.blocks[d[0]]["term"]["func"].get("const", {}).get("fn", {}).get("path", ""))) for d in ds)
        cx.check(ok_origin, key + ":origin", "the gathered buffer starts out empty (Vec::new / Vec::with_capacity), so it holds nothing but the pushed indexes", c)
        val = args[-1]
        okv = any(x[0] == "call" and x[1].endswith("acked_index") for x in walk(val)) and c.data["callee"].endswith("Vec::push")
        cx.check(okv, key + ":value", "what is pushed is the voter's acknowledged index (found %s)" % show(val)[:120], c)
        lits = cx.guard_lits(c)
        cx.check(over_voters(lits), key + ":per-voter", "the push happens once per element of the voter iteration", c)
        n += 1
    # the iteration(s) feeding acked_index range over self.voters
    acks = [c for c in calls if c.data["callee"].endswith("acked_index")]
    cx.check(len(acks) >= 1, "acked:calls", "acked_index is consulted")
    iters = [c for c in calls if c.data["callee"].endswith("::into_iter")]
    for c in acks:
        args = call_args(cx, c)
        idv = args[-1]
        cx.check(any(x[0] == "call" and x[1].endswith("::next") for x in walk(idv)), cx.site_key(c, "acked:arg"), "acked_index is asked about the iterated voter id (found %s)" % show(idv)[:100], c)
        n += 1
    feeding = [c for c in iters if from_voters(call_args(cx, c)[0])]
    cx.check(len(feeding) >= len(acks), "acked:over-voters", "every gathering loop iterates self.voters")
    # stack path: the slice handed on covers exactly voters.len() initialised slots
    raws = [c for c in calls if c.data["callee"].endswith("from_raw_parts_mut") or c.data["callee"].endswith("from_raw_parts")]
    for c in raws:
        args = call_args(cx, c)
        ok = match(call("~HashSet::len", fld(VOT)), args[1]) is not None
        cx.check(ok, cx.site_key(c, "stack:len"), "the stack slice has exactly voters.len() elements (found %s)" % show(args[1])[:100], c)
        n += 1
    # stores into the stack array are indexed by the enumeration counter of the voter loop
    for bi, blk in enumerate(f.body.blocks):
        for si, st in enumerate(blk["stmts"]):
            if st.get("k") == "assign" and any(isinstance(p, dict) and "index" in p for p in st["place"]["p"]):
                ty = f.body.local_ty(st["place"]["l"])
                if "MaybeUninit" not in ty:
                    continue
                ip = [p for p in st["place"]["p"] if isinstance(p, dict) and "index" in p][0]
                ie = a.expr_local(ip["index"], (bi, si))
                # (Enumerate::next(iter) as Some).0.0
                ok = ie[0] == "tfield" and ie[2] == 0 and any(x[0] == "call" and "Enumerate" in x[1] and x[1].endswith("::next") for x in walk(ie))
                from ..prog import Site
                cx.check(ok, "stack:slot", "each voter's index is stored in its own slot (the enumeration counter) (found index %s)" % show(ie)[:100], Site(f, bi, si, "write"))
                v = a.expr_rvalue(st["rv"], (bi, si))
                cx.check(any(x[0] == "call" and x[1].endswith("acked_index") for x in walk(v)), "stack:value", "the slot receives the voter's acknowledged index", Site(f, bi, si, "write"))
                n += 1
    # majority is taken over the length of the gathered slice
    maj = [c for c in calls if c.data["callee"].endswith("util::majority")]
    for c in maj:
        arg = call_args(cx, c)[0]
        ok = arg[0] == "call" and arg[1].endswith("::len") and (any(x[0] == "call" and "from_raw_parts" in x[1] for x in walk(arg)) or any(x[0] == "phi" for x in walk(arg)) or from_voters(arg))
        cx.check(ok, cx.site_key(c, "majority:of"), "the quorum size is majority(number of gathered indexes) (found %s)" % show(arg)[:100], c)
        n += 1
    cx.check(n >= 4, "floor", "gathering sites were found")


@obligation("QUORUM.stack_bound", ["C11"], floor=1, kind="constant agreement",
            why="a stack-array length test that disagrees with the array length writes out of bounds")
def stack_bound(cx):
    f = cx.fn("majority::Configuration::committed_index")
    arr = None
    for i, l in enumerate(f.body.locals):
        m = re.match(r"^\[core::mem::(?:maybe_uninit::)?MaybeUninit<.*>; (\d+)\]$", l["ty"])
        if m:
            arr = int(m.group(1))
    cx.need(arr is not None, "stack array in committed_index")
    g = cx.pg(f)
    bounds = set()
    for n in range(len(g.nodes)):
        for _, lits in g.edges[n] or []:
            for l in lits:
                if l[0] == "is" and l[1][0] == "bin" and l[1][1] == "Lt" and l[1][2][0] == "int" and match(call("~HashSet::len", fld("Configuration.voters")), l[1][3]):
                    bounds.add(l[1][2][1])
    cx.check(bounds == {arr}, "bound", "the stack path is taken iff voters.len() <= array length (%d); thresholds found: %s" % (arr, sorted(bounds)))


def _table(rets, key_i, key_o, vals):
    """evaluate return paths over assignments of two enum-valued call results"""
    out = {}
    for i in vals:
        for o in vals:
            got = set()
            for lits, v, _ in rets:
                sat = True
                for l in lits:
                    if l[0] != "in":
                        sat = False
                        break
                    e = l[1]
                    if key_i(e):
                        sat = sat and i in l[2]
                    elif key_o(e):
                        sat = sat and o in l[2]
                    else:
                        sat = False
                if sat:
                    got.add(v)
            out[(i, o)] = got
    return out


@obligation("QUORUM.joint", ["C02", "C04", "C11"], floor=3, kind="exact finite truth table from return paths",
            why="joint decisions need both halves: a quorum of only one half breaks quorum intersection during membership change")
def joint(cx):
    f, rets = _rets(cx, "joint::Configuration::vote_result")
    inc = lambda e: e[0] == "call" and e[1].endswith("majority::Configuration::vote_result") and contains(fld("Configuration.incoming"), e)
    outg = lambda e: e[0] == "call" and e[1].endswith("majority::Configuration::vote_result") and contains(fld("Configuration.outgoing"), e)
    vals = ["Won", "Lost", "Pending"]
    tab = _table(rets, inc, outg, vals)
    bad = []
    for (i, o), got in tab.items():
        exp = "Won" if (i, o) == ("Won", "Won") else ("Lost" if "Lost" in (i, o) else "Pending")
        if got != {("enum", VR, exp)}:
            bad.append(((i, o), sorted(show(x) for x in got), exp))
    cx.check(not bad, "vote-table", "joint vote result: Won iff both Won, Lost iff either Lost, else Pending (3x3 table; mismatches: %s)" % bad[:3], shape=len(rets))
    f, rets = _rets(cx, "joint::Configuration::committed_index")
    ok = bool(rets)
    def no_outgoing(lits):
        # the outgoing half is known to be empty on this path: it reports (u64::MAX, true) and cannot constrain the result
        return any(l[0] == "is" and l[2] is True and l[1][0] == "call" and l[1][1].endswith("is_empty") and contains(fld("Configuration.outgoing"), l[1]) for l in lits)
    def incoming_part(x, i):
        return x[0] == "tfield" and x[2] == i and x[1][0] == "call" and x[1][1].endswith("majority::Configuration::committed_index") and contains(fld("Configuration.incoming"), x)
    shortcut = [(lits, v) for lits, v, _ in rets if v[0] == "tuple" and len(v[1]) == 2 and no_outgoing(lits) and incoming_part(v[1][0], 0) and incoming_part(v[1][1], 1)]
    rets = [r for r in rets if not any(r[0] == s_[0] and r[1] == s_[1] for s_ in shortcut)]
    ok = bool(rets)
    for lits, v, _ in rets:
        if v[0] != "tuple" or len(v[1]) != 2:
            ok = False
            continue
        mn = as_min(v[1][0])
        okm = mn is not None and all(x[0] == "tfield" and x[2] == 0 and x[1][0] == "call" and x[1][1].endswith("majority::Configuration::committed_index") for x in mn) and \
            {("incoming" if contains(fld("Configuration.incoming"), x) else "outgoing") for x in mn} == {"incoming", "outgoing"}
        ok = ok and okm
    cx.check(ok, "commit-min", "joint commit index = min(incoming commit index, outgoing commit index)")
    # flag = i.1 && o.1
    flag_ok = True
    for lits, v, _ in rets:
        fl = v[1][1] if v[0] == "tuple" and len(v[1]) == 2 else None
        i_true = any(l[0] == "is" and l[2] is True and l[1][0] == "tfield" and l[1][2] == 1 and contains(fld("Configuration.incoming"), l[1]) for l in lits)
        i_false = any(l[0] == "is" and l[2] is False and l[1][0] == "tfield" and l[1][2] == 1 and contains(fld("Configuration.incoming"), l[1]) for l in lits)
        if i_false:
            flag_ok = flag_ok and fl == ("bool", False)
        elif i_true:
            flag_ok = flag_ok and fl is not None and fl[0] == "tfield" and fl[2] == 1 and contains(fld("Configuration.outgoing"), fl)
        else:
            b = fl is not None and fl[0] == "bin" and fl[1] in ("BitAnd",)
            flag_ok = flag_ok and b
    cx.check(flag_ok, "commit-flag", "joint group-commit flag = incoming flag && outgoing flag")


def _fold_counters(cx, yes, missing):
    """Second form of the two counters: `let (yes, missing) = voters.iter().fold((0, 0), |(y, m), v| match check(*v) {..})`.
    Decides the same three facts (what `yes` counts, what `missing` counts, by one) on the closure's return table."""
    from ..idioms import closure_returns
    if yes is None or missing is None or yes[0] != "tfield" or missing[0] != "tfield" or yes[1] != missing[1] or {yes[2], missing[2]} != {0, 1}:
        return False
    fo = yes[1]
    if not (fo[0] == "call" and fo[1].endswith("::fold") and len(fo[2]) == 3 and fo[2][2][0] == "closure"):
        return False
    it, init, clos = fo[2]
    cx.check(contains(fld("Configuration.voters"), it), "counters:over", "the counters are folded over the voters of this configuration")
    cx.check(init == ("tuple", (("int", 0), ("int", 0))), "counters:init", "both counters start at zero")
    rows = closure_returns(cx.prog, clos[1]) or []
    yi, mi = yes[2], missing[2]
    ok = bool(rows)
    seen = set()
    for r in rows:
        lits, v = r[0], r[1]
        if v[0] != "tuple" or len(v[1]) != 2:
            ok = False
            continue
        acc = [x[1] for x in v[1] if x[0] == "tfield"] + [y[1] for x in v[1] if x[0] == "bin" for y in x[2:4] if y[0] == "tfield"]
        if not acc or any(a_ != acc[0] for a_ in acc):
            ok = False
            continue
        A = acc[0]
        same = lambda i: v[1][i] == ("tfield", A, i)
        plus1 = lambda i: v[1][i][0] == "bin" and v[1][i][1] == "Add" and set(v[1][i][2:4]) == {("int", 1), ("tfield", A, i)}
        opt = [l for l in lits if l[0] == "in" and l[3] == "core::option::Option"]
        none = any(l[2] == frozenset(["None"]) for l in opt)
        some = any(l[2] == frozenset(["Some"]) for l in opt)
        granted = [l[2] for l in lits if l[0] == "is" and l[1][0] == "vfield"]
        if none:
            ok = ok and same(yi) and plus1(mi)
            seen.add("none")
        elif some and granted == [True]:
            ok = ok and plus1(yi) and same(mi)
            seen.add("yes")
        elif some and granted == [False]:
            ok = ok and same(yi) and same(mi)
            seen.add("no")
        else:
            ok = False
    cx.check(ok and seen == {"none", "yes", "no"}, "counters:fold", "the fold adds one to `yes` exactly for check(v) == Some(true), one to `missing` exactly for None, nothing for Some(false)")
    return True


@obligation("QUORUM.vote_counts", ["C02", "C11"], floor=3, kind="return shape",
            why="Won with fewer than a majority of grants elects a leader without a quorum")
def vote_counts(cx):
    f, rets = _rets(cx, "majority::Configuration::vote_result")
    a = cx.prog.A(f)
    # identify the counters by the comparison shapes on the return paths
    q = call("~util::majority", call("~HashSet::len", fld("Configuration.voters")))
    won_ok = pend_ok = lost_ok = empty_ok = False
    yes = missing = None
    for lits, v, _ in rets:
        cmp_lits = [l for l in lits if l[0] == "is" and l[1][0] == "bin" and l[1][1] == "Lt" and match(q, l[1][3]) is not None]
        if any(l[0] == "is" and l[2] is True and l[1][0] == "call" and l[1][1].endswith("is_empty") for l in lits):
            empty_ok = v == ("enum", VR, "Won")
            continue
        if v == ("enum", VR, "Won"):
            won_ok = len(cmp_lits) == 1 and cmp_lits[0][2] is False
            if won_ok:
                yes = cmp_lits[0][1][2]
        elif v == ("enum", VR, "Pending"):
            pend_ok = len(cmp_lits) == 2 and cmp_lits[0][2] is True and cmp_lits[1][2] is False
            if pend_ok:
                s = cmp_lits[1][1][2]
                b = match(("bin", "Add", V("x"), V("y")), s)
                pend_ok = bool(b) and cmp_lits[0][1][2] in (b["x"], b["y"])
                if pend_ok:
                    missing = b["y"] if b["x"] == cmp_lits[0][1][2] else b["x"]
        elif v == ("enum", VR, "Lost"):
            lost_ok = len(cmp_lits) == 2 and cmp_lits[0][2] is True and cmp_lits[1][2] is True
    cx.check(empty_ok, "empty", "an empty configuration has Won")
    cx.check(won_ok and pend_ok and lost_ok, "thresholds", "Won iff yes >= q; else Pending iff yes + missing >= q; else Lost (q = majority(voters.len()))")
    # what the counters count
    def counter_local(e):
        return e[1] if e is not None and e[0] == "phi" else None
    ly, lm = counter_local(yes), counter_local(missing)
    if ly is None and lm is None and _fold_counters(cx, yes, missing):
        return
    cx.check(ly is not None and lm is not None and ly != lm, "counters", "two distinct counters feed the thresholds")
    if ly is None or lm is None:
        return
    from ..prog import Site
    for l, want, name in ((ly, ("Some", True), "yes"), (lm, ("None", None), "missing")):
        incs = [d for d in a.defs[l] if d[2] == "assign" and "bin" in d[3]]
        cx.check(len(incs) == 1, name + ":one-increment", "`%s` is incremented at one place" % name)
        for d in incs:
            site = Site(f, d[0], d[1], "incr")
            gl = cx.guard_lits(site)
            opt = [x for x in gl if x[0] == "in" and x[3] == "core::option::Option" and (x[1][0] == "callv" or "check" in show(x[1]))]
            okc = any(x[2] == frozenset([want[0]]) for x in opt)
            if want[0] == "Some":
                okc = okc and any(x[0] == "is" and x[2] is True and x[1][0] == "vfield" for x in gl)
            cx.check(okc, name + ":condition", "`%s` counts voters whose check(v) is %s" % (name, "Some(true)" if want[0] == "Some" else "None"), site, guards=[show_lit(x) for x in gl][:6])
            v = a.expr_rvalue(d[3], (d[0], d[1]))
            cx.check(contains(("int", 1), v), name + ":by-one", "`%s` is incremented by one" % name, site)


@obligation("QUORUM.group_le", ["C11"], floor=1, kind="return shape (set of returned expressions)",
            why="with group commit the result must never exceed the plain quorum index")
def group_le(cx):
    f, rets = _rets(cx, "majority::Configuration::committed_index")
    bad = []
    qidx = None
    for lits, v, _ in rets:
        if v[0] != "tuple":
            bad.append(show(v)[:80])
            continue
        idx = v[1][0]
        if match(fld("Index.index", ("index", ANY, ("bin", "Sub", call("~util::majority", ANY), ("int", 1)))), idx):
            qidx = idx
            continue
        mn = as_min(idx)
        if mn is not None and any(match(fld("Index.index", ("index", ANY, ("bin", "Sub", call("~util::majority", ANY), ("int", 1)))), x) for x in mn):
            continue
        if match(fld("Index.index", call("~Option::unwrap", call("~last", ANY))), idx):
            continue  # smallest element of the descending sort
        if match(fld("Index.index", ("index", ANY, ("bin", "Sub", ("len", ANY), ("int", 1)))), idx) or match(fld("Index.index", ("index", ANY, ("bin", "Sub", call("~len", ANY), ("int", 1)))), idx):
            continue  # the same, written matched[matched.len() - 1]
        if idx == ("int", 18446744073709551615):
            continue
        bad.append(show(idx)[:100])
    cx.check(not bad, "returns", "every returned index is the quorum index, min(., quorum index), the smallest gathered index, or u64::MAX for the empty config (others: %s)" % bad[:3], shape=len(rets))


@obligation("QUORUM.group_scan", ["C11"], floor=3, kind="loop shape (guarded local updates + return table)",
            why="with group commit the result is the largest index replicated into two groups: the scan must remember the first group it meets and stop at the first entry of a different one")
def group_scan(cx):
    from ..prog import Site
    f = cx.fn("majority::Configuration::committed_index")
    a = cx.prog.A(f)
    g = cx.pg(f)

    def is_item_gid(e):
        return e[0] == "field" and e[2] == "Index.group_id" and any(x[0] == "call" and x[1].endswith("::next") for x in walk(e))

    def is_local(e, L):
        return (e[0] == "phi" and e[1] == L) or (e[0] == "local" and e[1] == L)
    sets = []
    for bi in sorted(a.reach):
        for si, st in enumerate(f.body.blocks[bi]["stmts"]):
            if st.get("k") == "assign" and not st["place"]["p"] and f.body.local_ty(st["place"]["l"]) == "u64":
                v = a.expr_rvalue(st["rv"], (bi, si))
                if is_item_gid(v) and f.body.local_name(st["place"]["l"]):
                    sets.append((Site(f, bi, si, "write"), st["place"]["l"]))
    flags0 = []
    for bi in sorted(a.reach):
        for si, st in enumerate(f.body.blocks[bi]["stmts"]):
            if st.get("k") == "assign" and not st["place"]["p"] and f.body.local_ty(st["place"]["l"]) == "bool" and f.body.local_name(st["place"]["l"]):
                c = st["rv"].get("use", {}).get("const", {})
                if c.get("ty") == "bool" and c.get("val", {}).get("int") == 0 and any(l[0] == "in" and l[2] == frozenset([0]) and is_item_gid(l[1]) for l in cx.guard_lits(Site(f, bi, si, "write"))):
                    flags0.append((bi, si))
    if not sets and not flags0:
        # the scan is not written as a loop over the gathered buffer with a remembered group (it was re-implemented, e.g.
        # over slices and iterator adaptors): this loop-shape clause has nothing to decide. The form-independent clause
        # of the same property -- no returned index exceeds the quorum index -- is QUORUM.group_le's.
        cx.abstain("the group scan is not in loop form; the loop-shape clause abstains (QUORUM.group_le still decides the upper bound)")
        return
    cx.check(len(sets) == 1, "remember:site", "the scan remembers the group of the first grouped entry at one site (found %d)" % len(sets))
    n = 0
    for s, L in sets:
        gl = cx.guard_lits(s)
        unset = any(l[0] == "in" and l[2] == frozenset([0]) and is_local(l[1], L) for l in gl)
        grouped = any(l[0] == "notin" and 0 in l[2] and is_item_gid(l[1]) for l in gl)
        cx.check(unset and grouped, cx.site_key(s, "remember"), "the remembered group is set from a grouped entry (group_id != 0) only while none is remembered yet", s)
        # it starts as the group of the quorum-rank element
        inits = [d for d in a.defs[L] if (d[0], d[1]) != s.at]
        oki = len(inits) == 1 and inits[0][2] != "call" and any(x[0] == "field" and x[2] == "Index.group_id" for x in walk(a.expr_rvalue(inits[0][3], (inits[0][0], inits[0][1])))) and not any(x[0] == "call" and x[1].endswith("::next") for x in walk(a.expr_rvalue(inits[0][3], (inits[0][0], inits[0][1]))))
        cx.check(oki, cx.site_key(s, "remember:init"), "the remembered group starts as the group of the element at the quorum rank", s)
        n += 1
        # the two-group verdict
        rets = g.returns(limit=20000)
        two = [(lits, v) for lits, v, _ in rets if v[0] == "tuple" and v[1][1] == ("bool", True) and not (v[1][0][0] == "int")]
        cx.check(bool(two), "two-groups:paths", "there are return paths reporting a group-commit index")
        okt = bool(two)
        for lits, v in two[:60]:
            diff = any(l[0] == "is" and l[2] is False and l[1][0] == "bin" and l[1][1] == "Eq" and any(is_item_gid(x) for x in l[1][2:4]) and any(is_local(x, L) for x in l[1][2:4]) for l in lits)
            both = any(l[0] == "notin" and 0 in l[2] and is_item_gid(l[1]) for l in lits) and any(l[0] == "notin" and 0 in l[2] and is_local(l[1], L) for l in lits)
            mn = as_min(v[1][0])
            okm = mn is not None and len(mn) == 2 and any(x[0] == "field" and x[2] == "Index.index" and any(y[0] == "call" and y[1].endswith("::next") for y in walk(x)) for x in mn) and any(x[0] == "field" and x[2] == "Index.index" and any(y[0] == "index" for y in walk(x)) for x in mn)
            okt = okt and diff and both and okm
        cx.check(okt, "two-groups", "(min(entry.index, quorum index), true) is returned exactly at the first grouped entry whose group differs from the remembered one")
        n += 1
    # an ungrouped voter disables the single-group shortcut
    flags = []
    for bi in sorted(a.reach):
        for si, st in enumerate(f.body.blocks[bi]["stmts"]):
            if st.get("k") == "assign" and not st["place"]["p"] and f.body.local_ty(st["place"]["l"]) == "bool" and f.body.local_name(st["place"]["l"]):
                c = st["rv"].get("use", {}).get("const", {})
                if c.get("ty") == "bool" and c.get("val", {}).get("int") == 0:
                    s = Site(f, bi, si, "write")
                    if any(l[0] == "in" and l[2] == frozenset([0]) and is_item_gid(l[1]) for l in cx.guard_lits(s)):
                        flags.append(s)
    cx.check(len(flags) == 1, "ungrouped", "meeting an entry without a group clears the single-group flag")
    n += 1
    # the scan looks at EVERY gathered entry until it finds two groups: from an element the only ways on are the next
    # element or the two-group verdict -- no other early exit (an entry skipped or a scan cut short hides the second group)
    scan_next = {c.block for sp, c in cx.prog.calls_out[f.key] if c.kind == "call" and sp.endswith("::next") and "Iterator" in sp
                 and any(is_item_gid(l[1]) for n_ in g.by_block.get(c.block, []) for m_, ls in [(None, [])] for l in ls)} if False else set()
    for n_ in range(len(g.nodes)):
        for m_, ls in g.edges[n_] or []:
            for l in ls:
                if (l[0] in ("in", "notin") and is_item_gid(l[1])) or (l[0] == "is" and any(is_item_gid(x) for x in walk(l[1]))):
                    for x in walk(l[1]):
                        if x[0] == "call" and x[1].endswith("::next"):
                            scan_next |= {c.block for sp, c in cx.prog.calls_out[f.key] if c.kind == "call" and strip_generics(sp) == strip_generics(x[1])}
    verdict = set()
    for bi in sorted(a.reach):
        for si, st in enumerate(f.body.blocks[bi]["stmts"]):
            if st.get("k") == "assign" and not st["place"]["p"] and st["rv"].get("agg") == "tuple":
                # (the result place, or the result of a helper the scan was moved into and that was spliced back)
                v_ = a.expr_rvalue(st["rv"], (bi, si))
                if v_[0] == "tuple" and len(v_[1]) == 2 and v_[1][1] == ("bool", True) and as_min(v_[1][0]) is not None:
                    verdict.add(bi)
    if scan_next:
        def element(l):
            return l[0] == "in" and l[2] == frozenset(["Some"]) and l[1][0] == "call" and l[1][1].endswith("::next") and any(c_.block in scan_next for sp, c_ in cx.prog.calls_out[f.key] if c_.kind == "call" and strip_generics(sp) == strip_generics(l[1][1]))
        oke, ne = g.after_edge_must_pass(lambda lits: any(element(l) for l in lits), lambda b: b in scan_next or b in verdict)
        cx.check(oke and ne >= 1, "every-entry", "the group scan goes from each gathered entry to the next one or to the two-group verdict: it is never cut short")
        n += 1
    cx.check(n >= 3, "floor", "group scan sites were found")


@obligation("QUORUM.group_assignment", ["C11"], floor=3, kind="loop shape + pairing",
            why="the group-commit result is computed from the labels stored in the progress map: a list of (peer, group) that is applied only in part, or applied without re-evaluating the commit index, makes the leader count groups the application did not assign")
def group_assignment(cx):
    f = cx.fn("Raft::assign_commit_groups")
    g = cx.pg(f)
    a = cx.prog.A(f)
    ws = [s for s in cx.prog.writes.get("Progress.commit_group_id", []) if s.fn is f and "stmt" in s.data]
    cx.check(len(ws) >= 1, "store", "assign_commit_groups stores the group into the peer's progress")
    for s in ws:
        v = a.expr_rvalue(s.data["stmt"]["rv"], s.at)
        cx.check(any(x[0] == "param" for x in walk(v)) or any(x[0] == "call" and x[1].endswith("::next") for x in walk(v)), cx.site_key(s, "store:value"), "the stored group is the one listed for that peer (found %s)" % show(v)[:100], s)
    nexts = {c.block for sp, c in cx.prog.calls_out[f.key] if c.kind == "call" and sp.endswith("::next") and "Iterator" in sp}
    cx.check(bool(nexts), "loop", "assign_commit_groups walks the list")
    # a peer without a progress is skipped on its own: the walk goes on with the next element
    def untracked(l):
        return l[0] == "in" and l[2] == frozenset(["None"]) and l[1][0] == "call" and "ProgressTracker::get" in l[1][1]
    ok, ne = g.after_edge_must_pass(lambda lits: any(untracked(l) for l in lits), lambda b: b in nexts)
    cx.check(ok and ne >= 1, "skip-one", "an untracked peer in the list is skipped by itself: the walk continues with the next element (no early exit)")
    # after the walk the commit index is re-evaluated under the new labels (leader, group commit on)
    mc = call_blocks(f, "Raft::maybe_commit")
    def gc_on(l):
        return l[0] == "is" and l[2] is True and l[1][0] == "call" and l[1][1].endswith("group_commit")
    st_exprs = {l[1]: l[3] for n_ in range(len(g.nodes)) for _, ls in g.edges[n_] or [] for l in ls if l[0] == "in" and is_f(l[1], "RaftCore.state")}
    leader = [("in", e_, frozenset(["Leader"]), adt_) for e_, adt_ in st_exprs.items()]
    ok, ne = g.after_edge_must_pass(lambda lits: any(gc_on(l) for l in lits), lambda b: b in mc, assume=leader)
    cx.check(ok and ne >= 1 and bool(mc), "re-evaluate", "with group commit on, the leader recomputes its commit index after the labels changed")
