"""Whole-program layer: body analyses, accessor discovery, call graph, mod-sets, site tables."""
import re
from .facts import short_path
from .an import BodyAn, strip_generics, walk, fields_read, show

# External calls that are the identity on the designated object (smart-pointer derefs, reborrows).
TRANSPARENT = [
    r"^core::ops::deref::Deref::deref$",
    r"^core::ops::deref::DerefMut::deref_mut$",
    r"^<.* as core::ops::deref::Deref>::deref$",
    r"^<.* as core::ops::deref::DerefMut>::deref_mut$",
    r"^<.* as core::convert::AsRef<.*>>::as_ref$",
    r"^<.* as core::convert::AsMut<.*>>::as_mut$",
    r"^<.* as core::borrow::Borrow<.*>>::borrow$",
    r"^alloc::vec::Vec::as_slice$",
    r"^alloc::vec::Vec::as_mut_slice$",
    r"^core::option::Option::as_ref$",
    r"^core::option::Option::as_mut$",
    r"^core::result::Result::as_ref$",
    r"^<.* as core::convert::Into<.*>>::into$",
    r"^<.* as core::convert::From<.*>>::from$",
    r"^protobuf::repeated::RepeatedField::from_vec$",
    r"^protobuf::repeated::RepeatedField::into_vec$",
    r"^core::mem::take$",     # value-wise `mem::take(&mut x)` reads x (the reset it leaves behind is an effect of the call)
]
TRANSPARENT_RE = [re.compile(x) for x in TRANSPARENT]
SCALAR_RE = re.compile(r"^(?:[ui](?:8|16|32|64|128|size)|bool|char|f32|f64|\(\))$")


BORROW_ONLY = {"get_mut", "iter_mut", "values_mut", "as_mut", "as_mut_slice", "deref_mut", "first_mut", "last_mut", "borrow_mut", "as_mut_ptr", "get", "iter", "len", "is_empty", "contains", "contains_key"}


class Site:
    __slots__ = ("fn", "block", "idx", "kind", "data")

    def __init__(self, fn, block, idx, kind, data=None):
        self.fn = fn
        self.block = block
        self.idx = idx
        self.kind = kind
        self.data = data

    @property
    def at(self):
        return (self.block, self.idx)

    def __repr__(self):
        return "<Site %s bb%d/%s %s>" % (short_path(self.fn.key), self.block, self.idx, self.kind)


class Program:
    def __init__(self, facts):
        self.facts = facts
        self.an = {}
        self.getters = {}
        self.setters = {}
        self._in_simplify = False
        for k, f in facts.fns.items():
            self.an[k] = BodyAn(facts, f.body, self)
        self.short = {}
        for k in facts.fns:
            self.short.setdefault(strip_generics(k), []).append(k)
        self._discover_accessors()
        self._build_callgraph()
        self._bind_ref_params()
        self._compute_modsets()

    # ------------------------------------------------------------------ lookup
    def fn_by_short(self, sp):
        ks = self.short.get(sp)
        if ks and len(ks) == 1:
            return self.facts.fns[ks[0]]
        return None

    def find(self, suffix):
        return self.facts.find_fns(suffix)

    def one(self, suffix):
        return self.facts.one_fn(suffix)

    def A(self, fn):
        return self.an[fn.key]

    # ------------------------------------------------------------------ accessors
    def _discover_accessors(self):
        """A function whose whole body is `return &self.f..` / `return self.f..` is a getter of that
        field path; one whose only effect is `self.f = arg` is a setter. Discovered from the facts."""
        for k, f in self.facts.fns.items():
            if f.is_closure:
                continue
            a = self.an[k]
            body = f.body
            rets = [bi for bi in a.reach if body.blocks[bi]["term"]["k"] == "return"]
            calls = [bi for bi in a.reach if body.blocks[bi]["term"]["k"] == "call"]
            switches = [bi for bi in a.reach if body.blocks[bi]["term"]["k"] in ("switch", "assert")]
            if len(rets) != 1 or switches:
                continue
            writes = []
            for bi in a.reach:
                for si, st in enumerate(body.blocks[bi]["stmts"]):
                    if st["k"] == "assign" and st["place"]["p"] and st["place"]["p"][0] == "*":
                        writes.append((bi, si, st))
            if not calls and not writes and body.arg_count >= 1:
                e = a.expr_local(0, (rets[0], "term"))
                chain = field_chain(e)
                if chain is not None and chain[0] == ("param", 1) and chain[1]:
                    self.getters[strip_generics(k)] = tuple(chain[1])
            if not calls and len(writes) == 1 and body.arg_count == 2:
                bi, si, st = writes[0]
                pl = st["place"]
                if pl["l"] == 1:
                    flds = [p for p in pl["p"] if isinstance(p, dict) and "f" in p]
                    if flds and all(p.get("adt") for p in flds) and len(flds) == len(pl["p"]) - 1:
                        v = a.expr_rvalue(st["rv"], (bi, si))
                        if v[0] == "param" and v[1] == 2:
                            self.setters[strip_generics(k)] = tuple(
                                p["adt"].split("::")[-1] + "." + p["n"] for p in flds
                            )

    def _discover_converting_accessors(self):
        """Generated accessors that convert between a stored representation and the API type (prost keeps
        enums as i32: `get_msg_type` = MessageType::from_i32(self.msg_type).unwrap(); `set_msg_type`
        stores the discriminant). Recognised when the function is named after the field it is the sole
        reader/writer of, and its result/stored value derives from that field/parameter through unary
        conversions only."""
        from .pg import PG

        def leaf(v):
            for _ in range(8):
                if v[0] in ("field", "param"):
                    return v
                if v[0] in ("vfield", "cast", "tfield", "discr") and isinstance(v[1], tuple):
                    v = v[1]
                elif v[0] == "call" and len(v[2]) == 1:
                    v = v[2][0]
                else:
                    return None
            return None
        for k, f in self.facts.fns.items():
            sk = strip_generics(k)
            if f.is_closure or not f.impl_adt or sk in self.getters or sk in self.setters or f.impl_trait:
                continue
            ad = self.facts.adt(f.impl_adt)
            if not ad or ad["kind"] != "struct":
                continue
            names = {x["name"] for x in ad["variants"][0]["fields"]}
            n = f.name
            short = f.impl_adt.split("::")[-1]
            if f.body.arg_count == 1 and (n in names or (n.startswith("get_") and n[4:] in names)):
                fld = n if n in names else n[4:]
                if self.direct_mod.get(k):
                    continue
                try:
                    rets = PG(self, f).returns(limit=300)
                except OverflowError:
                    continue
                key = short + "." + fld
                if rets and all((lambda x: x is not None and x[0] == "field" and x[2] == key and x[1][0] == "param" and x[1][1] == 1)(leaf(v)) for _, v, _ in rets):
                    self.getters[sk] = (key,)
            elif f.body.arg_count == 2 and n.startswith("set_") and n[4:] in names:
                key = short + "." + n[4:]
                ws = self.direct_writes(k)
                if len(ws) == 1 and ws[0][1] == key and "stmt" in ws[0][0].data:
                    s0 = ws[0][0]
                    v = self.an[k].expr_rvalue(s0.data["stmt"]["rv"], s0.at)
                    lf = leaf(v)
                    if lf is not None and lf[0] == "param" and lf[1] == 2:
                        self.setters[sk] = (key,)

    def wrappers(self):
        """Private straight-line functions without side effects whose result is one expression over their
        parameters (`fn entries_for(&self, to, next) -> .. { self.raft_log.entries(next, self.max, ..) }`):
        {short path: result expression in terms of ('param', i)}. Used by rules as a fallback when a value
        shape is hidden behind such a helper (extract-function refactorings)."""
        w = getattr(self, "_wrappers", None)
        if w is not None:
            return w
        w = {}
        for k, f in self.facts.fns.items():
            if f.is_closure or f.crate != "raft" or f.vis == "Public" or f.impl_trait:
                continue
            a = self.an[k]
            body = f.body
            rets = [bi for bi in a.reach if body.blocks[bi]["term"]["k"] == "return"]
            sw = [bi for bi in a.reach if body.blocks[bi]["term"]["k"] in ("switch", "assert")]
            if len(rets) != 1 or body.local_ty(0) == "()" or len(a.reach) > 24:
                continue
            if any(st["k"] == "assign" and st["place"]["p"] and st["place"]["p"][0] == "*" for bi in a.reach for st in body.blocks[bi]["stmts"]):
                continue
            if self.direct_mod.get(k):
                continue
            from .an import walk
            if not sw:
                e = a.expr_local(0, (rets[0], "term"))
            else:
                # a small selector (`match self.x { Some(s) => s.index, None => self.offset }`): the result is
                # one of the alternatives, stated as a phi (path conditions are not carried, as for any phi)
                from .pg import PG
                try:
                    rs = PG(self, f).returns(limit=16)
                except OverflowError:
                    continue
                vals = []
                for _, v, _ in rs:
                    if v not in vals:
                        vals.append(v)
                if not (2 <= len(vals) <= 4):
                    continue
                e = ("phi", -1, f.name, tuple(vals))
            if any(x[0] in ("local", "opaque") or (x[0] == "phi" and x[1] != -1) for x in walk(e)):
                continue
            w[strip_generics(k)] = e
        self._wrappers = w
        return w

    def inline_wrappers(self, e, depth=2):
        from .pat import subst_params
        if not isinstance(e, tuple) or depth < 0:
            return e
        if e and e[0] == "call":
            args = tuple(self.inline_wrappers(x, depth) for x in e[2])
            w = self.wrappers().get(e[1])
            if w is not None:
                return self.inline_wrappers(subst_params(w, list(args)), depth - 1)
            return (e[0], e[1], args) + tuple(e[3:])
        if isinstance(e, frozenset):
            return e
        return tuple(self.inline_wrappers(x, depth) if isinstance(x, tuple) else x for x in e)

    def pg_of(self, fn):
        """the (cached) product graph of a function"""
        c = self.__dict__.setdefault("_pg_cache", {})
        g = c.get(fn.key)
        if g is None:
            from .pg import PG
            g = PG(self, fn)
            c[fn.key] = g
        return g

    def simplify_call(self, e, fr=None):
        path = e[1]
        args = e[2]
        g = self.getters.get(path)
        if g is not None and args:
            x = args[0]
            for key in g:
                x = ("field", x, key)
            return x
        for r in TRANSPARENT_RE:
            if r.match(path) and args:
                return args[0]
        if path.endswith("::from_residual") and "result::Result" in path and "option::Option<" not in path.split("FromResidual")[0] and len(args) == 1:
            # `r?` on an Err: the enclosing function's Result is an Err (built from the residual's payload)
            from .an import mk_vfield
            return ("adt", "core::result::Result::Err", (("0", mk_vfield(args[0], "core::result::Result::Err", 0)),))
        if path.endswith("::from_residual") and "option::Option" in path:
            # `o?` on None: the enclosing function's Option result is None
            return ("enum", "core::option::Option", "None")
        if (path.endswith("Option::is_some") or path.endswith("Option::is_none")) and len(args) == 1 and args[0][0] == "call" and args[0][1].endswith("::checked_sub") and len(args[0][2]) == 2 and "<impl u" in args[0][1]:
            # a.checked_sub(b).is_some() == (b <= a) for unsigned a, b
            from .an import mk_bin
            a_, b_ = args[0][2]
            return mk_bin("Le", b_, a_) if path.endswith("is_some") else mk_bin("Lt", a_, b_)
        if path.endswith("Option::unwrap_or") and len(args) == 2 and args[1] == ("int", 0) and args[0][0] == "call" and args[0][1].endswith("::checked_sub") and len(args[0][2]) == 2:
            # a.checked_sub(b).unwrap_or(0) == a.saturating_sub(b)
            return ("call", args[0][1][: -len("checked_sub")] + "saturating_sub", args[0][2])
        if path.endswith("Option::unwrap_or_default") and len(args) == 1 and args[0][0] == "call" and args[0][1].endswith("::checked_sub") and len(args[0][2]) == 2:
            return ("call", args[0][1][: -len("checked_sub")] + "saturating_sub", args[0][2])
        if args and ("option::Option" in path or "result::Result" in path):
            # accessors of an Option/Result whose variant is known at this point (a helper taking `Option<..>` spliced
            # in at a call that passes `None` / `Some(v)`)
            x = args[0]
            var = payload = None
            if x[0] == "enum" and x[1] in ("core::option::Option", "core::result::Result"):
                var = x[2]
            elif x[0] == "adt" and x[1].rsplit("::", 1)[0] in ("core::option::Option", "core::result::Result") and len(x[2]) == 1:
                var = x[1].rsplit("::", 1)[1]
                payload = x[2][0][1]
            if var is not None:
                m_ = path.rsplit("::", 1)[1]
                truth = {"is_some": var == "Some", "is_none": var == "None", "is_ok": var == "Ok", "is_err": var == "Err"}
                if m_ in truth and len(args) == 1:
                    return ("bool", truth[m_])
                if var in ("Some", "Ok") and payload is not None and m_ in ("unwrap", "expect", "unwrap_or", "unwrap_or_default", "unwrap_or_else", "unwrap_unchecked"):
                    return payload
                if var in ("None", "Err") and m_ == "unwrap_or" and len(args) == 2:
                    return args[1]
                if var == "None" and m_ == "unwrap_or_default" and len(args) == 1:
                    return ("opaque", "default")
        if len(args) == 2 and "PartialEq" in path:
            from .an import mk_bin
            if path.endswith("::eq"):
                return mk_bin("Eq", args[0], args[1])
            if path.endswith("::ne"):
                return mk_bin("Ne", args[0], args[1])
        return e

    def field_of_call(self, c, adt, name):
        """value of field `name` of the struct a crate-local constructor-like function returns (one return shape,
        built in place), over the call's arguments; None if it cannot be told"""
        ks = self.short.get(c[1])
        if not ks or len(ks) != 1:
            return None
        if self.facts.fns[ks[0]].impl_adt != adt:
            return None   # only a type's own constructors (`Progress::new(..)`), not accessors that build some other value
        cache = self.__dict__.setdefault("_foc_cache", {})
        key = (ks[0], adt)
        if key not in cache:
            cache[key] = None   # recursion guard
            try:
                from .templates import return_template
                rt = return_template(self, self.facts.fns[ks[0]], adt.split("::")[-1])
            except Exception:
                rt = None
            cache[key] = rt if rt and len(rt) == 1 else None
        rt = cache[key]
        if not rt:
            return None
        v = rt[0].get(name)
        if v is None or not isinstance(v, tuple):
            return None
        from .an import walk
        if any(x[0] in ("local", "phi", "opaque", "upvar") for x in walk(v)):
            return None
        from .pat import subst_params
        return subst_params(v, list(c[2]))

    # ------------------------------------------------------------------ call graph
    def _build_callgraph(self):
        self.calls_out = {k: [] for k in self.facts.fns}   # (callee_short, Site)
        self.calls_in = {}
        self.closure_parent = {}
        self.all_calls = []
        for k, f in self.facts.fns.items():
            a = self.an[k]
            for bi in sorted(a.reach):
                b = f.body.blocks[bi]
                t = b["term"]
                if t["k"] == "call":
                    fc = t["func"]
                    if "const" in fc and "fn" in fc["const"]:
                        fr = fc["const"]["fn"]
                        sp = strip_generics(fr["path"])
                        s = Site(f, bi, "term", "call", {"callee": sp, "fnref": fr, "term": t})
                        self.calls_out[k].append((sp, s))
                        self.calls_in.setdefault(sp, []).append(s)
                        self.all_calls.append(s)
                for si, st in enumerate(b["stmts"]):
                    if st["k"] == "assign" and "agg" in st["rv"] and st["rv"]["agg"] == "closure":
                        cp = strip_generics(st["rv"]["closure"])
                        self.closure_parent[cp] = k
                        s = Site(f, bi, si, "closure", {"callee": cp})
                        self.calls_out[k].append((cp, s))
                        self.calls_in.setdefault(cp, []).append(s)

    def _bind_ref_params(self):
        """A private function that receives `&mut self.some_field` (a scalar field by reference) at every one of its
        call sites works on that field: inside it the parameter is read and written as the field. (Arises when a
        method is turned into a free function that takes the pieces it needs.)"""
        self.param_field = {}
        for k, f in self.facts.fns.items():
            if f.is_closure or f.crate != "raft" or f.vis == "Public":
                continue
            n = f.body.arg_count
            cands = [i for i in range(1, n + 1) if re.match(r"^&(mut )?(u64|usize|bool|u32|i64)$", f.body.local_ty(i) or "")]
            if not cands:
                continue
            sites = self.calls_in.get(strip_generics(k), [])
            sites = [s for s in sites if s.kind == "call"]
            if not sites:
                continue
            for i in cands:
                keys = set()
                for s in sites:
                    args = s.data["term"]["args"]
                    if i - 1 >= len(args):
                        keys.add(None)
                        continue
                    e = self.an[s.fn.key].expr_operand(args[i - 1], s.at)
                    keys.add(e[2] if e[0] == "field" and isinstance(e[2], str) else None)
                if len(keys) == 1 and None not in keys:
                    key = keys.pop()
                    a = self.an[k]
                    if not hasattr(a, "param_alias"):
                        a.param_alias = {}
                    a.param_alias[i] = ("field", ("bound", key.split(".")[0]), key)
                    a._expr_cache.clear()
                    self.param_field[(k, i)] = key

    def callees(self, key):
        out = set()
        for sp, s in self.calls_out.get(key, []):
            out.add(sp)
        return out

    def reachable_fns(self, roots, stop=()):
        """Transitive closure over the in-crate call graph (short paths)."""
        seen = set()
        st = list(roots)
        while st:
            sp = st.pop()
            if sp in seen or sp in stop:
                continue
            seen.add(sp)
            ks = self.short.get(sp)
            if not ks:
                continue
            for k in ks:
                for c in self.callees(k):
                    if c not in seen:
                        st.append(c)
        return seen

    def call_sites_of(self, suffix):
        """All in-crate call sites whose resolved callee's short path ends with `suffix`."""
        out = []
        for sp, sites in self.calls_in.items():
            if sp == suffix or sp.endswith("::" + suffix):
                for s in sites:
                    if s.kind == "call":
                        out.append(s)
        return out

    # ------------------------------------------------------------------ direct writes / mod-sets
    def direct_writes(self, key):
        """[(Site, field_key, place)] for every assignment through a field projection."""
        f = self.facts.fns[key]
        a = self.an[key]
        out = []
        for bi in sorted(a.reach):
            b = f.body.blocks[bi]
            for si, st in enumerate(b["stmts"]):
                if st["k"] not in ("assign", "setdiscr"):
                    continue
                pl = st["place"]
                fk = last_field_key(pl)
                if fk is not None:
                    out.append((Site(f, bi, si, "write", {"stmt": st, "field": fk}), fk, pl))
                elif pl["p"] == ["*"] and (key, pl["l"]) in getattr(self, "param_field", {}):
                    fk2 = self.param_field[(key, pl["l"])]
                    out.append((Site(f, bi, si, "write", {"stmt": st, "field": fk2}), fk2, pl))
                elif pl["p"] and pl["p"][-1] == "*":
                    # `*x = v`: overwrite of a whole object
                    adt = self._place_adt(f, pl)
                    if adt:
                        out.append((Site(f, bi, si, "write", {"stmt": st, "field": adt.split("::")[-1] + ".*"}), adt.split("::")[-1] + ".*", pl))
            t = b["term"]
            if t["k"] == "call":
                pl = t["dest"]
                fk = last_field_key(pl)
                if fk is not None:
                    out.append((Site(f, bi, "term", "write", {"term": t, "field": fk}), fk, pl))
        return out

    def _place_adt(self, f, pl):
        # type of the place after full projection is not exported; approximate with the local's adt when
        # the projection is a pure deref chain
        if all(p == "*" for p in pl["p"]):
            return f.body.local_adt(pl["l"])
        return None

    def _compute_modsets(self):
        self.writes = {}          # field_key -> [Site]
        direct = {}
        for k in self.facts.fns:
            ws = self.direct_writes(k)
            direct[k] = set()
            for s, fk, pl in ws:
                self.writes.setdefault(fk, []).append(s)
                direct[k].add(fk)
            # external calls that receive &mut to a field path or object
            f = self.facts.fns[k]
            a = self.an[k]
            for sp, s in self.calls_out[k]:
                if s.kind != "call":
                    continue
                if sp in self.short:
                    continue
                t = s.data["term"]
                for op in t["args"]:
                    pl = op.get("move") or op.get("copy")
                    if pl is None:
                        continue
                    ty = f.body.local_ty(pl["l"]) if not pl["p"] else None
                    if ty is not None and (ty.startswith("&mut ") or ty.startswith("*mut ")):
                        e = a.expr_operand(op, s.at)
                        tgt = ext_write_target(e, f.body.local_adt(pl["l"]))
                        if tgt:
                            direct[k].add(tgt)
                            self.writes.setdefault(tgt, []).append(Site(f, s.block, "term", "extwrite", {"term": t, "field": tgt, "callee": sp}))
        self.direct_mod = direct
        mod = {k: set(v) for k, v in direct.items()}
        changed = True
        while changed:
            changed = False
            for k in self.facts.fns:
                m = mod[k]
                n0 = len(m)
                for sp in self.callees(k):
                    for ck in self.short.get(sp, []):
                        m |= mod[ck]
                if len(m) != n0:
                    changed = True
        self.mod = mod
        self._discover_converting_accessors()
        self._compute_readsets()
        self._compute_rooted()

    def _compute_readsets(self):
        direct = {}
        for k, f in self.facts.fns.items():
            r = set()
            a = self.an[k]
            for bi in a.reach:
                b = f.body.blocks[bi]
                for st in b["stmts"]:
                    if st["k"] == "assign":
                        collect_place_fields_rv(st["rv"], r)
                t = b["term"]
                if t["k"] == "call":
                    for op in t["args"]:
                        collect_op_fields(op, r)
                elif t["k"] == "switch":
                    collect_op_fields(t["op"], r)
                elif t["k"] == "assert":
                    collect_op_fields(t["cond"], r)
            direct[k] = r
        rd = {k: set(v) for k, v in direct.items()}
        changed = True
        while changed:
            changed = False
            for k in self.facts.fns:
                m = rd[k]
                n0 = len(m)
                for sp in self.callees(k):
                    for ck in self.short.get(sp, []):
                        m |= rd[ck]
                if len(m) != n0:
                    changed = True
        self.rd = rd

    def readset_short(self, sp):
        out = set()
        for k in self.short.get(sp, []):
            out |= self.rd[k]
        return out

    # ------------------------------------------------------------------ rooted effects (kill analysis)
    # Safe Rust guarantees that an object reached from one parameter/local is not mutated through
    # another one (no aliasing of &mut), so effects are summarised as (root, Adt.field) with root a
    # parameter index, a captured variable ('u', name), a local ('l', n, only inside one body) or '?'.
    def field_ty(self, key):
        m = getattr(self, "_field_ty", None)
        if m is None:
            m = {}
            amb = set()
            for path, ad in self.facts.adts.items():
                short = path.split("::")[-1]
                for v in ad["variants"]:
                    for f in v["fields"]:
                        k = short + "." + f["name"]
                        if k in m and m[k] != f["ty"]:
                            amb.add(k)
                        m[k] = f["ty"]
            for k in amb:
                m[k] = None
            self._field_ty = m
        return m.get(key)

    def root_of(self, e, fn=None):
        k = e[0]
        if k == "param":
            if fn is not None and isinstance(e[1], int) and e[1] < len(fn.body.locals) and SCALAR_RE.match(fn.body.local_ty(e[1])):
                return frozenset()
            return frozenset([e[1]])
        if k == "local":
            return frozenset([("l", e[1])])
        if k == "upvar":
            return frozenset([("u", e[1])])
        if k == "field":
            ty = self.field_ty(e[2])
            if ty is not None and SCALAR_RE.match(ty):
                return frozenset()
            return self.root_of(e[1], fn)
        if k in ("tfield", "vfield", "index", "cast", "discr", "len", "subslice"):
            return self.root_of(e[1], fn)
        if k == "call":
            out = frozenset()
            for a in e[2]:
                out |= self.root_of(a, fn)
            return out
        if k == "callv":
            return frozenset(["?"])
        if k == "phi":
            out = frozenset()
            for a in e[3]:
                out |= self.root_of(a, fn)
            return out
        if k in ("opaque", "closure_env"):
            return frozenset(["?"])
        return frozenset()

    def _place_roots(self, a, pl, at):
        if pl["p"] and pl["p"][0] == "*":
            # through a reference held in the base local
            fieldless = {"l": pl["l"], "p": []}
            return self.root_of(a.expr_place(fieldless, at), a.fn)
        if a.is_param(pl["l"]):
            return frozenset([pl["l"]])
        return frozenset([("l", pl["l"])])

    def _stmt_effects(self, fn, a, bi, si, st, wr, rdset):
        at = (bi, si)
        if st["k"] in ("assign", "setdiscr"):
            pl = st["place"]
            fk = last_field_key(pl)
            if fk is None and pl["p"] and pl["p"][-1] == "*":
                adt = self._place_adt(fn, pl)
                fk = adt.split("::")[-1] + ".*" if adt else None
            if fk is not None and wr is not None:
                for r in self._place_roots(a, pl, at):
                    wr.add((r, fk))
                nested = self._field_type_star(pl)
                if nested:
                    for r in self._place_roots(a, pl, at):
                        wr.add((r, nested))
        if rdset is not None and st["k"] == "assign":
            for pl in rv_places(st["rv"]):
                ks = set()
                collect_place_fields(pl, ks)
                if ks:
                    roots = self._place_roots(a, pl, at)
                    for fk in ks:
                        for r in roots:
                            rdset.add((r, fk))

    def _field_type_star(self, pl):
        """Overwriting a field of struct type X also overwrites X.*"""
        last = None
        for p in pl["p"]:
            if isinstance(p, dict) and "f" in p and p.get("adt"):
                last = p
        if last is None or (pl["p"] and pl["p"][-1] is not last):
            return None
        ad = self.facts.adt(last["adt"])
        if not ad:
            return None
        for v in ad["variants"]:
            for f in v["fields"]:
                if f["name"] == last["n"] and f.get("adt") and self.facts.adt(f["adt"]):
                    return f["adt"].split("::")[-1] + ".*"
        return None

    def _call_effects(self, fn, a, bi, t, table, out, keep_locals):
        """Map the callee's rooted summary (table: key -> set) through the actual arguments."""
        fc = t["func"]
        if not ("const" in fc and "fn" in fc["const"]):
            return
        sp = strip_generics(fc["const"]["fn"]["path"])
        at = (bi, "term")
        if sp in self.short:
            argroots = None
            for ck in self.short[sp]:
                for (r, fk) in table.get(ck, ()):
                    if r == "?":
                        out.add(("?", fk))
                        continue
                    if isinstance(r, int):
                        if argroots is None:
                            argroots = [self.root_of(a.expr_operand(o, at), fn) for o in t["args"]]
                        if r - 1 < len(argroots):
                            for rr in argroots[r - 1]:
                                if isinstance(rr, tuple) and rr[0] == "l" and not keep_locals:
                                    continue
                                out.add((rr, fk))
                        else:
                            out.add(("?", fk))
                    # ('u', name) entries of closures are mapped at the creation site
        elif table is self.eff:
            # std accessors that only hand out a reference (`get_mut`, `iter_mut`, `as_mut`, ..) do not change the
            # container; what is later written through the reference is a write statement of its own
            cal = t["func"].get("const", {}).get("fn", {}).get("path", "") if isinstance(t.get("func"), dict) else ""
            if strip_generics(cal).rsplit("::", 1)[-1] in BORROW_ONLY and not cal.startswith("raft"):
                return
            for op in t["args"]:
                pl = op.get("move") or op.get("copy")
                if pl is None or pl["p"]:
                    continue
                ty = fn.body.local_ty(pl["l"])
                if ty.startswith("&mut ") or ty.startswith("*mut "):
                    e = a.expr_operand(op, at)
                    tgt = ext_write_target(e, fn.body.local_adt(pl["l"]))
                    if tgt:
                        for rr in self.root_of(e, fn):
                            if isinstance(rr, tuple) and rr[0] == "l" and not keep_locals:
                                continue
                            out.add((rr, tgt))

    def _closure_effects(self, fn, a, bi, si, st, table, out, keep_locals):
        rv = st["rv"]
        if st["k"] != "assign" or rv.get("agg") != "closure":
            return
        cp = strip_generics(rv["closure"])
        names = rv.get("fields", [])
        caps = {}
        for n, o in zip(names, rv["ops"]):
            caps[n] = self.root_of(a.expr_operand(o, (bi, si)), fn)
        for ck in self.short.get(cp, []):
            for (r, fk) in table.get(ck, ()):
                if isinstance(r, tuple) and r[0] == "u":
                    for rr in caps.get(r[1], frozenset(["?"])):
                        if isinstance(rr, tuple) and rr[0] == "l" and not keep_locals:
                            continue
                        out.add((rr, fk))
                else:
                    # effects on the closure's own arguments: whatever the caller feeds it
                    out.add(("?", fk))

    def _compute_rooted(self):
        self.eff = {k: set() for k in self.facts.fns}
        self.rdr = {k: set() for k in self.facts.fns}
        dw, dr = {}, {}
        for k, f in self.facts.fns.items():
            a = self.an[k]
            w, r = set(), set()
            for bi in sorted(a.reach):
                b = f.body.blocks[bi]
                for si, st in enumerate(b["stmts"]):
                    self._stmt_effects(f, a, bi, si, st, w, r)
                t = b["term"]
                if t["k"] == "call":
                    fk = last_field_key(t["dest"])
                    if fk:
                        for rr in self._place_roots(a, t["dest"], (bi, "term")):
                            w.add((rr, fk))
                    for op in t["args"]:
                        pl = op.get("move") or op.get("copy")
                        if pl is not None:
                            ks = set()
                            collect_place_fields(pl, ks)
                            for fk2 in ks:
                                for rr in self._place_roots(a, pl, (bi, "term")):
                                    r.add((rr, fk2))
                elif t["k"] in ("switch", "assert"):
                    op = t["op"] if t["k"] == "switch" else t["cond"]
                    pl = op.get("move") or op.get("copy")
                    if pl is not None:
                        ks = set()
                        collect_place_fields(pl, ks)
                        for fk2 in ks:
                            for rr in self._place_roots(a, pl, (bi, "term")):
                                r.add((rr, fk2))
            dw[k] = {(rr, fk) for rr, fk in w if not (isinstance(rr, tuple) and rr[0] == "l")}
            dr[k] = {(rr, fk) for rr, fk in r if not (isinstance(rr, tuple) and rr[0] == "l")}
        for k in self.facts.fns:
            self.eff[k] = set(dw[k])
            self.rdr[k] = set(dr[k])
        changed = True
        rounds = 0
        while changed and rounds < 30:
            changed = False
            rounds += 1
            for k, f in self.facts.fns.items():
                a = self.an[k]
                for table in (self.eff, self.rdr):
                    cur = table[k]
                    n0 = len(cur)
                    for sp, s in self.calls_out[k]:
                        b = f.body.blocks[s.block]
                        if s.kind == "call":
                            self._call_effects(f, a, s.block, b["term"], table, cur, False)
                        else:
                            self._closure_effects(f, a, s.block, s.idx, b["stmts"][s.idx], table, cur, False)
                    if len(cur) != n0:
                        changed = True

    def block_effects(self, fn, bi, upto=None):
        """Rooted writes {(root, Adt.field)} of the statements (idx < upto) and, if upto is None, the
        terminator of a block, in the vocabulary of `fn` (local roots included)."""
        a = self.an[fn.key]
        b = fn.body.blocks[bi]
        out = set()
        for si, st in enumerate(b["stmts"]):
            if upto is not None and upto != "term" and si >= upto:
                break
            self._stmt_effects(fn, a, bi, si, st, out, None)
            self._closure_effects(fn, a, bi, si, st, self.eff, out, True)
        if upto is None:
            t = b["term"]
            if t["k"] == "call":
                self._call_effects(fn, a, bi, t, self.eff, out, True)
                fk = last_field_key(t["dest"])
                if fk:
                    for rr in self._place_roots(a, t["dest"], (bi, "term")):
                        out.add((rr, fk))
        return out

    def expr_footprint(self, e, fn=None):
        """Rooted reads {(rootset, Adt.field)} an expression's value depends on."""
        out = set()
        for x in walk(e):
            if x[0] == "field":
                out.add((self.root_of(x[1], fn), x[2]))
            elif x[0] == "call":
                argroots = None
                for ck in self.short.get(x[1], []):
                    for (r, fk) in self.rdr.get(ck, ()):
                        if r == "?" or not isinstance(r, int):
                            out.add((frozenset(["?"]), fk))
                        else:
                            if argroots is None:
                                argroots = [self.root_of(y, fn) for y in x[2]]
                            if r - 1 < len(argroots):
                                out.add((argroots[r - 1], fk))
        return out

    def modset(self, suffix_or_fn):
        f = suffix_or_fn if not isinstance(suffix_or_fn, str) else self.one(suffix_or_fn)
        if f is None:
            return None
        return self.mod[f.key]

    def modset_short(self, sp):
        out = set()
        for k in self.short.get(sp, []):
            out |= self.mod[k]
        return out

    # ------------------------------------------------------------------ block effects (for kill analysis)
    def block_writes(self, fn, bi, upto=None):
        """Field keys that may be written by the statements/terminator of a block (idx < upto)."""
        key = fn.key
        out = set()
        b = fn.body.blocks[bi]
        a = self.an[key]
        for si, st in enumerate(b["stmts"]):
            if upto is not None and upto != "term" and si >= upto:
                break
            if st["k"] in ("assign", "setdiscr"):
                fk = last_field_key(st["place"])
                if fk:
                    out.add(fk)
                elif st["place"]["p"] and st["place"]["p"][-1] == "*":
                    adt = self._place_adt(fn, st["place"])
                    if adt:
                        out.add(adt.split("::")[-1] + ".*")
        if upto is None:
            t = b["term"]
            if t["k"] == "call":
                fc = t["func"]
                if "const" in fc and "fn" in fc["const"]:
                    sp = strip_generics(fc["const"]["fn"]["path"])
                    if sp in self.short:
                        out |= self.modset_short(sp)
                    else:
                        for op in t["args"]:
                            pl = op.get("move") or op.get("copy")
                            if pl is None or pl["p"]:
                                continue
                            ty = fn.body.local_ty(pl["l"])
                            if ty.startswith("&mut ") or ty.startswith("*mut "):
                                e = a.expr_operand(op, (bi, "term"))
                                tgt = ext_write_target(e, fn.body.local_adt(pl["l"]))
                                if tgt:
                                    out.add(tgt)
                fk = last_field_key(t["dest"])
                if fk:
                    out.add(fk)
        return out

    def local_writes_in_block(self, fn, bi, upto=None):
        out = set()
        b = fn.body.blocks[bi]
        for si, st in enumerate(b["stmts"]):
            if upto is not None and upto != "term" and si >= upto:
                break
            if st["k"] == "assign" and (not st["place"]["p"] or st["place"]["p"][0] != "*"):
                out.add(st["place"]["l"])
        if upto is None and b["term"]["k"] == "call":
            d = b["term"]["dest"]
            if not d["p"] or d["p"][0] != "*":
                out.add(d["l"])
        return out


def last_field_key(pl):
    last = None
    for p in pl["p"]:
        if isinstance(p, dict) and "f" in p and p.get("adt"):
            last = p
    if last is None:
        return None
    # the write must go *through* the field as final structural step (indexing after it still writes it)
    return last["adt"].split("::")[-1] + "." + last["n"]


def field_chain(e):
    keys = []
    while e[0] == "field":
        keys.append(e[2])
        e = e[1]
    if e[0] == "param":
        return (("param", e[1]), list(reversed(keys)))
    return None


def ext_write_target(e, adt):
    """What an external callee given `&mut <e>` may write, at field granularity."""
    if e[0] == "field":
        return e[2]
    if e[0] in ("vfield", "index", "tfield") and len(e) > 1 and isinstance(e[1], tuple):
        return ext_write_target(e[1], adt)
    if adt:
        return adt.split("::")[-1] + ".*"
    return None


def collect_place_fields(pl, out):
    for p in pl["p"]:
        if isinstance(p, dict) and "f" in p and p.get("adt"):
            out.add(p["adt"].split("::")[-1] + "." + p["n"])


def collect_op_fields(op, out):
    pl = op.get("copy") or op.get("move")
    if pl is not None:
        collect_place_fields(pl, out)


def collect_place_fields_rv(rv, out):
    for k in ("use", "cast", "a", "b", "repeat"):
        if k in rv and isinstance(rv[k], dict):
            collect_op_fields(rv[k], out)
    for k in ("ref", "rawptr", "discr"):
        if k in rv:
            collect_place_fields(rv[k], out)
    if "ops" in rv:
        for o in rv["ops"]:
            collect_op_fields(o, out)


def rv_places(rv):
    out = []
    for k in ("use", "cast", "a", "b", "repeat"):
        if k in rv and isinstance(rv[k], dict):
            pl = rv[k].get("copy") or rv[k].get("move")
            if pl is not None:
                out.append(pl)
    for k in ("ref", "rawptr", "discr"):
        if k in rv:
            out.append(rv[k])
    if "ops" in rv:
        for o in rv["ops"]:
            pl = o.get("copy") or o.get("move")
            if pl is not None:
                out.append(pl)
    return out


def killed_rooted(writes, footprint):
    """writes: {(root, 'Adt.f')}; footprint: {(frozenset(roots), 'Adt.f')}"""
    for rw, fw in writes:
        wa, wf = fw.split(".", 1)
        for rr, fr in footprint:
            if fw != fr:
                ra, rf = fr.split(".", 1)
                if not (ra == wa and (wf == "*" or rf == "*")):
                    continue
            if rw == "?" or "?" in rr or rw in rr or not rr:
                return True
    return False
