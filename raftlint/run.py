"""Developer entry: python3 -m raftlint.run <factsdir> [--prop Cxx] [--obl NAME] [-v]"""
import sys
import time
import importlib
import pkgutil
from .facts import load_dir
from .prog import Program
from .engine import Cx, OBLIGATIONS


def load_rules():
    from . import rules
    for m in pkgutil.iter_modules(rules.__path__):
        importlib.import_module("raftlint.rules." + m.name)


def main():
    args = sys.argv[1:]
    d = args[0]
    prop = None
    obl = None
    verbose = "-v" in args
    if "--prop" in args:
        prop = args[args.index("--prop") + 1]
    if "--obl" in args:
        obl = args[args.index("--obl") + 1]
    t0 = time.time()
    facts = load_dir(d)
    prog = Program(facts)
    load_rules()
    cx = Cx(prog)
    if obl:
        global OBLIGATIONS
        keep = [o for o in OBLIGATIONS if o["name"].startswith(obl)]
        OBLIGATIONS[:] = keep
    res = cx.run([prop] if prop else None)
    nbad = 0
    for name, insts in res.items():
        bad = [i for i in insts if not i.ok]
        print("%-28s %3d instances, %d violations" % (name, len(insts), len(bad)))
        for i in insts:
            if verbose or not i.ok:
                print("   %s %s @%s\n        %s" % ("ok " if i.ok else "BAD", i.key, i.where, i.text))
                if not i.ok or verbose:
                    for k, v in i.detail.items():
                        print("          %s: %s" % (k, v))
        nbad += len(bad)
    print("total %.2fs, violations: %d" % (time.time() - t0, nbad))


if __name__ == "__main__":
    main()
