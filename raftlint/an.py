"""Per-body analyses: CFG, definitions, reaching definitions, value-expression reconstruction.

Value expressions are nested tuples (hashable), built only from the exported MIR:

  ('int', n) ('bool', b) ('unit',) ('str', s) ('bytes', (..)) ('enum', adt, variant)
  ('item', path)                         named constant whose value is not a scalar
  ('fnref', path)
  ('param', i, name)                     i-th argument (1-based, as in MIR) of the function
  ('upvar', name)                        captured variable inside a closure body
  ('local', l, name)                     a local used as an object designator (mutably borrowed / multi-def)
  ('field', base, 'Adt.field')           struct field (references and derefs are stripped)
  ('tfield', base, i)                    tuple field
  ('vfield', base, 'Adt::Variant', i)    payload field i of an enum variant
  ('index', base, idx)
  ('call', path, (args..))               resolved callee path (generic args stripped)
  ('bin', op, a, b) ('un', op, a) ('cast', a, ty)
  ('discr', a, adt)
  ('tuple', (..)) ('array', (..)) ('adt', 'Adt::Variant', ((name, e), ..))
  ('closure', path, ((name, e), ..))
  ('phi', l, name, (e1, e2, ..))         several reaching definitions
  ('opaque', why)
"""
import re
from .facts import Place, short_path

MAX_DEPTH = 40


def strip_generics(p):
    return short_path(p)


class BodyAn:
    def __init__(self, facts, body, prog=None):
        self.facts = facts
        self.body = body
        self.fn = body.fn
        self.prog = prog
        self.nb = body.nblocks
        self._build_cfg()
        self._collect_defs()
        self._rd_cache = {}
        self._expr_cache = {}
        self._env_memo = {}

    # ---------------------------------------------------------------- CFG
    def _build_cfg(self):
        self.succs = [[] for _ in range(self.nb)]
        self.preds = [[] for _ in range(self.nb)]
        for bi, b in enumerate(self.body.blocks):
            t = b["term"]
            k = t["k"]
            out = []
            if k == "goto":
                out = [t["target"]]
            elif k == "switch":
                out = [x[1] for x in t["targets"]] + [t["otherwise"]]
            elif k == "call":
                if t["target"] is not None:
                    out = [t["target"]]
            elif k in ("drop", "assert"):
                out = [t["target"]]
            # return / unreachable / resume / terminate / tailcall: no successors
            seen = []
            for o in out:
                if o not in seen:
                    seen.append(o)
            self.succs[bi] = seen
            for o in seen:
                self.preds[o].append(bi)
        # reachable (normal edges only) from entry
        self.reach = set()
        st = [0]
        while st:
            x = st.pop()
            if x in self.reach:
                continue
            self.reach.add(x)
            st.extend(self.succs[x])

    # ---------------------------------------------------------------- definitions
    def _collect_defs(self):
        nloc = len(self.body.locals)
        self.defs = [[] for _ in range(nloc)]      # whole definitions: (block, idx|'term', kind, payload)
        self.partial = [[] for _ in range(nloc)]   # projected writes not through a deref
        self.mutref = [[] for _ in range(nloc)]    # &mut taken of (a part of) the local itself
        for bi, b in enumerate(self.body.blocks):
            if bi not in self.reach:
                continue
            for si, st in enumerate(b["stmts"]):
                if st["k"] == "assign":
                    pl = st["place"]
                    l = pl["l"]
                    if not pl["p"]:
                        self.defs[l].append((bi, si, "assign", st["rv"]))
                    elif pl["p"][0] != "*":
                        self.partial[l].append((bi, si))
                    rv = st["rv"]
                    if ("ref" in rv and rv["mut"]) or "rawptr" in rv:
                        rp = rv.get("ref") or rv.get("rawptr")
                        if not rp["p"] or rp["p"][0] != "*":
                            self.mutref[rp["l"]].append((bi, si))
                elif st["k"] == "setdiscr":
                    pl = st["place"]
                    if not pl["p"] or pl["p"][0] != "*":
                        self.partial[pl["l"]].append((bi, si))
            t = b["term"]
            if t["k"] == "call":
                pl = t["dest"]
                l = pl["l"]
                if not pl["p"]:
                    self.defs[l].append((bi, "term", "call", t))
                elif pl["p"][0] != "*":
                    self.partial[l].append((bi, "term"))

    def is_param(self, l):
        return 1 <= l <= self.body.arg_count

    def init_expr(self, l):
        """Initialiser of an object local that is later mutated in place (`let mut x = <init>;`)."""
        ds = self.defs[l]
        if len(ds) != 1:
            return None
        bi, idx, kind, payload = ds[0]
        if kind == "assign":
            return self.expr_rvalue(payload, (bi, idx))
        return self.expr_call(payload, (bi, "term"))

    def stable(self, l):
        """Local whose value is one expression everywhere it is used."""
        if self.partial[l] or self.mutref[l]:
            return False
        n = len(self.defs[l])
        if self.is_param(l):
            return n == 0
        return n == 1

    # reaching definitions for one local at the entry of each block
    def _rd(self, l):
        """Reaching definitions of local `l` at block entries, as sets of indexes into self.defs[l]
        (-1 = the value on function entry)."""
        r = self._rd_cache.get(l)
        if r is not None:
            return r
        gen = {}
        for di, d in enumerate(self.defs[l]):
            bi = d[0]
            cur = gen.get(bi)
            if cur is None or self._pos(d[1]) > self._pos(self.defs[l][cur][1]):
                gen[bi] = di
        IN = [frozenset() for _ in range(self.nb)]
        OUT = [frozenset() for _ in range(self.nb)]
        work = [b for b in range(self.nb) if b in self.reach]
        inwork = set(work)
        while work:
            b = work.pop(0)
            inwork.discard(b)
            i = frozenset([-1]) if b == 0 else frozenset()
            for p in self.preds[b]:
                i = i | OUT[p]
            IN[b] = i
            o = frozenset([gen[b]]) if b in gen else i
            if o != OUT[b]:
                OUT[b] = o
                for s in self.succs[b]:
                    if s not in inwork:
                        work.append(s)
                        inwork.add(s)
        self._rd_cache[l] = IN
        return IN

    @staticmethod
    def _pos(i):
        return 10 ** 9 if i == "term" else i

    # ---------------------------------------------------------------- expressions
    def const_expr(self, c):
        ty = c.get("ty", "")
        if "fn" in c:
            return ("fnref", strip_generics(c["fn"]["path"]))
        if "promoted" in c:
            return self.promoted_expr(c["promoted"])
        v = c.get("val")
        if v is not None:
            if "int" in v:
                n = v["int"]
                if ty == "bool":
                    return ("bool", bool(n))
                adt = c.get("adt")
                if adt and self.facts.adt(adt) and self.facts.adt(adt)["kind"] == "enum":
                    vn = self.facts.variant_by_discr(adt, n)
                    if vn is not None:
                        return ("enum", adt, vn)
                return ("int", n)
            if "str" in v:
                return ("str", v["str"])
            if "bytes" in v:
                return ("bytes", tuple(v["bytes"]))
            if "ptr_bytes" in v:
                return ("bytes", tuple(v["ptr_bytes"]))
            if "zst" in v:
                if ty == "()":
                    return ("unit",)
                return ("zst", ty)
            if "static" in v:
                return ("item", v["static"])
        if "item" in c:
            it = c["item"]
            cv = self.facts.consts.get(it)
            if cv and cv.get("val") and "int" in cv["val"]:
                return ("int", cv["val"]["int"])
            return ("item", it)
        return ("opaque", "const:" + ty)

    def promoted_expr(self, idx):
        fn = self.fn
        if idx >= len(fn.promoted):
            return ("opaque", "promoted")
        pb = fn.promoted[idx]
        pan = BodyAn(self.facts, pb, self.prog)
        # value of _0 at return: promoted bodies are straight-line; `_0 = &_1` with `_1 = <rvalue>`
        for bi, b in enumerate(pb.blocks):
            if b["term"]["k"] == "return":
                return pan.expr_local(0, (bi, "term"), 0, frozenset())
        return ("opaque", "promoted")

    def expr_operand(self, op, at, depth=0, env=None, seen=frozenset()):
        if "const" in op:
            return self.const_expr(op["const"])
        pl = op.get("copy") or op.get("move")
        if pl is None:
            return ("opaque", "operand")
        return self.expr_place(pl, at, depth, env, seen)

    def expr_place(self, pl, at, depth=0, env=None, seen=frozenset()):
        base = self.expr_local(pl["l"], at, depth, seen, env)
        return self.apply_proj(base, pl["p"], at, depth, env, seen)

    def apply_proj(self, base, proj, at, depth, env, seen):
        e = base
        i = 0
        n = len(proj)
        while i < n:
            p = proj[i]
            if p == "*":
                pass
            elif isinstance(p, dict) and "f" in p:
                if p["adt"] is None:
                    e = mk_tfield(e, p["f"])
                elif p.get("v") is not None:
                    e = mk_vfield(e, p["adt"] + "::" + p["v"], p["f"])
                elif e[0] == "closure_env":
                    e = ("upvar", p["n"])
                else:
                    if e[0] == "local" and "{closure" in p["adt"] and p["n"].startswith("_ref__") and len(self.defs[e[1]]) == 1 and not self.partial[e[1]] \
                            and self.defs[e[1]][0][2] == "assign" and self.defs[e[1]][0][3].get("agg") == "closure":
                        # a by-reference capture read through `&mut closure` (an FnMut closure spliced into the loop that
                        # calls it): the capture slot itself is never reassigned
                        d_ = self.defs[e[1]][0]
                        e = self.expr_rvalue(d_[3], (d_[0], d_[1]), depth + 1, env, seen)
                    e = mk_field(e, p["adt"], p["n"])
                    if e[0] == "field" and e[1][0] == "call" and self.prog is not None:
                        # a field of a freshly constructed value (`..Progress::new(a, b)`, `T::new(x).f`): what the
                        # constructor stores there, over the call's arguments
                        r = self.prog.field_of_call(e[1], p["adt"], p["n"])
                        if r is not None:
                            e = r
            elif isinstance(p, dict) and "downcast" in p:
                pass  # the following field projection carries the variant
            elif isinstance(p, dict) and "index" in p:
                idx = self.expr_local(p["index"], at, depth + 1, seen, env)
                e = ("index", e, idx)
            elif isinstance(p, dict) and "cindex" in p:
                e = ("index", e, ("int", -p["cindex"] - 1 if p.get("from_end") else p["cindex"]))
            elif isinstance(p, dict) and "subslice" in p:
                e = ("subslice", e, p["subslice"][0], p["subslice"][1], bool(p.get("from_end")))
            i += 1
        return e

    def expr_local(self, l, at, depth=0, seen=frozenset(), env=None):
        if depth > MAX_DEPTH:
            return ("opaque", "depth")
        body = self.body
        if env is not None and l in env:
            return env[l]
        name = body.local_name(l)
        if self.fn.is_closure and body.promoted_index is None and l == 1 and not self.defs[1]:
            return ("closure_env",)
        if self.is_param(l) and body.promoted_index is None:
            al = getattr(self, "param_alias", None)
            if al and l in al:
                return al[l]
            if not self.defs[l] and not self.partial[l]:
                return ("param", l, name)
            # parameter that is re-assigned or partially written: object designator
            if not self.defs[l]:
                return ("param", l, name)
        if self.partial[l] or self.mutref[l]:
            # object built in place / mutated through a borrow: designate it
            if len(self.defs[l]) == 1 and not self.partial[l] and self.defs[l][0][2] == "assign":
                # `let mut x = <expr>; f(&mut x)`: the initialiser is still informative for designators
                pass
            return ("local", l, name)
        ds = self.defs[l]
        if len(ds) == 0:
            return ("opaque", "undef:_%d" % l)
        if len(ds) == 1:
            return self._expr_def(l, ds[0], depth, seen, env)
        # several definitions: reaching definitions at the use point
        rd = self._reaching(l, at)
        key = (l, tuple(sorted((d[0], self._pos(d[1])) for d in rd if d != ("entry",))))
        if key in seen:
            return ("opaque", "loop:_%d" % l)
        seen2 = seen | {key}
        vals = []
        for d in rd:
            if d == ("entry",):
                continue
            v = self._expr_def(l, d, depth + 1, seen2, env)
            if v not in vals:
                vals.append(v)
        if len(vals) == 1:
            return vals[0]
        return ("phi", l, name, tuple(vals))

    def _reaching(self, l, at):
        bi, idx = at
        best = None
        for d in self.defs[l]:
            if d[0] == bi and self._pos(d[1]) < self._pos(idx):
                if best is None or self._pos(d[1]) > self._pos(best[1]):
                    best = d
        if best is not None:
            return [best]
        IN = self._rd(l)
        return [("entry",) if i < 0 else self.defs[l][i] for i in sorted(IN[bi])]

    def _expr_def(self, l, d, depth, seen, env):
        bi, idx, kind, payload = d
        ck = (l, bi, idx if idx != "term" else -1)
        if env is None and ck in self._expr_cache:
            return self._expr_cache[ck]
        memo = None
        if env is not None:
            # per-environment memo (an environment is a small dict of selector values; without the memo a DAG-shaped
            # value is re-expanded once per path through it)
            ent = self._env_memo.get(id(env))
            snap = tuple(env.items())
            if ent is None or ent[0] is not env or ent[1] != snap:
                if len(self._env_memo) > 256:
                    self._env_memo.clear()
                ent = (env, snap, {})
                self._env_memo[id(env)] = ent
            memo = ent[2]
            if ck in memo:
                return memo[ck]
        if ck in seen:
            return ("opaque", "cycle:_%d" % l)
        seen2 = seen | {ck}
        if kind == "assign":
            e = self.expr_rvalue(payload, (bi, idx), depth + 1, env, seen2)
        else:
            e = self.expr_call(payload, (bi, "term"), depth + 1, env, seen2)
        if env is None:
            self._expr_cache[ck] = e
        elif not any(x[0] == "opaque" and str(x[1]).startswith(("cycle:", "loop:")) for x in walk(e)):
            memo[ck] = e
        return e

    def expr_call(self, t, at, depth=0, env=None, seen=frozenset()):
        f = t["func"]
        args = tuple(self.expr_operand(a, at, depth + 1, env, seen) for a in t["args"])
        if "const" in f and "fn" in f["const"]:
            fr = f["const"]["fn"]
            path = strip_generics(fr["path"])
            e = ("call", path, args)
            if self.prog is not None:
                e = self.prog.simplify_call(e, fr)
            return e
        callee = self.expr_operand(f, at, depth + 1, env, seen)
        return ("callv", callee, args)

    def expr_rvalue(self, rv, at, depth=0, env=None, seen=frozenset()):
        if "use" in rv:
            return self.expr_operand(rv["use"], at, depth, env, seen)
        if "ref" in rv:
            return self.expr_place(rv["ref"], at, depth, env, seen)
        if "rawptr" in rv:
            return self.expr_place(rv["rawptr"], at, depth, env, seen)
        if "cast" in rv:
            a = self.expr_operand(rv["cast"], at, depth, env, seen)
            k = rv["kind"]
            if k.startswith("PointerCoercion") or k in ("PtrToPtr", "Transmute"):
                return a
            return ("cast", a, rv["to"])
        if "bin" in rv:
            a = self.expr_operand(rv["a"], at, depth, env, seen)
            b = self.expr_operand(rv["b"], at, depth, env, seen)
            return mk_bin(rv["bin"], a, b)
        if "un" in rv:
            a = self.expr_operand(rv["a"], at, depth, env, seen)
            if rv["un"] == "PtrMetadata":
                return ("len", a)
            return mk_un(rv["un"], a)
        if "discr" in rv:
            a = self.expr_place(rv["discr"], at, depth, env, seen)
            return ("discr", a, rv.get("adt"))
        if "agg" in rv:
            ops = tuple(self.expr_operand(o, at, depth + 1, env, seen) for o in rv["ops"])
            k = rv["agg"]
            if k == "tuple":
                return ("tuple", ops)
            if k == "array":
                return ("array", ops)
            if k == "adt":
                names = rv.get("fields", [])
                if not ops:
                    ad = self.facts.adt(rv["adt"])
                    if (ad is not None and ad["kind"] == "enum") or rv["adt"] in ("core::option::Option", "core::result::Result", "core::cmp::Ordering"):
                        return ("enum", rv["adt"], rv["variant"])
                return ("adt", rv["adt"] + "::" + rv["variant"], tuple(zip(names, ops)))
            if k == "closure":
                names = rv.get("fields", [])
                return ("closure", strip_generics(rv["closure"]), tuple(zip(names, ops)))
            return ("opaque", "agg:" + k)
        if "repeat" in rv:
            return ("repeat", self.expr_operand(rv["repeat"], at, depth, env, seen), rv["n"])
        return ("opaque", "rvalue")


# ---------------------------------------------------------------------- constructors / normal forms
def mk_field(base, adt, name):
    key = adt.split("::")[-1] + "." + name
    if base[0] == "closure":
        # a captured variable read off a closure value built right here (a closure spliced into its user)
        for n, e in base[2]:
            if n == name:
                return e
    if base[0] == "adt":
        for n, e in base[2]:
            if n == name:
                return e
    return ("field", base, key)


def mk_tfield(base, i):
    if base[0] == "tuple" and i < len(base[1]):
        return base[1][i]
    if base[0] == "phi":
        return ("phi", base[1], base[2], tuple(mk_tfield(x, i) for x in base[3]))
    return ("tfield", base, i)


def mk_vfield(base, variant, i):
    if base[0] == "adt" and base[1] == variant and i < len(base[2]):
        return base[2][i][1]
    if base[0] == "phi" and len(base) > 3:
        # reading the payload of variant V presupposes the value IS a V: alternatives built as another variant of the
        # same enum cannot be the one flowing here (`(phi(None | Some{x}) as Some).0` is x)
        enum_ = variant.rsplit("::", 1)[0]
        vals, unknown = [], False
        for alt in base[3]:
            if alt[0] == "enum" and alt[1] == enum_:
                continue
            if alt[0] == "adt" and alt[1].rsplit("::", 1)[0] == enum_:
                if alt[1] == variant and i < len(alt[2]):
                    v_ = alt[2][i][1]
                    if v_ not in vals:
                        vals.append(v_)
                continue
            unknown = True
            break
        if not unknown and vals:
            return vals[0] if len(vals) == 1 else ("phi", base[1], base[2], tuple(vals))
    # `o?` on an Option: (Option::branch(o) as Continue).0 == (o as Some).0
    if base[0] == "call" and base[1].endswith("::branch") and "option::Option" in base[1] and len(base[2]) == 1 and variant.endswith("ControlFlow::Continue") and i == 0:
        return mk_vfield(base[2][0], "core::option::Option::Some", 0)
    # `r?` on a Result: (Result::branch(r) as Continue).0 == (r as Ok).0
    if base[0] == "call" and base[1].endswith("::branch") and "result::Result" in base[1] and len(base[2]) == 1 and variant.endswith("ControlFlow::Continue") and i == 0:
        return mk_vfield(base[2][0], "core::result::Result::Ok", 0)
    # (c.then_some(v) as Some).0 == v
    if base[0] == "call" and base[1].endswith("bool>::then_some") and len(base[2]) == 2 and variant.endswith("Option::Some") and i == 0:
        return base[2][1]
    # (a.checked_sub(b) as Some).0 == a - b, (a.checked_add(b) as Some).0 == a + b: where the Some payload is read
    # the operation did not wrap
    if base[0] == "call" and len(base[2]) == 2 and variant.endswith("Option::Some") and i == 0:
        m_ = base[1].rsplit("::", 1)[-1]
        if m_ in ("checked_sub", "checked_add", "checked_mul") and ("<impl u" in base[1] or "<impl i" in base[1] or "num::" in base[1]):
            return mk_bin({"checked_sub": "Sub", "checked_add": "Add", "checked_mul": "Mul"}[m_], base[2][0], base[2][1])
    return ("vfield", base, variant, i)


CMP_FLIP = {"Gt": "Lt", "Ge": "Le"}


def mk_bin(op, a, b):
    if op in ("AddWithOverflow", "SubWithOverflow", "MulWithOverflow"):
        op = op[:3]
        return ("tuple", (mk_bin(op, a, b), ("bool", False)))
    if op.endswith("Unchecked"):
        op = op[: -len("Unchecked")]
    if op == "Gt":
        return ("bin", "Lt", b, a)
    if op == "Ge":
        return ("bin", "Le", b, a)
    if op in ("Eq", "Ne", "Add", "Mul", "BitAnd", "BitOr", "BitXor"):
        if repr(b) < repr(a):
            a, b = b, a
    if op == "Shr" and b == ("int", 1):
        return ("bin", "Div", a, ("int", 2))
    return ("bin", op, a, b)


def mk_un(op, a):
    if op == "Not":
        if a[0] == "bool":
            return ("bool", not a[1])
        if a[0] == "un" and a[1] == "Not":
            return a[2]
    return ("un", op, a)


# ---------------------------------------------------------------------- helpers over expressions
def walk(e):
    """Pre-order generator over all sub-expressions."""
    st = [e]
    while st:
        x = st.pop()
        if not isinstance(x, tuple):
            continue
        yield x
        for y in x[1:]:
            if isinstance(y, tuple):
                if y and isinstance(y[0], str):
                    st.append(y)
                else:
                    for z in y:
                        if isinstance(z, tuple):
                            if z and isinstance(z[0], str) and z[0] in KINDS:
                                st.append(z)
                            else:
                                for w in z:
                                    if isinstance(w, tuple):
                                        st.append(w)


KINDS = {
    "int", "bool", "unit", "str", "bytes", "enum", "item", "fnref", "param", "upvar", "local", "field",
    "tfield", "vfield", "index", "call", "callv", "bin", "un", "cast", "discr", "tuple", "array", "adt",
    "closure", "phi", "opaque", "len", "zst", "repeat", "subslice", "closure_env",
}


def fields_read(e):
    return {x[2] for x in walk(e) if x[0] == "field"}


def calls_in(e):
    return {x[1] for x in walk(e) if x[0] == "call"}


def subst(e, mapping):
    """Replace sub-expressions that are keys of `mapping`."""
    if not isinstance(e, tuple):
        return e
    if e in mapping:
        return mapping[e]
    if not e or not isinstance(e[0], str) or e[0] not in KINDS:
        return tuple(subst(x, mapping) for x in e)
    return (e[0],) + tuple(subst(x, mapping) if isinstance(x, tuple) else x for x in e[1:])


def show(e, depth=0):
    """Compact rendering for reports."""
    if not isinstance(e, tuple) or not e:
        return str(e)
    k = e[0]
    if k == "int":
        return str(e[1])
    if k == "bool":
        return "true" if e[1] else "false"
    if k == "unit":
        return "()"
    if k == "str":
        return repr(e[1])
    if k == "bytes":
        try:
            return "b" + repr(bytes(e[1]).decode())
        except Exception:
            return "bytes"
    if k == "enum":
        return e[1].split("::")[-1] + "::" + e[2]
    if k == "item":
        return e[1].split("::")[-1]
    if k == "fnref":
        return "fn " + tail(e[1])
    if k == "param":
        return e[2] or ("arg%d" % e[1])
    if k == "upvar":
        return "^" + e[1]
    if k == "local":
        return e[2] or ("_%d" % e[1])
    if k == "field":
        return show(e[1]) + "." + e[2].split(".")[-1]
    if k == "tfield":
        return show(e[1]) + ".%d" % e[2]
    if k == "vfield":
        return "(%s as %s).%d" % (show(e[1]), e[2].split("::")[-1], e[3])
    if k == "index":
        return "%s[%s]" % (show(e[1]), show(e[2]))
    if k == "call":
        return "%s(%s)" % (tail(e[1]), ", ".join(show(a) for a in e[2]))
    if k == "callv":
        return "(%s)(%s)" % (show(e[1]), ", ".join(show(a) for a in e[2]))
    if k == "bin":
        sym = {"Lt": "<", "Le": "<=", "Eq": "==", "Ne": "!=", "Add": "+", "Sub": "-", "Mul": "*", "Div": "/", "Rem": "%"}.get(e[1], e[1])
        return "(%s %s %s)" % (show(e[2]), sym, show(e[3]))
    if k == "un":
        return "%s(%s)" % ({"Not": "!", "Neg": "-"}.get(e[1], e[1]), show(e[2]))
    if k == "cast":
        return "(%s as %s)" % (show(e[1]), e[2])
    if k == "discr":
        return "discr(%s)" % show(e[1])
    if k == "len":
        return "len(%s)" % show(e[1])
    if k == "tuple":
        return "(%s)" % ", ".join(show(a) for a in e[1])
    if k == "array":
        return "[%s]" % ", ".join(show(a) for a in e[1])
    if k == "adt":
        return "%s{%s}" % (tail(e[1]), ", ".join("%s: %s" % (n, show(v)) for n, v in e[2]))
    if k == "closure":
        return "|..|@%s{%s}" % (tail(e[1]), ", ".join("%s: %s" % (n, show(v)) for n, v in e[2]))
    if k == "phi":
        return "phi[%s](%s)" % (e[2] or "_%d" % e[1], " | ".join(show(v) for v in e[3]))
    if k == "opaque":
        return "?%s" % e[1]
    return str(e)


def tail(path, n=2):
    parts = [p for p in re.split(r"::", path) if p]
    # keep trait impl paths readable
    if path.startswith("<"):
        m = re.match(r"<(.+) as (.+)>::(\w+)$", path)
        if m:
            return "%s::%s" % (m.group(1).split("::")[-1].split("<")[0], m.group(3))
    return "::".join(parts[-n:])
