"""Idiom recognisers shared by the rules (canonical atoms of DESIGN §5)."""
from .an import show, walk, subst, mk_bin
from .pat import ANY, V, match, call, fld, alt, path_match
from .pg import PG, norm_lit

_closure_cache = {}


def closure_returns(prog, cpath):
    """[(literals, value)] of a closure body, in terms of ('param', i, name) and ('upvar', name)."""
    r = _closure_cache.get((id(prog), cpath))
    if r is not None:
        return r
    ks = prog.short.get(cpath)
    if not ks:
        return None
    fn = prog.facts.fns[ks[0]]
    try:
        rets = PG(prog, fn).returns(limit=500)
    except OverflowError:
        rets = None
    _closure_cache[(id(prog), cpath)] = rets
    return rets


def closure_apply(prog, clos, args):
    """Value of calling closure expression `clos` on argument expressions (single-path closures only)."""
    if clos[0] != "closure":
        return None
    rets = closure_returns(prog, clos[1])
    if not rets or len(rets) != 1:
        return None
    v = rets[0][1]
    caps = dict(clos[2])
    m = {}
    for x in walk(v):
        if x[0] == "upvar" and x[1] in caps:
            m[x] = caps[x[1]]
        elif x[0] == "param" and isinstance(x[1], int) and x[1] >= 2 and x[1] - 2 < len(args):
            m[x] = args[x[1] - 2]
    return subst(v, m)


TERM_CALL = call("~RaftLog::term", V("log"), V("idx"))
STORE_TERM_CALL = alt(call("~Storage::term", V("log"), V("idx")), call("~MemStorage::term", V("log"), V("idx")))


def term_is(prog, lit, term_call=TERM_CALL):
    """If literal `lit` states `log.term(idx) == Ok(t)`, return (log, idx, t)."""
    if lit[0] != "is" or lit[2] is not True:
        return None
    e = lit[1]
    # log.match_term(i, t)
    b = match(call("~RaftLog::match_term", V("log"), V("idx"), V("t")), e)
    if b and term_call is TERM_CALL:
        return b["log"], b["idx"], b["t"]
    # log.term(i).is_ok_and(|x| x == t)
    b = match(call("~Result::is_ok_and", term_call, V("c")), e)
    if b:
        r = closure_apply(prog, b["c"], [("arg0",)])
        t = eq_other(r, ("arg0",))
        if t is not None:
            return b["log"], b["idx"], t
    # log.term(i).map(|x| x == t).unwrap_or(false)
    b = match(call("~Result::unwrap_or", call("~Result::map", term_call, V("c")), ("bool", False)), e)
    if b:
        r = closure_apply(prog, b["c"], [("arg0",)])
        t = eq_other(r, ("arg0",))
        if t is not None:
            return b["log"], b["idx"], t
    # matches!(log.term(i), Ok(x) if x == t)   /  if let Ok(x) = log.term(i) { if x == t
    b = match(("bin", "Eq", V("a"), V("b")), e)
    if b:
        for x, y in ((b["a"], b["b"]), (b["b"], b["a"])):
            bb = match(("vfield", term_call, "core::result::Result::Ok", 0), x)
            if bb:
                return bb["log"], bb["idx"], y
    return None


def eq_other(e, x):
    """e is `x == t` (either order) -> t"""
    if e is None or e[0] != "bin" or e[1] != "Eq":
        return None
    if e[2] == x:
        return e[3]
    if e[3] == x:
        return e[2]
    return None


def as_min(e):
    """(a, b) if e is min(a, b) in one of the accepted spellings."""
    for p in (call("~cmp::min", V("a"), V("b")), call("~Ord::min", V("a"), V("b")), call("core::cmp::min", V("a"), V("b"))):
        b = match(p, e)
        if b:
            return b["a"], b["b"]
    if e[0] == "call" and e[1].endswith("::min") and len(e[2]) == 2:
        return e[2][0], e[2][1]
    return None


def as_max(e):
    if e[0] == "call" and e[1].endswith("::max") and len(e[2]) == 2:
        return e[2][0], e[2][1]
    return None


def is_field_of(e, key):
    return e[0] == "field" and e[2] == key


def msg_field(e, name, base=None):
    """e is Message.<name> of `base` (or of any parameter when base is None) -> base expr or None"""
    if e[0] == "field" and e[2] == "Message." + name:
        if base is None or e[1] == base:
            return e[1]
    return None


def is_param_of_adt(fn, e, adt_suffix):
    if e[0] != "param":
        return False
    a = fn.body.local_adt(e[1])
    return bool(a) and (a == adt_suffix or a.endswith("::" + adt_suffix))


def strip_casts(e):
    while e[0] == "cast":
        e = e[1]
    return e


def self_member_lit(prog, l):
    """Literal saying 'self.id occurs in the iterated collection':  !iter.all(|id| id != self.id)  |
    iter.any(|id| id == self.id).  Returns the iterator expression, else None."""
    if l[0] != "is" or l[1][0] != "call":
        return None
    name = l[1][1]
    if name.endswith("::all") and l[2] is False:
        want = "Ne"
    elif name.endswith("::any") and l[2] is True:
        want = "Eq"
    else:
        return None
    clo = [x for x in l[1][2] if x[0] == "closure"]
    if not clo:
        return None
    r = closure_returns(prog, clo[0][1]) or []
    if len(r) != 1 or r[0][1][0] != "bin" or r[0][1][1] != want:
        return None
    if not any(x[0] == "field" and x[2] == "RaftCore.id" for x in walk(r[0][1])):
        return None
    return l[1][2][0]
