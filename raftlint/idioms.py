"""Idiom recognisers shared by the rules (canonical atoms of DESIGN §5)."""
from .an import show, walk, subst, mk_bin
from .pat import ANY, V, match, call, fld, alt, path_match
from .pg import PG, norm_lit

_closure_cache = {}


def closure_returns(prog, cpath):
    """[(literals, value)] of a closure body, in terms of ('param', i, name) and ('upvar', name)."""
    r = _closure_cache.get((id(prog), cpath))
    if r is not None:
        return r
    ks = prog.short.get(cpath)
    if not ks:
        return None
    fn = prog.facts.fns[ks[0]]
    try:
        rets = PG(prog, fn).returns(limit=500)
    except OverflowError:
        rets = None
    _closure_cache[(id(prog), cpath)] = rets
    return rets


def closure_apply(prog, clos, args):
    """Value of calling closure expression `clos` on argument expressions (single-path closures only)."""
    if clos[0] != "closure":
        return None
    rets = closure_returns(prog, clos[1])
    if not rets or len(rets) != 1:
        return None
    v = rets[0][1]
    caps = dict(clos[2])
    m = {}
    for x in walk(v):
        if x[0] == "upvar" and x[1] in caps:
            m[x] = caps[x[1]]
        elif x[0] == "param" and isinstance(x[1], int) and x[1] >= 2 and x[1] - 2 < len(args):
            m[x] = args[x[1] - 2]
    return subst(v, m)


TERM_CALL = call("~RaftLog::term", V("log"), V("idx"))
STORE_TERM_CALL = alt(call("~Storage::term", V("log"), V("idx")), call("~MemStorage::term", V("log"), V("idx")))


def term_is(prog, lit, term_call=TERM_CALL):
    """If literal `lit` states `log.term(idx) == Ok(t)`, return (log, idx, t)."""
    if lit[0] != "is" or lit[2] is not True:
        return None
    e = lit[1]
    # log.match_term(i, t)
    b = match(call("~RaftLog::match_term", V("log"), V("idx"), V("t")), e)
    if b and term_call is TERM_CALL:
        return b["log"], b["idx"], b["t"]
    # log.term(i).is_ok_and(|x| x == t)
    b = match(call("~Result::is_ok_and", term_call, V("c")), e)
    if b:
        r = closure_apply(prog, b["c"], [("arg0",)])
        t = eq_other(r, ("arg0",))
        if t is not None:
            return b["log"], b["idx"], t
    # log.term(i).map(|x| x == t).unwrap_or(false)
    b = match(call("~Result::unwrap_or", call("~Result::map", term_call, V("c")), ("bool", False)), e)
    if b:
        r = closure_apply(prog, b["c"], [("arg0",)])
        t = eq_other(r, ("arg0",))
        if t is not None:
            return b["log"], b["idx"], t
    # matches!(log.term(i), Ok(x) if x == t)   /  if let Ok(x) = log.term(i) { if x == t
    b = match(("bin", "Eq", V("a"), V("b")), e)
    if b:
        for x, y in ((b["a"], b["b"]), (b["b"], b["a"])):
            bb = match(("vfield", term_call, "core::result::Result::Ok", 0), x)
            if bb:
                return bb["log"], bb["idx"], y
    return None


def eq_other(e, x):
    """e is `x == t` (either order) -> t"""
    if e is None or e[0] != "bin" or e[1] != "Eq":
        return None
    if e[2] == x:
        return e[3]
    if e[3] == x:
        return e[2]
    return None


def as_min(e):
    """(a, b) if e is min(a, b) in one of the accepted spellings."""
    for p in (call("~cmp::min", V("a"), V("b")), call("~Ord::min", V("a"), V("b")), call("core::cmp::min", V("a"), V("b"))):
        b = match(p, e)
        if b:
            return b["a"], b["b"]
    if e[0] == "call" and e[1].endswith("::min") and len(e[2]) == 2:
        return e[2][0], e[2][1]
    return None


def as_max(e):
    if e[0] == "call" and e[1].endswith("::max") and len(e[2]) == 2:
        return e[2][0], e[2][1]
    return None


def is_field_of(e, key):
    return e[0] == "field" and e[2] == key


def msg_field(e, name, base=None):
    """e is Message.<name> of `base` (or of any parameter when base is None) -> base expr or None"""
    if e[0] == "field" and e[2] == "Message." + name:
        if base is None or e[1] == base:
            return e[1]
    return None


def is_param_of_adt(fn, e, adt_suffix):
    if e[0] != "param":
        return False
    a = fn.body.local_adt(e[1])
    return bool(a) and (a == adt_suffix or a.endswith("::" + adt_suffix))


def strip_casts(e):
    while e[0] == "cast":
        e = e[1]
    return e


def self_member_lit(prog, l):
    """Literal saying 'self.id occurs in the iterated collection':  !iter.all(|id| id != self.id)  |
    iter.any(|id| id == self.id).  Returns the iterator expression, else None."""
    if l[0] != "is" or l[1][0] != "call":
        return None
    name = l[1][1]
    if name.endswith("::contains") and l[2] is True and len(l[1][2]) == 2 and any(x[0] == "field" and x[2] == "RaftCore.id" for x in walk(l[1][2][1])):
        # coll.contains(&self.id): one of several collections tested in turn (`a.contains(..) || b.contains(..)`)
        return l[1][2][0]
    if name.endswith("::all") and l[2] is False:
        want = "Ne"
    elif name.endswith("::any") and l[2] is True:
        want = "Eq"
    else:
        return None
    clo = [x for x in l[1][2] if x[0] == "closure"]
    if not clo:
        return None
    r = closure_returns(prog, clo[0][1]) or []
    caps = dict(clo[0][2])
    if len(r) == 1 and want == "Eq" and r[0][1][0] == "call" and r[0][1][1].endswith("::contains") and len(r[0][1][2]) == 2:
        # any(|list| list.contains(&self.id)) over several collections
        def own(x):
            return (x[0] == "field" and x[2] == "RaftCore.id") or (x[0] == "upvar" and any(y[0] == "field" and y[2] == "RaftCore.id" for y in walk(caps.get(x[1], ("?",)))))
        if any(own(x) for x in walk(r[0][1][2][1])):
            return l[1][2][0]
        return None
    if len(r) != 1 or r[0][1][0] != "bin" or r[0][1][1] != want:
        return None
    def is_own_id(x):
        if x[0] == "field" and x[2] == "RaftCore.id":
            return True
        # a captured variable bound to self.id (`let id = self.id; .. any(|m| *m == id)`, a helper taking the id)
        return x[0] == "upvar" and any(y[0] == "field" and y[2] == "RaftCore.id" for y in walk(caps.get(x[1], ("?",))))
    if not any(is_own_id(x) for x in walk(r[0][1])):
        return None
    return l[1][2][0]


# --------------------------------------------------------------------------------------------------
# Decision tables: return paths of a small function with Option/bool combinators expanded, so that a
# shape rule sees `if c { Some(x) } else { None }`, `c.then_some(x)`, `o.and_then(|v| ..)`, `o.map(|v| ..)`,
# `let v = o?; ..` and an explicit `match` as the same table of (conditions, result).
NONE = ("enum", "core::option::Option", "None")
SOME = "core::option::Option::Some"
CF_CONT = "core::ops::control_flow::ControlFlow::Continue"


def _is_opt_branch(name):
    return name.endswith("::branch") and "option::Option" in name


def _norm_branch(e):
    """Option::branch(x) in {Continue} == x in {Some}; (branch(x) as Continue).0 == (x as Some).0"""
    if not isinstance(e, tuple) or isinstance(e, frozenset):
        return e
    if e and e[0] == "vfield" and e[2] == CF_CONT and isinstance(e[1], tuple) and e[1][0] == "call" and _is_opt_branch(e[1][1]):
        return ("vfield", _norm_branch(e[1][2][0]), SOME, e[3])
    return tuple(_norm_branch(x) if isinstance(x, tuple) and not isinstance(x, frozenset) else x for x in e)


def _norm_lit(l):
    e = l[1]
    if l[0] in ("in", "notin") and e[0] == "call" and _is_opt_branch(e[1]):
        m = {"Continue": "Some", "Break": "None"}
        return (l[0], _norm_branch(e[2][0]), frozenset(m.get(x, x) for x in l[2])) + tuple(l[3:])
    return (l[0], _norm_branch(e)) + tuple(l[2:])


def _apply_closure(prog, clos, arg):
    """[(lits, value)] of the closure applied to `arg` (its first explicit parameter), captures substituted."""
    rets = closure_returns(prog, clos[1])
    if not rets:
        return None
    caps = dict(clos[2])
    out = []
    for r in rets:
        lits, v = r[0], r[1]
        m = {}
        for x in list(walk(v)) + [y for l in lits for y in walk(l[1])]:
            if x[0] == "upvar" and x[1] in caps:
                m[x] = caps[x[1]]
            elif x[0] == "param" and isinstance(x[1], int) and x[1] == 2:
                m[x] = arg
        out.append((tuple((l[0], subst(l[1], m)) + tuple(l[2:]) for l in lits), subst(v, m)))
    return out


def decision_table(prog, fn, limit=4000, depth=3):
    from .pg import PG
    rows = [(tuple(_norm_lit(l) for l in lits), _norm_branch(v)) for lits, v, _ in PG(prog, fn).returns(limit=limit)]
    return _expand_rows(prog, rows, depth)


def _expand_rows(prog, rows, depth):
    out = []
    for lits, v in rows:
        out += _expand(prog, lits, v, depth)
    return out


def _expand(prog, lits, v, depth):
    if depth <= 0 or v[0] != "call":
        return [(lits, v)]
    name, args = v[1], v[2]
    if name.endswith("bool>::then_some") and len(args) == 2:
        c = args[0]
        return [(lits + (("is", c, True),), ("adt", SOME, ((0, args[1]),))), (lits + (("is", c, False),), NONE)]
    if name.endswith("::from_residual") and "option::Option" in name:
        return [(lits, NONE)]
    if (name.endswith("Option::and_then") or name.endswith("Option::map")) and len(args) == 2 and args[1][0] == "closure":
        o = args[0]
        payload = ("vfield", o, SOME, 0)
        paths = _apply_closure(prog, args[1], payload)
        if paths is None:
            return [(lits, v)]
        rows = [(lits + (("in", o, frozenset(["None"])),), NONE)]
        for cl, cv in paths:
            cl = tuple(_norm_lit(l) for l in cl)
            cv = _norm_branch(cv)
            if name.endswith("::map"):
                cv = ("adt", SOME, ((0, cv),))
            rows.append((lits + (("in", o, frozenset(["Some"])),) + cl, cv))
        return _expand_rows(prog, rows, depth - 1)
    if name.endswith("Option::unwrap_or") and len(args) == 2:
        o = args[0]
        sub = _expand(prog, lits, o, depth - 1)
        rows = []
        for l2, ov in sub:
            if ov == NONE:
                rows.append((l2, args[1]))
            elif ov[0] == "adt" and ov[1] == SOME:
                rows.append((l2, ov[2][0][1]))
            else:
                return [(lits, v)]
        return rows
    return [(lits, v)]


def some_payload(v):
    """x of Some(x), else None"""
    if v[0] == "adt" and v[1] == SOME:
        return v[2][0][1]
    return None


def bool_rows(facts, rets):
    """Return paths of a bool-valued function with a returned *condition* split into its two outcomes, so that
    `if c { return true } false`, `return c` and `.. || c` read as the same table: [(lits, ("bool", b), block)]."""
    from .pg import norm_lit
    out = []
    for r in rets:
        lits, v = tuple(r[0]), r[1]
        rest = tuple(r[2:])
        if v[0] == "bool":
            out.append((lits, v) + rest)
            continue
        for b in (True, False):
            l = norm_lit(facts, v, b)
            if l == ("const", False):
                continue
            out.append(((lits if l[0] == "const" else lits + (l,)), ("bool", b)) + rest)
    return out


def alternatives(e):
    """The values an expression can take when it is a choice: a phi of a `match`/`if`, or `o.unwrap_or(d)`
    (the payload of o, else d). A plain expression is its own single alternative."""
    if e[0] == "phi":
        return tuple(e[3])
    if e[0] == "call" and e[1].endswith("Option::unwrap_or") and len(e[2]) == 2:
        return (("vfield", e[2][0], SOME, 0), e[2][1])
    return (e,)


def table_is_condition(facts, rets, cond):
    """The bool-valued function whose return paths are `rets` computes exactly `cond`: it returns it, or branches
    on it and answers true on the branch where it holds and false where it does not (nothing else decides)."""
    from .pg import norm_lit
    pos, neg = norm_lit(facts, cond, True), norm_lit(facts, cond, False)
    rows = bool_rows(facts, rets)
    if not rows:
        return False
    seen = set()
    for r in rows:
        lits, v = r[0], r[1]
        if v[0] != "bool":
            return False
        want = pos if v[1] else neg
        if want not in lits or (neg if v[1] else pos) in lits:
            return False
        seen.add(v[1])
    return seen == {True, False}


def callable_returns(prog, x):
    """Return paths [(lits, value)] of a predicate passed as a value: a closure literal or a plain function item;
    the element it is applied to is parameter 2 of a closure (after the environment) and parameter 1 of a function."""
    if x[0] == "closure":
        r = closure_returns(prog, x[1])
        return [(t[0], t[1]) for t in r] if r else None
    if x[0] == "fnref":
        ks = prog.short.get(x[1]) or []
        if len(ks) != 1:
            return None
        from .pg import PG
        try:
            return [(t[0], t[1]) for t in PG(prog, prog.facts.fns[ks[0]]).returns()]
        except OverflowError:
            return None
    return None


def unwrapped(e):
    """o of `o.unwrap()`, `o.expect(..)`, `match o { Some(x) => x, None => panic }` (the Some payload), else None"""
    if e[0] == "call" and e[1].rsplit("::", 1)[-1] in ("unwrap", "expect", "unwrap_unchecked") and e[2]:
        return e[2][0]
    if e[0] == "vfield" and e[2].endswith("Option::Some") and e[3] == 0:
        return e[1]
    return None


def counter_start(prog, fn, k):
    """k is a loop counter taken from the iterator the loop walks: component 0 of `enumerate().next()` (starts at 0), or the
    component of `zip.next()` whose side of the zip is the range `s..` (starts at s). Returns the start, or None."""
    k = strip_casts(k)
    if not (k[0] == "tfield" and k[1][0] == "vfield" and k[1][1][0] == "call" and k[1][1][1].endswith("::next") and k[1][1][2]):
        return None
    nxt = k[1][1]
    it = nxt[2][0]
    if it[0] == "local":
        it = prog.A(fn).init_expr(it[1])
    while it is not None and it[0] == "call" and it[1].endswith("into_iter") and len(it[2]) == 1:
        it = it[2][0]
    if it is None or it[0] != "call":
        return None
    if it[1].endswith("Iterator::enumerate"):
        return 0 if k[2] == 0 else None
    if it[1].endswith("Iterator::zip") and len(it[2]) == 2 and k[2] in (0, 1):
        side = it[2][k[2]]
        if side[0] == "adt" and side[1].endswith("RangeFrom::RangeFrom"):
            st = dict(side[2]).get("start")
            if st is not None and st[0] == "int":
                return st[1]
    return None


def sum_terms(e):
    """Flatten a tree of additions (casts stripped) into its terms."""
    e = strip_casts(e)
    if e[0] == "bin" and e[1] == "Add":
        return sum_terms(e[2]) + sum_terms(e[3])
    return [e]


def is_last_index_plus_position(prog, fn, v, want=1):
    """v = last_index() + c + counter with c + (start of the counter) == want: the index of the counter-th new entry."""
    terms = sum_terms(v)
    last = [t for t in terms if t[0] == "call" and t[1].endswith("RaftLog::last_index")]
    ints = [t for t in terms if t[0] == "int"]
    rest = [t for t in terms if t not in last and t not in ints]
    if len(last) != 1 or len(rest) != 1:
        return False
    st = counter_start(prog, fn, rest[0])
    return st is not None and st + sum(t[1] for t in ints) == want
