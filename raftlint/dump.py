"""Debug helper: print a body in compact textual form. python3 -m raftlint.dump <factsdir> <fn-suffix>"""
import sys
from .facts import load_dir, Place


def op_str(o):
    if "copy" in o:
        return repr(Place(o["copy"]))
    if "move" in o:
        return "move " + repr(Place(o["move"]))
    c = o.get("const")
    if c is None:
        return str(o)
    if "fn" in c:
        return "fn:" + c["fn"]["path"]
    if "promoted" in c:
        return "promoted[%d]" % c["promoted"]
    v = c.get("val")
    if v is not None:
        if "int" in v:
            return "const %s:%s" % (v["int"], c["ty"])
        return "const %s:%s" % (v, c["ty"])
    if "item" in c:
        return "item:" + c["item"]
    return "const?%s" % c


def rv_str(rv):
    if "use" in rv:
        return op_str(rv["use"])
    if "ref" in rv:
        return "&%s%r" % ("mut " if rv["mut"] else "", Place(rv["ref"]))
    if "rawptr" in rv:
        return "&raw %r" % Place(rv["rawptr"])
    if "cast" in rv:
        return "%s as %s (%s)" % (op_str(rv["cast"]), rv["to"], rv["kind"])
    if "bin" in rv:
        return "%s(%s, %s)" % (rv["bin"], op_str(rv["a"]), op_str(rv["b"]))
    if "un" in rv:
        return "%s(%s)" % (rv["un"], op_str(rv["a"]))
    if "discr" in rv:
        return "discriminant(%r)" % Place(rv["discr"])
    if "agg" in rv:
        nm = rv.get("adt") or rv.get("closure") or rv["agg"]
        if rv.get("variant"):
            nm += "::" + rv["variant"]
        return "%s{%s}" % (nm, ", ".join(op_str(o) for o in rv["ops"]))
    if "repeat" in rv:
        return "[%s; %s]" % (op_str(rv["repeat"]), rv["n"])
    return str(rv)


def dump_body(facts, fn, body, out=sys.stdout):
    w = out.write
    for i, l in enumerate(body.locals):
        nm = body.local_name(i)
        w("    let _%d: %s%s\n" % (i, l["ty"], ("  // " + nm) if nm else ""))
    for bi, b in enumerate(body.blocks):
        w("  bb%d%s:\n" % (bi, " (cleanup)" if b["cleanup"] else ""))
        for st in b["stmts"]:
            mac = ",".join(st["s"][2])
            if st["k"] == "assign":
                w("    %r = %s    // L%d %s\n" % (Place(st["place"]), rv_str(st["rv"]), st["s"][1], mac))
            else:
                w("    %s\n" % st)
        t = b["term"]
        mac = ",".join(t["s"][2])
        k = t["k"]
        if k == "goto":
            w("    goto bb%d\n" % t["target"])
        elif k == "switch":
            w("    switch %s [%s, otherwise: bb%d]   // L%d %s\n" % (op_str(t["op"]), ", ".join("%s: bb%d" % (v, b) for v, b in t["targets"]), t["otherwise"], t["s"][1], mac))
        elif k == "call":
            w("    %r = call %s(%s) -> %s unwind %s   // L%d %s\n" % (Place(t["dest"]), op_str(t["func"]), ", ".join(op_str(a) for a in t["args"]), t["target"], t["unwind"], t["s"][1], mac))
        elif k == "drop":
            w("    drop(%r) -> bb%d\n" % (Place(t["place"]), t["target"]))
        elif k == "assert":
            w("    assert(%s == %s, %s) -> bb%d\n" % (op_str(t["cond"]), t["expected"], t["msg"], t["target"]))
        else:
            w("    %s\n" % k)


def main():
    facts = load_dir(sys.argv[1])
    for f in facts.find_fns(sys.argv[2]):
        print("fn", f.key, f.kind, f.vis)
        dump_body(facts, f, f.body)
        for i, p in enumerate(f.promoted):
            print(" promoted[%d]" % i)
            dump_body(facts, f, p)


if __name__ == "__main__":
    main()
