"""Rule sensitivity audit (DESIGN §3.6): apply small edits to a scratch copy of the repository, run the
exporter + rules on it, and compare the reported obligations with the expectation.

  python3 -m raftlint.audit [--only M01,M02] [--jobs N] [--kind mutant|benign|all]

Never touches /repo; scratch copies live under a mktemp directory and are removed afterwards.
"""
import json
import os
import shutil
import subprocess
import sys
import tempfile
import time
from concurrent.futures import ThreadPoolExecutor

HERE = os.path.dirname(os.path.dirname(os.path.abspath(__file__)))
REPO = os.environ.get("RAFT_REPO", "/repo")


def load_specs():
    sys.path.insert(0, os.path.join(HERE, "mutants"))
    import specs
    return specs.SPECS


def copy_repo(dst):
    os.makedirs(dst, exist_ok=True)
    subprocess.check_call(["rsync", "-a", "--exclude", "target", "--exclude", ".git", REPO + "/", dst + "/"])


def apply_edits(root, edits):
    import re
    for e in edits:
        path, old, new = e[0], e[1], e[2]
        mode = e[3] if len(e) > 3 else "once"
        paths = [path]
        if path == "*":
            paths = []
            for dp, dn, fn in os.walk(os.path.join(root, "src")):
                paths += [os.path.relpath(os.path.join(dp, f), root) for f in fn if f.endswith(".rs")]
        total = 0
        for pth in paths:
            p = os.path.join(root, pth)
            s = open(p).read()
            if mode == "word":
                s2, n = re.subn(r"\b%s\b" % re.escape(old), new, s)
            else:
                n = s.count(old)
                s2 = s.replace(old, new)
            if mode == "once" and n != 1:
                raise RuntimeError("edit anchor occurs %d times in %s: %r" % (n, pth, old[:60]))
            total += n
            if n:
                open(p, "w").write(s2)
        if total == 0:
            raise RuntimeError("edit anchor occurs 0 times: %r" % old[:60])


def run_one(spec, slot_dir, tier="quick"):
    t0 = time.time()
    root = os.path.join(slot_dir, "repo")
    facts = os.path.join(slot_dir, "facts")
    if os.path.exists(root):
        shutil.rmtree(root)
    copy_repo(root)
    res = {"id": spec["id"], "kind": spec.get("kind", "mutant"), "expect": spec.get("expect", [])}
    try:
        apply_edits(root, spec["edits"])
    except Exception as e:
        res["status"] = "stale"
        res["error"] = str(e)
        return res
    env = dict(os.environ)
    env["MIRFACTS_TARGET"] = os.path.join(slot_dir, "target")
    env["MIRFACTS_NONCE"] = "audit-" + spec["id"]
    p = subprocess.run([os.path.join(HERE, "export.sh"), root, "pb", facts], env=env, stdout=subprocess.PIPE, stderr=subprocess.STDOUT, text=True)
    if p.returncode != 0 or not os.path.exists(os.path.join(facts, "raft.json")):
        res["status"] = "does-not-compile"
        res["log"] = p.stdout[-2000:]
        return res
    p = subprocess.run([sys.executable, "-m", "raftlint.check", "--facts", facts, "--json", "--all"], cwd=HERE, stdout=subprocess.PIPE, stderr=subprocess.PIPE, text=True)
    try:
        out = json.loads(p.stdout)
    except Exception:
        res["status"] = "checker-error"
        res["log"] = (p.stdout + p.stderr)[-3000:]
        return res
    viol = out["violations"]
    res["reported"] = sorted({v["obligation"] for v in viol})
    res["reported_props"] = sorted({p for v in viol for p in v["props"]})
    res["samples"] = [{"obligation": v["obligation"], "key": v["key"], "what": v["what"][:200], "where": v.get("where")} for v in viol[:6]]
    if res["kind"] == "benign":
        res["status"] = "silent" if not viol else "FALSE-ALARM"
    else:
        exp = spec.get("expect", [])
        hit = [o for o in res["reported"] if any(o.startswith(e) for e in exp)]
        if not viol:
            res["status"] = "MISSED"
        elif hit or not exp:
            res["status"] = "detected"
        else:
            res["status"] = "detected-elsewhere"
    res["wall_s"] = round(time.time() - t0, 1)
    shutil.rmtree(root, ignore_errors=True)
    shutil.rmtree(facts, ignore_errors=True)
    return res


def main():
    args = sys.argv[1:]
    only = None
    jobs = 8
    kind = "all"
    if "--only" in args:
        only = set(args[args.index("--only") + 1].split(","))
    if "--jobs" in args:
        jobs = int(args[args.index("--jobs") + 1])
    if "--kind" in args:
        kind = args[args.index("--kind") + 1]
    specs = [s for s in load_specs() if (only is None or s["id"] in only) and (kind == "all" or s.get("kind", "mutant") == kind)]
    base = tempfile.mkdtemp(prefix="raftlint-audit-")
    results = []
    try:
        # one warm target dir per slot (dependencies are compiled once per slot)
        slots = [os.path.join(base, "slot%d" % i) for i in range(min(jobs, len(specs)) or 1)]
        warm = os.path.join(HERE, ".work", "target-pb")
        for s in slots:
            os.makedirs(s, exist_ok=True)
            if os.path.isdir(warm):
                subprocess.call(["cp", "-a", "--reflink=auto", warm, os.path.join(s, "target")])
        import queue
        q = queue.Queue()
        for s in slots:
            q.put(s)

        def work(spec):
            slot = q.get()
            try:
                return run_one(spec, slot)
            finally:
                q.put(slot)

        with ThreadPoolExecutor(max_workers=len(slots)) as ex:
            for r in ex.map(work, specs):
                results.append(r)
                print("%-6s %-18s expect=%s reported=%s %s" % (r["id"], r["status"], ",".join(r.get("expect", [])), ",".join(r.get("reported", [])), r.get("error", "")), flush=True)
                if r["status"] in ("does-not-compile", "checker-error"):
                    print(r.get("log", "")[-1500:])
    finally:
        shutil.rmtree(base, ignore_errors=True)
    out = os.environ.get("AUDIT_OUT")
    if out:
        json.dump(results, open(out, "w"), indent=1)
    bad = [r for r in results if r["status"] in ("MISSED", "FALSE-ALARM", "checker-error")]
    print("audit: %d specs, %d detected, %d silent(benign), %d missed, %d false alarms, %d stale, %d not compiling" % (
        len(results), sum(r["status"].startswith("detected") for r in results), sum(r["status"] == "silent" for r in results),
        sum(r["status"] == "MISSED" for r in results), sum(r["status"] == "FALSE-ALARM" for r in results),
        sum(r["status"] == "stale" for r in results), sum(r["status"] == "does-not-compile" for r in results)))
    return 1 if bad else 0


if __name__ == "__main__":
    sys.exit(main())
