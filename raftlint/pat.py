"""Structural patterns over value expressions and literals."""
from .an import KINDS, walk

ANY = ("_",)


class Bind(dict):
    """Bindings of a successful match; truthy even when empty."""

    def __bool__(self):
        return True


def V(name):
    return ("?", name)


def path_match(pat, s):
    if not isinstance(s, str):
        return False
    if pat.startswith("~"):
        p = pat[1:]
        return s == p or s.endswith("::" + p) or s.endswith(">::" + p.split("::")[-1]) and p.split("::")[0] in s
    return pat == s


def match(pat, e, b=None):
    """Match expression `e` against `pat`; returns binding dict or None."""
    if b is None:
        b = Bind()
    if pat == ANY:
        return b
    if isinstance(pat, tuple) and len(pat) == 2 and pat[0] == "?":
        if pat[1] in b:
            return b if b[pat[1]] == e else None
        b2 = Bind(b)
        b2[pat[1]] = e
        return b2
    if isinstance(pat, tuple) and pat and pat[0] == "|":
        for alt in pat[1:]:
            r = match(alt, e, b)
            if r is not None:
                return r
        return None
    if isinstance(pat, str):
        return b if path_match(pat, e) else None
    if isinstance(pat, (frozenset, set)):
        return b if isinstance(e, (frozenset, set)) and set(pat) == set(e) else None
    if not isinstance(pat, tuple):
        return b if pat == e else None
    if not isinstance(e, tuple) or len(pat) != len(e):
        return None
    for p, x in zip(pat, e):
        b = match(p, x, b)
        if b is None:
            return None
    return b


def alt(*ps):
    return ("|",) + ps


def fld(key, base=ANY):
    return ("field", base, key)


def call(path, *args):
    return ("call", path, tuple(args))


def call_any(path):
    """call with any arguments"""
    return ("call", path, ANY)


def find(pat, e):
    """First sub-expression of e matching pat -> bindings or None."""
    for x in walk(e):
        r = match(pat, x)
        if r is not None:
            return r
    return None


def contains(pat, e):
    return find(pat, e) is not None


def lit_is(pat, val=True):
    return ("is", pat, val)


def lit_in(pat, vals, adt=ANY):
    return ("in", pat, frozenset(vals), adt)


def match_lit(lp, l, b=None):
    """Literal pattern vs literal. For 'in' patterns the literal's set must be a subset of the
    pattern's set (the literal is at least as strong)."""
    if b is None:
        b = Bind()
    if lp[0] == "in":
        if l[0] != "in":
            return None
        r = match(lp[1], l[1], b)
        if r is None:
            return None
        return r if l[2] <= lp[2] else None
    if lp[0] == "notin":
        if l[0] == "notin":
            r = match(lp[1], l[1], b)
            return r if r is not None and lp[2] <= l[2] else None
        if l[0] == "in":
            r = match(lp[1], l[1], b)
            return r if r is not None and not (lp[2] & l[2]) else None
        return None
    if lp[0] == "is":
        if l[0] != "is" or l[2] != lp[2]:
            return None
        return match(lp[1], l[1], b)
    return None


def subst_params(e, actuals):
    """Replace ('param', i, name) by actuals[i-1] (expressions in the caller's vocabulary)."""
    if not isinstance(e, tuple):
        return e
    if e and e[0] == "param" and isinstance(e[1], int):
        i = e[1] - 1
        if 0 <= i < len(actuals):
            return actuals[i]
        return e
    if isinstance(e, frozenset):
        return e
    return tuple(subst_params(x, actuals) if isinstance(x, tuple) else x for x in e)
