"""Rule framework: obligations, instances, findings, evidence."""
import re
from .an import show
from .pg import PG, show_lit
from .facts import short_path

OBLIGATIONS = []


def obligation(name, props, floor=1, kind="guard", why=""):
    def deco(fn):
        OBLIGATIONS.append({"name": name, "props": props, "floor": floor, "kind": kind, "why": why, "fn": fn})
        return fn
    return deco


class AnchorMissing(Exception):
    pass


class Inst:
    def __init__(self, obl, key, ok, text, where=None, detail=None):
        self.obl = obl
        self.key = key
        self.ok = ok
        self.text = text
        self.where = where
        self.detail = detail or {}

    def to_json(self):
        d = {"obligation": self.obl, "key": self.key, "verdict": "ok" if self.ok else "VIOLATION", "what": self.text}
        if self.where:
            d["where"] = self.where
        d.update(self.detail)
        return d


class Cx:
    def __init__(self, prog, tier="quick"):
        self.prog = prog
        self.facts = prog.facts
        self.tier = tier
        self.insts = []
        self._pg = {}
        self.cur = None
        self._ord = {}

    # -------------------------------------------------------------- helpers
    def pg(self, fn):
        g = self._pg.get(fn.key)
        if g is None:
            g = PG(self.prog, fn)
            self._pg[fn.key] = g
        return g

    def fn(self, suffix):
        f = self.prog.one(suffix)
        if f is None:
            raise AnchorMissing("function %s" % suffix)
        return f

    def need(self, cond, what):
        if not cond:
            raise AnchorMissing(what)

    def where(self, site):
        fn = site.fn
        b = fn.body.blocks[site.block]
        s = b["term"]["s"] if site.idx == "term" else b["stmts"][site.idx]["s"]
        return self.facts.span_str(fn, s)

    def where_fn(self, fn):
        return self.facts.span_str(fn, fn.span)

    def site_key(self, site, what):
        """Stable key (no line numbers): function, kind, what, ordinal among equal keys."""
        base = "%s#%s" % (fn_name(site.fn), what)
        k = (self.cur, base)
        n = self._ord.get(k, 0)
        self._ord[k] = n + 1
        return base if n == 0 else "%s#%d" % (base, n)

    def ok(self, key, text, site=None, **detail):
        self.insts.append(Inst(self.cur, key, True, text, self.where(site) if site else None, detail))

    def bad(self, key, text, site=None, **detail):
        self.insts.append(Inst(self.cur, key, False, text, self.where(site) if site else None, detail))

    def check(self, cond, key, text, site=None, **detail):
        (self.ok if cond else self.bad)(key, text, site, **detail)
        return cond

    # guard query with rendering of the unguarded path
    def guarded(self, site, ok_edge, kills=None):
        g = self.pg(site.fn)
        kb = None
        if kills:
            ks = set(kills)
            prog = self.prog

            def kb(bi, upto):
                w = prog.block_writes(site.fn, bi, upto)
                return killed(w, ks)
        ok, wit = g.guarded(site.at, ok_edge, kb)
        return ok, wit

    def guard_lits(self, site):
        """All literals that hold on every path to the site (each one individually a must-pass edge label).
        Used for reporting and for idiom recognisers that need to inspect the guard."""
        g = self.pg(site.fn)
        cands = {}
        for n in range(len(g.nodes)):
            for m, lits in g.edges[n] or []:
                for l in lits:
                    cands.setdefault(l, None)
        out = []
        for l in cands:
            ok, _ = g.guarded(site.at, lambda lits, l=l: l in lits)
            if ok:
                out.append(l)
        return out

    def run(self, only_props=None):
        results = {}
        for ob in OBLIGATIONS:
            if only_props is not None and not (set(ob["props"]) & set(only_props)):
                continue
            self.cur = ob["name"]
            n0 = len(self.insts)
            try:
                ob["fn"](self)
            except AnchorMissing as e:
                self.insts.append(Inst(self.cur, "anchor-missing:%s" % e, False,
                                       "anchor-missing: %s no longer exists; the rule table must be re-read" % e))
            mine = self.insts[n0:]
            nok = sum(1 for i in mine if i.ok)
            if nok < ob["floor"] and all(i.ok for i in mine):
                self.insts.append(Inst(self.cur, "floor", False,
                                       "only %d conforming instance(s) found, floor is %d: the rule no longer matches the sites the protocol cannot work without" % (nok, ob["floor"])))
            results[ob["name"]] = self.insts[n0:]
        return results


def fn_name(fn):
    sp = short_path(fn.key)
    parts = sp.split("::")
    # drop crate and module path, keep Type::method (and closure suffix)
    keep = []
    for p in reversed(parts):
        keep.append(p)
        if p and p[0].isupper() or p.startswith("<"):
            break
        if len(keep) >= 3:
            break
    r = "::".join(reversed(keep))
    return r


def killed(writes, footprint):
    """Does a set of written field keys intersect a footprint of read field keys?
    'Adt.*' written kills every 'Adt.x' read; a read of 'Adt.*' is killed by any 'Adt.x' write."""
    for w in writes:
        if w in footprint:
            return True
        wa, wf = w.split(".", 1)
        for r in footprint:
            ra, rf = r.split(".", 1)
            if ra == wa and (wf == "*" or rf == "*"):
                return True
    return False


# ---------------------------------------------------------------------------------------------
# Convenience layer used by the rule files
from .pat import match_lit, match
from .an import fields_read, calls_in
from .prog import killed_rooted


def footprint(prog, e):
    """Field keys an expression's value depends on: fields it reads plus everything read by the
    in-crate functions it calls (transitively, through their mod/read summaries)."""
    fp = set(fields_read(e))
    for c in calls_in(e):
        fp |= prog.readset_short(c)
    return fp


def lit_footprint(prog, l):
    return footprint(prog, l[1]) if l[0] in ("is", "in", "notin") else set()


def require(cx, site, key, text, accept, kill=True, detail=None, assume=None):
    """Obligation instance: every path to `site` passes an edge carrying a literal accepted by
    `accept(lit) -> truthy`, and (if kill) nothing written afterwards can change that literal's value."""
    g = cx.pg(site.fn)
    prog = cx.prog
    accepted = {}

    def ok_edge(lits):
        r = False
        for l in lits:
            a = accepted.get(l)
            if a is None:
                a = bool(accept(l))
                accepted[l] = a
            if a:
                r = True
        return r

    # first without kills to find which literals are used, then with their footprint as kill set
    ok, wit = g.guarded(site.at, ok_edge, assume=assume)
    if ok and kill:
        fp = set()
        for l, a in accepted.items():
            if a and l[0] in ("is", "in", "notin"):
                fp |= prog.expr_footprint(l[1], site.fn)
        if fp:
            cache = {}

            def kb(bi, upto):
                k = (bi, upto)
                if k not in cache:
                    cache[k] = killed_rooted(prog.block_effects(site.fn, bi, upto), fp)
                return cache[k]
            ok, wit = g.guarded(site.at, ok_edge, kb, assume=assume)
            if not ok:
                text = text + " [the guard's inputs may be overwritten between the guard and the site]"
    d = dict(detail or {})
    d["guard_literals_accepted"] = sorted(show_lit(l) for l, a in accepted.items() if a)[:6]
    if not ok:
        d["unguarded_path_blocks"] = wit[:40] if wit else None
        d["dominating_guards"] = sorted(show_lit(l) for l in cx.guard_lits(site))[:12]
    cx.check(ok, key, text, site, **d)
    return ok


def require_all(cx, site, key, text, clauses, kill=True, detail=None):
    """Conjunction of must-pass clauses (each an accept function); one instance, all must hold."""
    oks = []
    d = dict(detail or {})
    g = cx.pg(site.fn)
    prog = cx.prog
    failed = []
    acc_all = []
    for ci, (cname, accept) in enumerate(clauses):
        accepted = {}

        def ok_edge(lits, accepted=accepted, accept=accept):
            r = False
            for l in lits:
                a = accepted.get(l)
                if a is None:
                    a = bool(accept(l))
                    accepted[l] = a
                if a:
                    r = True
            return r
        ok, wit = g.guarded(site.at, ok_edge)
        if ok and kill:
            fp = set()
            for l, a in accepted.items():
                if a and l[0] in ("is", "in", "notin"):
                    fp |= prog.expr_footprint(l[1], site.fn)
            if fp:
                cache = {}

                def kb(bi, upto, cache=cache, fp=fp):
                    k = (bi, upto)
                    if k not in cache:
                        cache[k] = killed_rooted(prog.block_effects(site.fn, bi, upto), fp)
                    return cache[k]
                ok, wit = g.guarded(site.at, ok_edge, kb)
                if not ok:
                    cname = cname + " [guard inputs may be overwritten before the site]"
        acc_all += [show_lit(l) for l, a in accepted.items() if a]
        if not ok:
            failed.append((cname, wit))
    d["guard_literals_accepted"] = sorted(set(acc_all))[:10]
    if failed:
        d["failed_clauses"] = [c for c, _ in failed]
        d["unguarded_path_blocks"] = failed[0][1][:40] if failed[0][1] else None
        d["dominating_guards"] = sorted(show_lit(l) for l in cx.guard_lits(site))[:12]
    cx.check(not failed, key, text, site, **d)
    return not failed


def callers_of(cx, fn):
    from .an import strip_generics
    return [s for s in cx.prog.calls_in.get(strip_generics(fn.key), []) if s.kind == "call"]


def call_args(cx, s):
    a = cx.prog.A(s.fn)
    return [a.expr_operand(o, s.at) for o in s.data["term"]["args"]]
