"""Rule framework: obligations, instances, findings, evidence."""
import os
import re
from .an import show
from .pg import PG, show_lit
from .facts import short_path

OBLIGATIONS = []


def obligation(name, props, floor=1, kind="guard", why=""):
    def deco(fn):
        OBLIGATIONS.append({"name": name, "props": props, "floor": floor, "kind": kind, "why": why, "fn": fn})
        return fn
    return deco


class AnchorMissing(Exception):
    pass


class Inst:
    def __init__(self, obl, key, ok, text, where=None, detail=None):
        self.obl = obl
        self.key = key
        self.ok = ok
        self.text = text
        self.where = where
        self.detail = detail or {}

    def to_json(self):
        d = {"obligation": self.obl, "key": self.key, "verdict": "ok" if self.ok else "VIOLATION", "what": self.text}
        if self.where:
            d["where"] = self.where
        d.update(self.detail)
        return d


class Cx:
    def __init__(self, prog, tier="quick"):
        self.prog = prog
        self.facts = prog.facts
        self.tier = tier
        self.insts = []
        self._pg = {}
        self.cur = None
        self._ord = {}
        self._roles = {}
        self.renamed = {}

    # -------------------------------------------------------------- helpers
    def pg(self, fn):
        return self.prog.pg_of(fn)

    def fn(self, suffix):
        """A function by (suffix of) its path; private helpers are re-found by structural role when the
        name no longer exists (roles.py)."""
        c = self._roles.get(suffix)
        if c is not None:
            return c
        f = self.prog.one(suffix)
        if f is None:
            from .roles import ROLES
            finder = ROLES.get(suffix)
            if finder is not None:
                try:
                    f = finder(self)
                except AnchorMissing:
                    f = None
                if f is not None:
                    self.renamed[suffix] = fn_name(f)
        if f is None:
            # a plain rename: the reference function vanished and exactly one new private function of the same
            # impl has its signature (the same test inline.py uses to tell a rename from an extraction)
            try:
                import json, os
                from .an import strip_generics as _sg
                from .inline import _short
                ref = json.load(open(os.path.join(os.path.dirname(os.path.abspath(__file__)), "fn_table.json")))["fns"]
                ks = [k for k in ref if k.endswith("::" + suffix) or k == suffix]
                cur = {_short(k): x for k, x in self.facts.fns.items() if not x.is_closure and x.crate == "raft"}
                if len(ks) == 1 and ks[0] not in cur:
                    sig = ref[ks[0]]
                    cands = [x for k, x in cur.items() if k not in ref and x.vis != "Public" and x.impl_adt == sig[0] and x.body.arg_count == sig[1]
                             and [x.body.local_ty(i) for i in range(sig[1] + 1)] == list(sig[2])
                             and k.split("::")[:2] == ks[0].split("::")[:2]]
                    if len(cands) == 1:
                        f = cands[0]
                        self.renamed[suffix] = fn_name(f)
            except Exception:
                f = None
        if f is None:
            # a private method turned into a free function of the same module (or the reverse) keeps its name
            last = suffix.rsplit("::", 1)[-1]
            mod = None
            try:
                import json, os
                ref = json.load(open(os.path.join(os.path.dirname(os.path.abspath(__file__)), "fn_table.json")))["fns"]
                ks = [k for k in ref if k.endswith("::" + suffix) or k == suffix]
                if len(ks) == 1:
                    parts = ks[0].split("::")
                    mod = "::".join(parts[:2]) if len(parts) > 2 else parts[0]
            except Exception:
                ref = None
            if mod:
                cands = [x for k, x in self.facts.fns.items() if not x.is_closure and x.crate == "raft" and x.name == last and x.vis != "Public" and k.startswith(mod + "::")]
                if len(cands) == 1:
                    f = cands[0]
                    self.renamed[suffix] = fn_name(f)
        if f is None:
            raise AnchorMissing("function %s" % suffix)
        self._roles[suffix] = f
        return f

    def sfx(self, suffix):
        """Actual path of the function playing role `suffix` (for matching call expressions)."""
        from .an import strip_generics
        return strip_generics(self.fn(suffix).key)

    def need(self, cond, what):
        if not cond:
            raise AnchorMissing(what)

    def where(self, site):
        fn = site.fn
        b = fn.body.blocks[site.block]
        s = b["term"]["s"] if site.idx == "term" else b["stmts"][site.idx]["s"]
        return self.facts.span_str(fn, s)

    def where_fn(self, fn):
        return self.facts.span_str(fn, fn.span)

    def site_key(self, site, what):
        """Stable key (no line numbers): function, kind, what, ordinal among equal keys."""
        base = "%s#%s" % (fn_name(site.fn), what)
        k = (self.cur, base)
        n = self._ord.get(k, 0)
        self._ord[k] = n + 1
        return base if n == 0 else "%s#%d" % (base, n)

    def abstain(self, text):
        """A form-specific clause whose form is absent from the code (not an anchor: an inner shape of a private
        algorithm) decides nothing and waives its floor; the instance is recorded in the evidence as such. Use only
        where another, form-independent obligation of the same property still decides (named in `text`)."""
        self.insts.append(Inst(self.cur, "abstains", True, text, None, {"abstained": True}))

    def ok(self, key, text, site=None, **detail):
        self.insts.append(Inst(self.cur, key, True, text, self.where(site) if site else None, detail))

    def bad(self, key, text, site=None, **detail):
        self.insts.append(Inst(self.cur, key, False, text, self.where(site) if site else None, detail))

    def check(self, cond, key, text, site=None, **detail):
        (self.ok if cond else self.bad)(key, text, site, **detail)
        return cond

    # guard query with rendering of the unguarded path
    def guarded(self, site, ok_edge, kills=None):
        g = self.pg(site.fn)
        kb = None
        if kills:
            ks = set(kills)
            prog = self.prog

            def kb(bi, upto):
                w = prog.block_writes(site.fn, bi, upto)
                return killed(w, ks)
        ok, wit = g.guarded(site.at, ok_edge, kb)
        return ok, wit

    def guard_lits(self, site):
        """All literals that hold on every path to the site (each one individually a must-pass edge label).
        Used for reporting and for idiom recognisers that need to inspect the guard."""
        g = self.pg(site.fn)
        cands = {}
        for n in range(len(g.nodes)):
            for m, lits in g.edges[n] or []:
                for l in lits:
                    cands.setdefault(l, None)
        out = []
        for l in cands:
            ok, _ = g.guarded(site.at, lambda lits, l=l: l in lits, subjects=False)
            if ok:
                out.append(l)
        # tests of one enum value that all dominate the site narrow it to their intersection
        groups = {}
        for l in out:
            if l[0] == "in" and l[3] is not None:
                groups.setdefault((l[1], l[3]), []).append(l[2])
        for (e, adt), sets in groups.items():
            if len(sets) > 1:
                x = frozenset.intersection(*sets)
                if x and all(x != s_ for s_ in sets):
                    out.append(("in", e, x, adt))
        return out

    def run(self, only_props=None):
        results = {}
        for ob in OBLIGATIONS:
            if only_props is not None and not (set(ob["props"]) & set(only_props)):
                continue
            self.cur = ob["name"]
            n0 = len(self.insts)
            try:
                with _time_limit(int(os.environ.get("RAFTLINT_OBLIGATION_SECONDS", "240"))):
                    ob["fn"](self)
            except _TimeUp:
                # a product graph or a path enumeration that does not finish: undecided, reported (never a hang)
                self.insts.append(Inst(self.cur, "unrecognised-shape", False,
                                       "the analysis of this obligation's sites did not finish within its time limit; the obligation is undecided and reported"))
            except AnchorMissing as e:
                self.insts.append(Inst(self.cur, "anchor-missing:%s" % e, False,
                                       "anchor-missing: %s no longer exists; the rule table must be re-read" % e))
            except Exception as e:  # a rule that cannot interpret the code it finds fails closed, as a report
                import traceback
                tb = traceback.extract_tb(e.__traceback__)
                where = "%s:%d" % (tb[-1].filename.rsplit("/", 1)[-1], tb[-1].lineno) if tb else "?"
                self.insts.append(Inst(self.cur, "unrecognised-shape", False,
                                       "the code at this obligation's sites has a shape the rule cannot interpret (%s: %s at %s); the obligation is undecided and reported" % (type(e).__name__, str(e)[:120], where)))
            mine = self.insts[n0:]
            nok = sum(1 for i in mine if i.ok)
            abstained = any(i.key == "abstains" for i in mine)
            if nok < ob["floor"] and all(i.ok for i in mine) and not abstained:
                self.insts.append(Inst(self.cur, "floor", False,
                                       "only %d conforming instance(s) found, floor is %d: the rule no longer matches the sites the protocol cannot work without" % (nok, ob["floor"])))
            results[ob["name"]] = self.insts[n0:]
        return results


class _TimeUp(BaseException):
    pass


class _time_limit:
    """SIGALRM-based wall-clock limit for one obligation (main thread only; no-op elsewhere)"""

    def __init__(self, seconds):
        self.seconds = seconds
        self.armed = False

    def __enter__(self):
        import signal, threading
        if self.seconds > 0 and threading.current_thread() is threading.main_thread() and hasattr(signal, "SIGALRM"):
            def _raise(signum, frame):
                raise _TimeUp()
            self.old = signal.signal(signal.SIGALRM, _raise)
            signal.alarm(self.seconds)
            self.armed = True
        return self

    def __exit__(self, *a):
        if self.armed:
            import signal
            signal.alarm(0)
            signal.signal(signal.SIGALRM, self.old)
        return False


def fn_name(fn):
    sp = short_path(fn.key)
    parts = sp.split("::")
    # drop crate and module path, keep Type::method (and closure suffix)
    keep = []
    for p in reversed(parts):
        keep.append(p)
        if p and p[0].isupper() or p.startswith("<"):
            break
        if len(keep) >= 3:
            break
    r = "::".join(reversed(keep))
    return r


def killed(writes, footprint):
    """Does a set of written field keys intersect a footprint of read field keys?
    'Adt.*' written kills every 'Adt.x' read; a read of 'Adt.*' is killed by any 'Adt.x' write."""
    for w in writes:
        if w in footprint:
            return True
        wa, wf = w.split(".", 1)
        for r in footprint:
            ra, rf = r.split(".", 1)
            if ra == wa and (wf == "*" or rf == "*"):
                return True
    return False


# ---------------------------------------------------------------------------------------------
# Convenience layer used by the rule files
from .pat import match_lit, match
from .an import fields_read, calls_in
from .prog import killed_rooted


def footprint(prog, e):
    """Field keys an expression's value depends on: fields it reads plus everything read by the
    in-crate functions it calls (transitively, through their mod/read summaries)."""
    fp = set(fields_read(e))
    for c in calls_in(e):
        fp |= prog.readset_short(c)
    return fp


def lit_footprint(prog, l):
    return footprint(prog, l[1]) if l[0] in ("is", "in", "notin") else set()


def _translate_lit(l, mapping):
    from .an import subst
    if l[0] not in ("is", "in", "notin"):
        return l
    return (l[0], subst(l[1], mapping)) + tuple(l[2:])


def expand_call_literal(cx, l, depth=0):
    """A literal `f(args) == b` over a small pure in-crate predicate f is equivalent to the disjunction,
    over f's return paths consistent with b, of the conjunction of that path's literals (in the caller's
    vocabulary). Returns a list of literal lists, or None if f is not such a function."""
    from .pat import subst_params
    from .pg import norm_lit
    if l[0] == "in" and l[2] == frozenset(["Some"]) and l[1][0] == "call" and l[1][1].rsplit("::", 1)[-1] in ("find", "rfind", "position", "rposition") and len(l[1][2]) == 2 and l[1][2][1][0] == "closure" and depth <= 1:
        # `it.find(|x| p(x))` is Some(x): p holds of the element found, `(find(..) as Some).0`
        from .idioms import closure_returns
        from .an import subst, walk
        clos = l[1][2][1]
        rows = closure_returns(cx.prog, clos[1]) or []
        caps = dict(clos[2])
        elem = ("vfield", l[1], "core::option::Option::Some", 0)
        if l[1][1].rsplit("::", 1)[-1] in ("position", "rposition"):
            # `it.position(|x| p(x))` is Some(k): p holds of the k-th element
            elem = ("index", l[1][2][0], elem)
        out = []
        for r in rows:
            lits, v = r[0], r[1]
            m = {}
            for x in list(walk(v)) + [y for q in lits for y in walk(q[1])]:
                if x[0] == "upvar" and x[1] in caps:
                    m[x] = caps[x[1]]
                elif x[0] == "param" and isinstance(x[1], int) and x[1] == 2:
                    m[x] = elem
            plits = [(q[0], subst(q[1], m)) + tuple(q[2:]) for q in lits if q[0] in ("is", "in", "notin")]
            v2 = subst(v, m)
            if v2[0] == "bool":
                if not v2[1]:
                    continue
            else:
                nl = norm_lit(cx.facts, v2, True)
                if nl == ("const", False):
                    continue
                if nl[0] != "const":
                    plits.append(nl)
            out.append(plits)
        return out or None
    if l[0] != "is" or l[1][0] != "call" or depth > 1:
        return None
    path, args = l[1][1], l[1][2]
    ks = cx.prog.short.get(path)
    if not ks or len(ks) != 1:
        return None
    f = cx.facts.fns[ks[0]]
    if cx.prog.mod.get(f.key) or f.body.local_ty(0) != "bool":
        return None
    try:
        rets = cx.pg(f).returns(limit=64)
    except OverflowError:
        return None
    out = []
    for lits, v, _ in rets:
        plits = [(_x[0], subst_params(_x[1], list(args))) + tuple(_x[2:]) for _x in lits if _x[0] in ("is", "in", "notin")]
        if v[0] == "bool":
            if v[1] != l[2]:
                continue
        else:
            nl = norm_lit(cx.facts, subst_params(v, list(args)), l[2])
            if nl == ("const", False):
                continue
            if nl[0] != "const":
                plits.append(nl)
        out.append(plits)
    return out or None


_succ_cache = {}


def _succs(body, bi):
    k = (id(body), bi)
    r = _succ_cache.get(k)
    if r is None:
        t = body.blocks[bi]["term"]
        r = set()
        for key in ("target", "otherwise"):
            v = t.get(key)
            if isinstance(v, int):
                r.add(v)
        for v, tgt in t.get("targets", []) or []:
            if isinstance(tgt, int):
                r.add(tgt)
        _succ_cache[k] = r
    return r


def _reach_avoiding(body, src, avoid):
    """CFG blocks reachable from `src` through >= 1 edge without entering `avoid` (cleanup edges ignored)."""
    seen = set()
    work = [s for s in _succs(body, src) if s != avoid]
    while work:
        b = work.pop()
        if b in seen:
            continue
        seen.add(b)
        for s2 in _succs(body, b):
            if s2 != avoid and s2 not in seen:
                work.append(s2)
    return seen


def _clause_holds(cx, site, accept, kill=True, assume=None, depth=2, start_held=False):
    """Does the must-pass clause hold at `site`?  Locally (with kill analysis), else - for functions that
    are not part of the public API - at every in-crate call site of the enclosing function, with the
    callers' literals translated into the callee's vocabulary and the guard required to survive from the
    function entry to the site. Returns (ok, witness, accepted literal strings, note)."""
    g = cx.pg(site.fn)
    prog = cx.prog
    accepted = {}

    def acc(l):
        a = accepted.get(l)
        if a is None:
            a = bool(accept(l))
            if not a:
                alts = expand_call_literal(cx, l)
                if alts:
                    a = all(any(accept(x) for x in alt) for alt in alts)
            if not a and l[0] in ("is", "in", "notin"):
                # a value hidden behind a private straight-line helper / small selector (extract-function refactorings)
                e2 = prog.inline_wrappers(l[1])
                if e2 != l[1]:
                    a = bool(accept((l[0], e2) + tuple(l[2:])))
            accepted[l] = a
        return a

    def ok_edge(lits):
        r = False
        for l in lits:
            if acc(l):
                r = True
        return r
    ok, wit = g.guarded(site.at, ok_edge, assume=assume, start_held=start_held, subjects=False)
    subjects = False
    if not ok:
        # successive tests of one enum value narrow it (`if r == Pending {return}; if r == Lost {return}; <Won here>`)
        subjects = g.narrowing_subjects(acc) or False
        if subjects:
            ok, wit = g.guarded(site.at, ok_edge, assume=assume, start_held=start_held, subjects=subjects)
    note = ""
    if ok and kill:
        fp = set()
        for l, a in accepted.items():
            if a and l[0] in ("is", "in", "notin"):
                fp |= prog.expr_footprint(l[1], site.fn)
        if fp or start_held:
            cache = {}
            fps = fp or getattr(cx, "_ctx_fp", set())

            def kb(bi, upto):
                k = (bi, upto)
                if k not in cache:
                    cache[k] = killed_rooted(prog.block_effects(site.fn, bi, upto), fps)
                return cache[k]
            # A literal tested on a local that was computed earlier (`let pending = self.has_pending(); for .. { if pending ..`)
            # is only as fresh as that computation: if something on a path from the defining read to the branch can
            # change the literal's inputs, the branch does not establish the guard.
            stale_cache = {}
            fnb = site.fn.body
            an_ = prog.A(site.fn)

            def stale(bi, l):
                k = (bi, l)
                if k in stale_cache:
                    return stale_cache[k]
                r = False
                t = fnb.blocks[bi]["term"]
                if t["k"] == "switch":
                    pl = t["op"].get("copy") or t["op"].get("move")
                    if pl is not None and not pl["p"]:
                        reads = defining_reads(an_, pl["l"])
                        fpl = prog.expr_footprint(l[1], site.fn)
                        if reads and fpl:
                            for rb, ri in reads:
                                if rb == bi:
                                    continue
                                # blocks on a path rb -> .. -> bi that does not pass through rb again (passing rb recomputes the value)
                                fwd = _reach_avoiding(fnb, rb, rb)
                                for x in sorted(fwd):
                                    if x == rb:
                                        continue
                                    on_path = x == bi or bi in _reach_avoiding(fnb, x, rb)
                                    if not on_path:
                                        continue
                                    upto = len(fnb.blocks[x]["stmts"]) if x == bi else None
                                    if killed_rooted(prog.block_effects(site.fn, x, upto), fpl):
                                        r = True
                                        break
                                if r:
                                    break
                stale_cache[k] = r
                return r

            def ok_edge_fresh(lits, bi):
                return any(acc(l) and not stale(bi, l) for l in lits)
            ok_edge_fresh.with_block = True
            ok, wit = g.guarded(site.at, ok_edge_fresh, kb, assume=assume, start_held=start_held, subjects=subjects)
            if not ok:
                note = " [the guard's inputs may be overwritten between the guard and the site]"
    acc_s = [show_lit(l) for l, a in accepted.items() if a]
    if ok or depth <= 0 or start_held:
        return ok, wit, acc_s, note
    # caller context
    fn = site.fn
    if fn.vis == "Public" and not fn.doc_hidden and fn.impl_adt and any(x in fn.impl_adt for x in ("RawNode", "raw_node")):
        return ok, wit, acc_s, note
    if fn.vis == "Public":
        # pub functions of Raft/RaftLog are callable from outside the crate as well: no caller context
        return ok, wit, acc_s, note
    callers = callers_of(cx, fn)
    if not callers:
        return ok, wit, acc_s, note
    all_ok = True
    ctx_acc = []
    for c in callers:
        args = call_args(cx, c)
        mapping = {}
        for i, a in enumerate(args):
            if a[0] in ("param", "local", "field"):
                mapping.setdefault(a, ("param", i + 1, fn.body.local_name(i + 1)))

        def accept_tr(l, mapping=mapping):
            return accept(_translate_lit(l, mapping))
        okc, _, accs, _ = _clause_holds(cx, c, accept_tr, kill, None, depth - 1)
        ctx_acc += accs
        if not okc:
            all_ok = False
            break
        # the guard must survive from the callee's entry to the site
        if kill:
            fp = set()
            gl = cx.guard_lits(c)
            for l in gl:
                if accept_tr(l) and l[0] in ("is", "in", "notin"):
                    fp |= prog.expr_footprint(_translate_lit(l, mapping)[1], fn)
            cx._ctx_fp = fp
            oks, _, _, _ = _clause_holds(cx, site, lambda l: False, True, assume, 0, start_held=True)
            cx._ctx_fp = set()
            if not oks:
                all_ok = False
                note = " [guard established by the caller may be overwritten before the site]"
                break
    if all_ok:
        return True, None, acc_s + ["(caller) " + x for x in ctx_acc], ""
    return ok, wit, acc_s, note


def require(cx, site, key, text, accept, kill=True, detail=None, assume=None):
    """Obligation instance: every path to `site` passes an edge carrying a literal accepted by
    `accept(lit) -> truthy`, and (if kill) nothing written afterwards can change that literal's value."""
    ok, wit, acc_s, note = _clause_holds(cx, site, accept, kill, assume)
    d = dict(detail or {})
    d["guard_literals_accepted"] = sorted(set(acc_s))[:6]
    if not ok:
        d["unguarded_path_blocks"] = wit[:40] if wit else None
        d["dominating_guards"] = sorted(show_lit(l) for l in cx.guard_lits(site))[:12]
    cx.check(ok, key, text + note, site, **d)
    return ok


def require_all(cx, site, key, text, clauses, kill=True, detail=None):
    """Conjunction of must-pass clauses (each an accept function); one instance, all must hold."""
    d = dict(detail or {})
    failed = []
    acc_all = []
    for cname, accept in clauses:
        ok, wit, acc_s, note = _clause_holds(cx, site, accept, kill)
        acc_all += acc_s
        if not ok:
            failed.append((cname + note, wit))
    d["guard_literals_accepted"] = sorted(set(acc_all))[:10]
    if failed:
        d["failed_clauses"] = [c for c, _ in failed]
        d["unguarded_path_blocks"] = failed[0][1][:40] if failed[0][1] else None
        d["dominating_guards"] = sorted(show_lit(l) for l in cx.guard_lits(site))[:12]
    cx.check(not failed, key, text, site, **d)
    return not failed


def spread_ranges(args):
    """argument list with every `lo..hi` (core::ops::Range literal) written out as the two arguments it stands for -- a
    private function that used to take (lo, hi) and now takes the range reads the same"""
    out = []
    for a in args:
        if a[0] == "adt" and a[1].endswith("ops::range::Range::Range") or (a[0] == "adt" and a[1].endswith("Range::Range") and len(a[2]) == 2):
            d = dict(a[2])
            if "start" in d and "end" in d:
                out += [d["start"], d["end"]]
                continue
        out.append(a)
    return out


def subst_phis(e, env, depth=0):
    """replace every phi over a local that `env` (a path environment) resolves by the resolved value"""
    if not isinstance(e, tuple) or depth > 40:
        return e
    if e and e[0] == "phi" and e[1] in env:
        return env[e[1]]
    return tuple(subst_phis(x, env, depth + 1) if isinstance(x, tuple) else x for x in e)


def path_variants(cx, site, exprs, limit=4000):
    """The values a tuple of expressions takes along the acyclic paths to `site`: every `phi` over a local with several
    definitions is replaced by the definition last passed on the path. Correlated choices made in separate places
    (`let ty = k.kind(); let term = match k {..}`) come out as the pairs that can actually occur. None if the paths
    cannot be enumerated."""
    g = cx.pg(site.fn)
    try:
        envs = g.site_values(site.at, lambda env: dict(env or {}), limit)
    except OverflowError:
        return None

    out = []
    for _, env in envs:
        v = tuple(subst_phis(e, env) for e in exprs)
        if v not in out:
            out.append(v)
    return out


def callers_of(cx, fn):
    from .an import strip_generics
    return [s for s in cx.prog.calls_in.get(strip_generics(fn.key), []) if s.kind == "call"]


def call_args(cx, s):
    """Argument expressions of a call site. Where the function carries path-dependent selector values (a bool flag,
    an `Option` built as Some(..) on one branch and None on the other) and every way of reaching the call agrees on
    them, the arguments are evaluated with those values (DESIGN 3.4, path-sensitive environments)."""
    a = cx.prog.A(s.fn)
    try:
        g = cx.pg(s.fn) if hasattr(cx, "pg") else None
    except Exception:
        g = None
    if g is not None and g.tracked and not g.truncated:
        v = g.eval_at(s.at, lambda env: tuple(a.expr_operand(o, s.at, 0, env) for o in s.data["term"]["args"]))
        if v is not None:
            return list(v)
    return [a.expr_operand(o, s.at) for o in s.data["term"]["args"]]


def _one_def(a, local, at):
    """the single definition of `local` that reaches `at` (all its definitions if at is None); None if several"""
    ds = a.defs[local]
    if len(ds) == 1:
        return ds[0]
    if at is not None and len(ds) > 1:
        rd = [d for d in a._reaching(local, at) if d != ("entry",)]
        if len(rd) == 1:
            return rd[0]
    return None


def _place_reads(a, pl, at, depth):
    """read sites feeding the value of a place; looks through tuples / Some(..) built from locals when the place
    projects back out of them (`let (lo, hi) = helper()?;` after the helper was spliced in)"""
    if depth > 12:
        return None
    proj = [p for p in pl["p"] if not (isinstance(p, dict) and "downcast" in p)]
    if not proj:
        return defining_reads(a, pl["l"], depth + 1, at)
    d = _one_def(a, pl["l"], at)
    if d is None or d[2] == "call":
        return [at] if at is not None and d is None else ([(d[0], "term")] if d else None)
    rv = d[3]
    here = (d[0], d[1])
    if "use" in rv:
        src = rv["use"].get("copy") or rv["use"].get("move")
        if src is None:
            return [] if "const" in rv["use"] else None
        return _place_reads(a, {"l": src["l"], "p": src["p"] + pl["p"]}, here, depth + 1)
    if rv.get("agg") in ("tuple", "adt") and isinstance(proj[0], dict) and "f" in proj[0] and proj[0]["f"] < len(rv.get("ops", [])):
        op = rv["ops"][proj[0]["f"]]
        if "const" in op:
            return []
        src = op.get("copy") or op.get("move")
        if src is None:
            return None
        rest = proj[1:]
        return _place_reads(a, {"l": src["l"], "p": src["p"] + rest}, here, depth + 1)
    return [here]


def defining_reads(a, local, depth=0, at=None):
    """Statements at which the memory reads feeding a local's value happen (through copies, casts and
    arithmetic): [(block, idx)]; None if the value has several definitions somewhere on the way."""
    if depth > 12:
        return None
    d = _one_def(a, local, at)
    if d is None:
        return None
    if d[2] == "call":
        return [(d[0], "term")]
    rv = d[3]
    here = (d[0], d[1])
    out = []
    ops = []
    if "use" in rv:
        ops = [rv["use"]]
    elif "cast" in rv:
        ops = [rv["cast"]]
    elif "bin" in rv:
        ops = [rv["a"], rv["b"]]
    elif "un" in rv:
        ops = [rv["a"]]
    elif "ref" in rv:
        return [(d[0], d[1])]
    else:
        return None
    for op in ops:
        if "const" in op:
            continue
        pl = op.get("copy") or op.get("move")
        if pl is None:
            return None
        if pl["p"]:
            r = _place_reads(a, pl, here, depth + 1)
            if r is None:
                return None
            out += r
        else:
            r = defining_reads(a, pl["l"], depth + 1, here)
            if r is None:
                return None
            out += r
    return out


def value_read_before(cx, site, arg_index, call_suffix):
    """The value passed as argument `arg_index` at call `site` was read on every path *before* any call
    to `call_suffix` in the same function. Value expressions carry no memory version, so rules that
    depend on 'the old value' check the position of the defining reads here. None = cannot tell."""
    return operand_read_before(cx, site.fn, site.data["term"]["args"][arg_index], call_suffix, at=site.at)


def operand_read_before(cx, fn, op, call_suffix, strict=False, at=None):
    """Same, for any MIR operand of `fn` (a call argument, the source of a field write).
    strict: no defining read is reachable from a call to `call_suffix` at all."""
    a = cx.prog.A(fn)
    g = cx.pg(fn)
    from .an import strip_generics
    pl = op.get("copy") or op.get("move")
    if pl is None or pl["p"]:
        return None

    def is_call(bi):
        t = fn.body.blocks[bi]["term"]
        return t["k"] == "call" and "const" in t["func"] and "fn" in t["func"]["const"] and strip_generics(t["func"]["const"]["fn"]["path"]).endswith(call_suffix)
    reads = defining_reads(a, pl["l"], 0, at)
    if not reads:
        return None
    if strict:
        calls = [bi for bi in range(len(fn.body.blocks)) if is_call(bi)]
        return all(r[0] != c and not g.block_reaches(c, lambda b, r=r: b == r[0]) for r in reads for c in calls)
    return all(not g.dominated_by_block(r, is_call) for r in reads)
