"""Check entry point.

  python3 -m raftlint.check Cxx [--tier quick|thorough]      decide one property on /repo's working tree
  python3 -m raftlint.check --setup                          build the driver, warm dependency caches
  python3 -m raftlint.check --facts DIR --json --all         run every obligation on exported facts (audit)
  python3 -m raftlint.check --replay FILE                    re-evaluate one reported obligation instance

Exit status: 0 property held on everything analysed; 1 violation (VIOLATION line printed);
2 the machinery itself is broken (no verdict).
"""
import fcntl
import hashlib
import importlib
import json
import os
import pkgutil
import subprocess
import sys
import time

HERE = os.path.dirname(os.path.dirname(os.path.abspath(__file__)))
REPO = os.environ.get("RAFT_REPO", "/repo")
WORK = os.path.join(HERE, ".work")
DRIVER = os.path.join(HERE, "driver", "target", "release", "mirfacts")

ASSUMPTIONS = [
    "the application does not write pub fields of Raft/RaftCore/RaftLog/Progress directly and uses the RawNode API as documented",
    "Storage implementations honour the trait contract (all methods take &self: the library never writes storage)",
    "rustc's front end, MIR construction and Instance resolution are trusted; MIR is taken at mir-opt-level=0 with overflow checks and debug assertions off (release semantics)",
    "guards are read path-insensitively from switch edges (sound over-approximation of feasible paths); loops are summarised without back-edge conditions",
    "aliasing is type based: a write to Adt.field anywhere invalidates every guard that reads Adt.field",
]


def load_rules():
    from . import rules
    for m in sorted(pkgutil.iter_modules(rules.__path__), key=lambda m: m.name):
        importlib.import_module("raftlint.rules." + m.name)


# --------------------------------------------------------------------------------- facts management
def tree_hash():
    h = hashlib.sha256()
    roots = ["src", "proto/src", "proto/proto"]
    files = ["Cargo.toml", "Cargo.lock", "proto/Cargo.toml", "proto/build.rs"]
    for r in roots:
        base = os.path.join(REPO, r)
        for dp, dn, fn in os.walk(base):
            dn.sort()
            for f in sorted(fn):
                files.append(os.path.relpath(os.path.join(dp, f), REPO))
    for f in sorted(set(files)):
        p = os.path.join(REPO, f)
        if os.path.isfile(p):
            h.update(f.encode())
            h.update(b"\0")
            with open(p, "rb") as fh:
                h.update(fh.read())
            h.update(b"\0")
    for p in (DRIVER, os.path.join(HERE, "export.sh")):
        if os.path.isfile(p):
            with open(p, "rb") as fh:
                h.update(hashlib.sha256(fh.read()).digest())
    return h.hexdigest()[:20]


def ensure_driver():
    if os.path.isfile(DRIVER):
        src_m = max(os.path.getmtime(os.path.join(HERE, "driver", "src", f)) for f in os.listdir(os.path.join(HERE, "driver", "src")))
        if os.path.getmtime(DRIVER) >= src_m:
            return True
    env = dict(os.environ, CARGO_NET_OFFLINE="true")
    p = subprocess.run(["cargo", "build", "--release", "--offline"], cwd=os.path.join(HERE, "driver"), env=env, stdout=subprocess.PIPE, stderr=subprocess.STDOUT, text=True)
    if p.returncode != 0:
        sys.stderr.write(p.stdout[-4000:])
        return False
    return True


def ensure_facts(cfg="pb"):
    """Export facts for /repo's current working tree (cached by content hash). Returns (dir, log|None)."""
    os.makedirs(WORK, exist_ok=True)
    lock = open(os.path.join(WORK, "lock"), "w")
    fcntl.flock(lock, fcntl.LOCK_EX)
    try:
        if not ensure_driver():
            return None, "driver build failed"
        th = tree_hash()
        d = os.path.join(WORK, "facts", "%s-%s" % (cfg, th))
        okf = os.path.join(d, "OK")
        if os.path.isfile(okf) and os.path.isfile(os.path.join(d, "raft.json")):
            return d, None
        os.makedirs(d, exist_ok=True)
        nonce = hashlib.sha256(("%s-%f-%d" % (th, time.time(), os.getpid())).encode()).hexdigest()[:16]
        env = dict(os.environ, MIRFACTS_NONCE=nonce)
        p = subprocess.run([os.path.join(HERE, "export.sh"), REPO, cfg, d], env=env, stdout=subprocess.PIPE, stderr=subprocess.STDOUT, text=True)
        log = os.path.join(d, "export.log")
        with open(log, "w") as fh:
            fh.write(p.stdout)
        if p.returncode != 0 or not os.path.isfile(os.path.join(d, "raft.json")) or not os.path.isfile(os.path.join(d, "raft_proto.json")):
            return None, log
        for n in ("raft.json", "raft_proto.json"):
            with open(os.path.join(d, n)) as fh:
                head = fh.read(400)
            if nonce not in head:
                return None, log
        with open(okf, "w") as fh:
            fh.write(nonce)
        # keep the cache small: drop other fact dirs of this configuration
        base = os.path.join(WORK, "facts")
        for n in os.listdir(base):
            if n.startswith(cfg + "-") and os.path.join(base, n) != d:
                subprocess.call(["rm", "-rf", os.path.join(base, n)])
        return d, None
    finally:
        fcntl.flock(lock, fcntl.LOCK_UN)
        lock.close()


def ensure_fixture_facts():
    """Facts of /verif/fixtures (positive/negative controls), cached by content hash."""
    os.makedirs(WORK, exist_ok=True)
    lock = open(os.path.join(WORK, "lock"), "w")
    fcntl.flock(lock, fcntl.LOCK_EX)
    try:
        if not ensure_driver():
            return None
        h = hashlib.sha256()
        for p in (os.path.join(HERE, "fixtures", "src", "lib.rs"), os.path.join(HERE, "fixtures", "Cargo.toml"), DRIVER):
            with open(p, "rb") as fh:
                h.update(fh.read())
        d = os.path.join(WORK, "facts", "fixtures-%s" % h.hexdigest()[:16])
        if os.path.isfile(os.path.join(d, "fixtures.json")):
            return d
        env = dict(os.environ, MIRFACTS_TARGET=os.path.join(WORK, "target-fixtures"), MIRFACTS_PKG="-p fixtures", MIRFACTS_NONCE="fixtures")
        p = subprocess.run([os.path.join(HERE, "export.sh"), os.path.join(HERE, "fixtures"), "pb", d, "fixtures"], env=env, stdout=subprocess.PIPE, stderr=subprocess.STDOUT, text=True)
        if not os.path.isfile(os.path.join(d, "fixtures.json")):
            sys.stderr.write(p.stdout[-2000:])
            return None
        return d
    finally:
        fcntl.flock(lock, fcntl.LOCK_UN)
        lock.close()


def run_controls():
    d = ensure_fixture_facts()
    if d is None:
        return None
    from .fixtures import run
    return run(d)


# --------------------------------------------------------------------------------- running rules
def analyse(facts_dir, props=None, tier="quick"):
    from .facts import load_dir
    from .prog import Program
    from .engine import Cx, OBLIGATIONS
    facts = load_dir(facts_dir)
    prog = Program(facts)
    load_rules()
    cx = Cx(prog, tier)
    res = cx.run(props)
    return facts, prog, res, OBLIGATIONS


def obligations_of(prop, OBLIGATIONS):
    return [o for o in OBLIGATIONS if prop in o["props"]]


def load_known():
    p = os.path.join(HERE, "known_findings.json")
    if not os.path.isfile(p):
        return {"findings": [], "fixed": []}
    return json.load(open(p))


def main():
    args = sys.argv[1:]
    if "--setup" in args:
        return setup()
    if "--replay" in args:
        return replay(args[args.index("--replay") + 1])
    if "--facts" in args:
        d = args[args.index("--facts") + 1]
        facts, prog, res, OBL = analyse(d)
        props_of = {o["name"]: o["props"] for o in OBL}
        viol = []
        for name, insts in res.items():
            for i in insts:
                if not i.ok:
                    j = i.to_json()
                    j["props"] = props_of[name]
                    viol.append(j)
        if "--json" in args:
            json.dump({"violations": viol, "n_instances": sum(len(v) for v in res.values())}, sys.stdout)
        else:
            for v in viol:
                print(v["obligation"], v["key"], v.get("where"), v["what"])
        return 1 if viol else 0
    prop = args[0]
    tier = "quick"
    if "--tier" in args:
        tier = args[args.index("--tier") + 1]
    tier = os.environ.get("VERIF_TIER", tier) if "--tier" not in args else tier
    if tier not in ("quick", "thorough"):
        tier = "quick"
    return check_property(prop, tier)


def check_property(prop, tier):
    t0 = time.time()
    seed = int(os.environ.get("VERIF_SEED", "0") or 0)
    ev_dir = os.path.join(HERE, "evidence")
    os.makedirs(os.path.join(ev_dir, "replay"), exist_ok=True)
    ev_path = os.path.join(ev_dir, prop + ".json")
    controls = run_controls()
    if controls is None or not all(c["ok"] for c in controls):
        print("raftlint is broken: engine controls on /verif/fixtures failed: %s" % ([c for c in (controls or []) if not c["ok"]][:3]))
        return 2
    cfgs = ["pb"] + (["prost"] if tier == "thorough" else [])
    all_res = {}
    units = []
    OBL = None
    for cfg in cfgs:
        d, log = ensure_facts(cfg)
        if d is None:
            # /repo does not compile (or export broke): the property cannot be shown to hold
            print("VIOLATION property=%s replay=%s" % (prop, log))
            print("  the repository does not build under the exporter (configuration %s); see the log" % cfg)
            write_evidence(ev_path, prop, tier, seed, t0, [], {}, [], 1, note="export failed: %s" % log)
            return 1
        facts, prog, res, OBL = analyse(d, [prop], tier)
        units.append({
            "configuration": "protobuf-codec" if cfg == "pb" else "prost-codec",
            "crates": facts.crates, "bodies": sum(facts.n_bodies.values()),
            "blocks": sum(f.body.nblocks for f in facts.fns.values()),
            "adts": len(facts.adts), "facts_dir": os.path.relpath(d, HERE),
        })
        for name, insts in res.items():
            all_res.setdefault(name, [])
            for i in insts:
                i.detail["configuration"] = cfg
                all_res[name].append(i)
    obls = obligations_of(prop, OBL)
    if not obls:
        print("no obligations registered for %s" % prop)
        return 2
    known = load_known()
    known_keys = {(k["property"], k["obligation"], k["key"]): k for k in known.get("findings", [])}
    viol = []
    nknown = 0
    for name, insts in all_res.items():
        for i in insts:
            if i.ok:
                continue
            kf = known_keys.get((prop, name, i.key))
            if kf is not None:
                nknown += 1
                print("KNOWN-FINDING: property=%s %s %s: %s" % (prop, name, i.key, kf.get("what", i.text)))
                continue
            viol.append(i)
    seen = set()
    n = 0
    for i in viol:
        if (i.obl, i.key) in seen:
            continue
        seen.add((i.obl, i.key))
        n += 1
        rp = os.path.join(ev_dir, "replay", "%s-%d.json" % (prop, n))
        with open(rp, "w") as fh:
            json.dump({"property": prop, "instance": i.to_json()}, fh, indent=1)
        print("VIOLATION property=%s replay=%s" % (prop, rp))
        print("  %s %s at %s" % (i.obl, i.key, i.where or "-"))
        print("  %s" % i.text)
        for k in ("unguarded_path_blocks", "dominating_guards", "value", "arg"):
            if k in i.detail and i.detail[k]:
                print("    %s: %s" % (k, i.detail[k]))
    audit = None
    if tier == "thorough":
        audit = run_audit_for(prop)
    write_evidence(ev_path, prop, tier, seed, t0, obls, all_res, units, n, nknown=nknown, audit=audit, controls=controls)
    print("%s: %d obligations, %d instances, %d violations, %d known findings (%.1fs, tier %s)" % (
        prop, len(obls), sum(len(v) for v in all_res.values()), n, nknown, time.time() - t0, tier))
    return 1 if n else 0


def run_audit_for(prop):
    """Thorough tier: sensitivity audit restricted to the seeds that target this property (informational)."""
    try:
        sys.path.insert(0, os.path.join(HERE, "mutants"))
        import specs
    except Exception as e:
        return {"error": "no audit specs: %s" % e}
    OBL = None
    from .engine import OBLIGATIONS
    names = {o["name"] for o in OBLIGATIONS if prop in o["props"]}
    ids = [s["id"] for s in specs.SPECS if s.get("kind", "mutant") == "benign" or any(any(n.startswith(e) for n in names) for e in s.get("expect", []))]
    if not ids:
        return {"specs": 0}
    out = os.path.join(WORK, "audit-%s.json" % prop)
    env = dict(os.environ, AUDIT_OUT=out)
    p = subprocess.run([sys.executable, "-m", "raftlint.audit", "--only", ",".join(ids), "--jobs", "8"], cwd=HERE, env=env, stdout=subprocess.PIPE, stderr=subprocess.STDOUT, text=True)
    try:
        rs = json.load(open(out))
    except Exception:
        return {"error": p.stdout[-500:]}
    return {
        "specs": len(rs),
        "mutants_detected": sum(r["status"].startswith("detected") for r in rs),
        "mutants_expected": sum(r["kind"] != "benign" and r["status"] != "stale" for r in rs),
        "benign_silent": sum(r["status"] == "silent" for r in rs),
        "benign_expected": sum(r["kind"] == "benign" and r["status"] != "stale" for r in rs),
        "not_ok": [{"id": r["id"], "status": r["status"]} for r in rs if r["status"] in ("MISSED", "FALSE-ALARM", "stale", "does-not-compile", "checker-error")],
    }


def write_evidence(path, prop, tier, seed, t0, obls, all_res, units, nviol, nknown=0, audit=None, note=None, controls=None):
    insts = [i for v in all_res.values() for i in v]
    per = {}
    for o in obls:
        mine = all_res.get(o["name"], [])
        per[o["name"]] = {
            "kind": o["kind"], "why_necessary": o["why"], "floor": o["floor"],
            "instances": len(mine), "conforming": sum(1 for i in mine if i.ok),
            "violating": sum(1 for i in mine if not i.ok),
        }
    nontrivial = {(i.obl, i.key) for i in insts if i.detail.get("guard_literals_accepted") or i.detail.get("value") or i.detail.get("arg") or i.detail.get("args") or i.detail.get("shape")}
    samples = [i.to_json() for i in insts[:3]] + [i.to_json() for i in insts if not i.ok][:5]
    discharged = sum(1 for o in obls if all(i.ok for i in all_res.get(o["name"], [])) and all_res.get(o["name"]))
    cov = {
        "explanation": (
            "Static analysis of the type-checked program (rustc MIR, opt-level 0) of /repo's working tree. "
            "Decides the structural necessary conditions of %s listed under instances_per_obligation "
            "(who-may-write / who-may-call tables, guard-dominates-site over all paths with kill analysis, value shapes, "
            "sibling agreement, exhaustiveness). It does NOT decide %s's behaviour over schedules/histories; see DESIGN.md section 6." % (prop, prop)),
        "obligations": len(obls),
        "discharged": discharged,
        "evaluations": max(len(insts), 0),
        "distinct_nontrivial": len(nontrivial),
        "rule": "one evaluation = one site/instance of an obligation (a write, call site, message template, return path or table row) found in the exported MIR; non-trivial = its verdict needed a guard formula, value expression or argument source (counted as distinct (obligation, site key) pairs)",
        "samples": samples if samples else [{"note": note or "no instances"}],
        "units_analysed": units,
        "instances_per_obligation": per,
        "checker_cmd": "./check %s --tier %s" % (prop, tier),
        "trusted_base": ["rustc nightly front end + MIR construction + Instance::try_resolve", "driver/src/main.rs (exporter)", "raftlint idiom tables (DESIGN.md section 5)"],
        "known_findings_suppressed": nknown,
        "exhaustive": True,
    }
    if controls is not None:
        cov["engine_controls"] = {"run": len(controls), "as_expected": sum(1 for c in controls if c["ok"]), "names": [c["control"] for c in controls]}
    if audit is not None:
        cov["audit"] = audit
    if note:
        cov["note"] = note
    ev = {
        "property_id": prop, "tier": tier, "seed": seed, "level": "other", "coverage": cov,
        "assumptions": ASSUMPTIONS, "wall_s": round(time.time() - t0, 2), "violations": nviol,
    }
    tmp = path + ".tmp%d" % os.getpid()
    with open(tmp, "w") as fh:
        json.dump(ev, fh, indent=1)
    os.replace(tmp, path)


def setup():
    if not ensure_driver():
        print("driver build failed")
        return 2
    rc = 0
    c = run_controls()
    print("controls:", "ok" if c and all(x["ok"] for x in c) else c)
    if not c or not all(x["ok"] for x in c):
        rc = 2
    for cfg in ("pb", "prost"):
        d, log = ensure_facts(cfg)
        print("facts[%s]: %s %s" % (cfg, d, log or ""))
        if d is None and cfg == "pb":
            rc = 2
    return rc


def replay(path):
    j = json.load(open(path))
    prop = j["property"]
    inst = j["instance"]
    d, log = ensure_facts("pb")
    if d is None:
        print("export failed: %s" % log)
        return 1
    facts, prog, res, OBL = analyse(d, [prop])
    found = False
    for i in res.get(inst["obligation"], []):
        if i.key == inst["key"]:
            found = True
            print(json.dumps(i.to_json(), indent=1))
            if not i.ok:
                print("VIOLATION property=%s replay=%s" % (prop, path))
                return 1
    if not found:
        print("instance %s / %s no longer exists on the current tree" % (inst["obligation"], inst["key"]))
    return 0


if __name__ == "__main__":
    sys.exit(main())
