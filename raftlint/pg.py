"""Labelled product graph of one body and the path queries the rules are written in.

Nodes are (block, env) where env records the current symbolic value of *tracked* locals: bool locals
assigned in several blocks (how rustc lowers `let c = a || (b && d);`) and small constant-valued
selector locals. Edges carry literals derived from the switch they leave through. Two queries:

  guarded(site, ok_edge, kills)   every path entry -> site passes an edge accepted by `ok_edge`
                                  after which nothing in `kills` happens before the site
  reach(assume)                   blocks reachable when edges contradicting `assume` are removed

Both are path-insensitive except for edge labels, hence sound over-approximations of feasible paths.
"""
from .an import mk_bin, mk_un, mk_vfield, walk, fields_read, show, strip_generics

STD_ENUMS = {
    "core::option::Option": {0: "None", 1: "Some"},
    "core::result::Result": {0: "Ok", 1: "Err"},
    "core::ops::control_flow::ControlFlow": {0: "Continue", 1: "Break"},
    "core::cmp::Ordering": {-1: "Less", 0: "Equal", 1: "Greater", 255: "Less", (1 << 64) - 1: "Less", (1 << 128) - 1: "Less"},
}


def variant_names(facts, adt):
    if adt in STD_ENUMS:
        return sorted(set(STD_ENUMS[adt].values()))
    return facts.variants(adt)


def variant_of(facts, adt, discr):
    if adt in STD_ENUMS:
        return STD_ENUMS[adt].get(discr)
    return facts.variant_by_discr(adt, discr)


# ------------------------------------------------------------------------------ literals
def norm_lit(facts, e, v):
    """Literal for `e == v` (e boolean-valued), in normal form."""
    while True:
        k = e[0]
        if k == "bool":
            return ("const", e[1] == v)
        if k == "un" and e[1] == "Not":
            e, v = e[2], not v
            continue
        if k == "bin":
            op, a, b = e[1], e[2], e[3]
            if op == "Ne":
                e, v = mk_bin("Eq", a, b), not v
                continue
            if op == "Le":
                e, v = ("bin", "Lt", b, a), not v
                continue
            if op in ("Eq", "Lt") and a[0] == "int" and b[0] == "int":
                return ("const", ((a[1] == b[1]) if op == "Eq" else (a[1] < b[1])) == v)
            if op == "Eq":
                for x, y in ((a, b), (b, a)):
                    if y[0] == "enum":
                        return in_lit(facts, x, {y[2]}, y[1], v)
                    if y[0] == "bool":
                        e, v = x, (v == y[1])
                        break
                    if y[0] == "int" and x[0] != "int":
                        return in_lit(facts, x, {y[1]}, None, v)
                else:
                    return ("is", e, v)
                continue
            return ("is", e, v)
        if k == "call":
            p = e[1]
            args = e[2]
            if len(args) == 2:
                if p.endswith("PartialEq>::eq") or p.endswith("PartialEq::eq") or p.endswith("::eq") and "PartialEq" in p:
                    e = mk_bin("Eq", args[0], args[1])
                    continue
                if p.endswith("PartialEq>::ne") or p.endswith("PartialEq::ne") or p.endswith("::ne") and "PartialEq" in p:
                    e, v = mk_bin("Eq", args[0], args[1]), not v
                    continue
                if "PartialOrd" in p:
                    m = p.rsplit("::", 1)[-1]
                    if m in ("lt", "le", "gt", "ge"):
                        e = mk_bin({"lt": "Lt", "le": "Le", "gt": "Gt", "ge": "Ge"}[m], args[0], args[1])
                        continue
            if len(args) == 1 and args[0][0] == "str" and p.endswith("is_empty"):
                return ("const", (args[0][1] == "") == v)
            if len(args) == 1:
                m = {"core::option::Option::is_some": ("core::option::Option", "Some"),
                     "core::option::Option::is_none": ("core::option::Option", "None"),
                     "core::result::Result::is_ok": ("core::result::Result", "Ok"),
                     "core::result::Result::is_err": ("core::result::Result", "Err")}.get(p)
                if m:
                    return in_lit(facts, args[0], {m[1]}, m[0], v)
            return ("is", e, v)
        return ("is", e, v)


def in_lit(facts, x, vals, adt, positive=True):
    vals = frozenset(vals)
    # `o?`: Option::branch(o) is Continue exactly when o is Some
    if x[0] == "call" and x[1].endswith("::branch") and "option::Option" in x[1] and len(x[2]) == 1 and vals <= frozenset(["Continue", "Break"]):
        m = {"Continue": "Some", "Break": "None"}
        return in_lit(facts, x[2][0], [m[v] for v in vals], "core::option::Option", positive)
    if x[0] == "call" and x[1].endswith("::branch") and "result::Result" in x[1] and len(x[2]) == 1 and vals <= frozenset(["Continue", "Break"]):
        m = {"Continue": "Ok", "Break": "Err"}
        return in_lit(facts, x[2][0], [m[v] for v in vals], "core::result::Result", positive)
    # a.cmp(&b) in {Less} == a < b, ... (three-way comparison of integers read as the comparisons it stands for)
    if x[0] == "call" and len(x[2]) == 2 and (x[1].endswith("cmp::Ord::cmp") or x[1].endswith("Ord>::cmp") or x[1].endswith("::cmp")) and vals <= frozenset(["Less", "Equal", "Greater"]) and vals:
        a_, b_ = x[2]
        vs = vals if positive else frozenset(["Less", "Equal", "Greater"]) - vals
        table = {frozenset(["Less"]): (mk_bin("Lt", a_, b_), True), frozenset(["Greater"]): (mk_bin("Lt", b_, a_), True),
                 frozenset(["Equal"]): (mk_bin("Eq", a_, b_), True), frozenset(["Less", "Equal"]): (mk_bin("Lt", b_, a_), False),
                 frozenset(["Greater", "Equal"]): (mk_bin("Lt", a_, b_), False), frozenset(["Less", "Greater"]): (mk_bin("Eq", a_, b_), False)}
        if vs in table:
            e_, v_ = table[vs]
            return norm_lit(facts, e_, v_)
    # a value whose variant is known
    if adt is not None:
        known = None
        if x[0] == "enum" and x[1] == adt:
            known = x[2]
        elif x[0] == "adt" and x[1].startswith(adt + "::"):
            known = x[1][len(adt) + 2:]
        if known is not None:
            return ("const", (known in vals) == positive)
    # c.then_some(v) is Some exactly when c holds
    if x[0] == "call" and x[1].endswith("bool>::then_some") and len(x[2]) == 2 and vals in (frozenset(["Some"]), frozenset(["None"])):
        return norm_lit(facts, x[2][0], (vals == frozenset(["Some"])) == positive)
    if positive:
        return ("in", x, vals, adt)
    if adt is not None:
        allv = variant_names(facts, adt)
        if allv is not None:
            return ("in", x, frozenset(allv) - vals, adt)
    return ("notin", x, vals, adt)


def negate(facts, l):
    k = l[0]
    if k == "is":
        return ("is", l[1], not l[2])
    if k == "in":
        return in_lit(facts, l[1], l[2], l[3], False)
    if k == "notin":
        return ("in", l[1], l[2], l[3])
    if k == "const":
        return ("const", not l[1])
    return l


def implies(l1, l2):
    if l1 == l2:
        return True
    if l2 == ("const", True) or l1 == ("const", False):
        return True
    k1, k2 = l1[0], l2[0]
    if k1 in ("in", "notin") and k2 in ("in", "notin"):
        if l1[1] != l2[1]:
            return False
        s1, s2 = l1[2], l2[2]
        if k1 == "in" and k2 == "in":
            return s1 <= s2
        if k1 == "in" and k2 == "notin":
            return not (s1 & s2)
        if k1 == "notin" and k2 == "notin":
            return s2 <= s1
        return False
    if k1 == "is" and k2 == "is":
        e1, v1, e2, v2 = l1[1], l1[2], l2[1], l2[2]
        if e1[0] == "bin" and e2[0] == "bin":
            o1, a1, b1 = e1[1], e1[2], e1[3]
            o2, a2, b2 = e2[1], e2[2], e2[3]
            if o1 == "Lt" and v1:
                if o2 == "Lt" and not v2 and (a2, b2) == (b1, a1):
                    return True
                if o2 == "Eq" and not v2 and {a2, b2} == {a1, b1}:
                    return True
            if o1 == "Eq" and v1 and o2 == "Lt" and not v2 and {a2, b2} == {a1, b1}:
                return True
    return False


def _presupposed(l):
    """{(E, variant)}: a literal that reads the payload `(E as V).i` is only meaningful where E is a V"""
    out = set()
    if l[0] in ("is", "in", "notin"):
        for x in walk(l[1]):
            if x[0] == "vfield" and isinstance(x[2], str):
                out.add((x[1], x[2].rsplit("::", 1)[-1]))
    return out


def contradicts(facts, l1, l2, presuppose=False):
    """presuppose: also use 'a literal reading the payload `(E as V).i` is only meaningful where E is a V'. Valid only
    when both literals speak about ONE evaluation of E -- not for a global assumption in a function that evaluates E
    again (`it.next()` in a loop) -- hence opt-in."""
    if implies(l1, negate(facts, l2)):
        return True
    if not presuppose:
        return False
    for a, b in ((l1, l2), (l2, l1)):
        if a[0] == "in":
            for e, v in _presupposed(b):
                if e == a[1] and v not in a[2]:
                    return True
    return False


def show_lit(l):
    k = l[0]
    if k == "is":
        return ("" if l[2] else "!") + show(l[1])
    if k == "in":
        return "%s in {%s}" % (show(l[1]), ",".join(sorted(str(x) for x in l[2])))
    if k == "notin":
        return "%s notin {%s}" % (show(l[1]), ",".join(sorted(str(x) for x in l[2])))
    return str(l)


def _range_conj(facts, lit):
    """`(a..=b).contains(&x)` holding is the conjunction `!(x < a)` and `!(b < x)` (`a..b`: `x < b`); the literal is
    kept as well, so that rules written against either form find theirs"""
    if lit[0] == "is" and lit[2] is True and lit[1][0] == "bin" and lit[1][1] == "Eq":
        # `Some(v) == e` / `Ok(v) == e` holding: e is that variant and its payload equals v
        for a_, b_ in ((lit[1][2], lit[1][3]), (lit[1][3], lit[1][2])):
            if a_[0] == "adt" and len(a_[2]) == 1 and b_[0] not in ("adt", "enum") and a_[1].rsplit("::", 1)[0] in ("core::option::Option", "core::result::Result"):
                adt_, var_ = a_[1].rsplit("::", 1)
                return (lit, ("in", b_, frozenset([var_]), adt_), norm_lit(facts, mk_bin("Eq", a_[2][0][1], mk_vfield(b_, a_[1], 0)), True))
        # `(a, b) == (p, q)` holding: componentwise equality
        a_, b_ = lit[1][2], lit[1][3]
        if a_[0] == "tuple" and b_[0] == "tuple" and len(a_[1]) == len(b_[1]) and len(a_[1]) > 1:
            return (lit,) + tuple(norm_lit(facts, mk_bin("Eq", x, y), True) for x, y in zip(a_[1], b_[1]))
        # `S { a: x, b: y } == S { a: p, b: q }` (a derived PartialEq on a plain struct) holding: fieldwise equality
        a_, b_ = lit[1][2], lit[1][3]
        if a_[0] == "adt" and b_[0] == "adt" and a_[1] == b_[1] and len(a_[2]) == len(b_[2]) and len(a_[2]) > 1 and [x[0] for x in a_[2]] == [x[0] for x in b_[2]] \
                and facts.adt(a_[1].rsplit("::", 1)[0]) is not None and (facts.adt(a_[1].rsplit("::", 1)[0]) or {}).get("kind") == "struct":
            return (lit,) + tuple(norm_lit(facts, mk_bin("Eq", x[1], y[1]), True) for x, y in zip(a_[2], b_[2]))
    if lit[0] == "is" and lit[2] is True and lit[1][0] == "call" and lit[1][1].endswith("::contains") and len(lit[1][2]) == 2:
        r, x = lit[1][2]
        if r[0] == "call" and r[1].endswith("RangeInclusive::new") and len(r[2]) == 2:
            a, b = r[2]
            return (lit, norm_lit(facts, mk_bin("Lt", x, a), False), norm_lit(facts, mk_bin("Lt", b, x), False))
        if r[0] == "adt" and r[1].endswith("Range::Range") and len(r[2]) == 2:
            d = dict(r[2])
            if "start" in d and "end" in d:
                return (lit, norm_lit(facts, mk_bin("Lt", x, d["start"]), False), norm_lit(facts, mk_bin("Lt", x, d["end"]), True))
    return (lit,)


def _too_big(e, limit=300):
    n = 0
    st = [e]
    while st:
        x = st.pop()
        if isinstance(x, tuple):
            n += 1
            if n > limit:
                return True
            st.extend(x)
    return False


# ------------------------------------------------------------------------------ graph
class PG:
    MAX_NODES = 20000

    def __init__(self, prog, fn, body=None):
        self.prog = prog
        self.facts = prog.facts
        self.fn = fn
        self.an = prog.an[fn.key] if body is None else None
        if self.an is None:
            from .an import BodyAn
            self.an = BodyAn(prog.facts, body, prog)
        self.body = self.an.body
        self.tracked = self._tracked_locals()
        self.nodes = []          # (block, envkey)
        self.index = {}
        self.envs = []
        self.edges = []          # per node: [(target_node, (literals..))]
        self.by_block = {}
        self.truncated = False
        self._build()

    def _tracked_locals(self):
        """Locals whose current value is carried in the node's environment: bool locals assigned in
        several blocks, and selector locals all of whose definitions are constants or copies of other
        tracked locals (`reason` strings, `expected` message kinds)."""
        a = self.an
        out = set()
        cands = {}
        for l, d in enumerate(a.defs):
            if len(d) >= 2 and not a.partial[l] and not a.mutref[l] and not a.is_param(l):
                if self.body.local_ty(l) == "bool":
                    out.add(l)
                else:
                    cands[l] = d

        def const_or_tracked(dd):
            if dd[2] == "call":
                e = a.expr_call(dd[3], (dd[0], "term"))
                # e.g. Option::from_residual(..), folded to None; Result::from_residual(..), folded to Err(..)
                return e[0] == "enum" or (e[0] == "adt" and e[1].rsplit("::", 1)[0] in ("core::option::Option", "core::result::Result"))
            if dd[2] != "assign":
                return False
            rv = dd[3]
            pl = None
            if "use" in rv:
                pl = rv["use"].get("copy") or rv["use"].get("move")
            elif "ref" in rv:
                pl = rv["ref"]
            if pl is not None and all(p == "*" for p in pl["p"]):
                if pl["l"] in out:
                    return True
            e = a.expr_rvalue(rv, (dd[0], dd[1]))
            if e[0] == "adt" and (rv.get("agg") == "adt" or "use" in rv) and (e[1].startswith("core::option::Option::") or e[1].startswith("core::result::Result::") or
                                                             ((self.facts.adt(rv.get("adt") or e[1].rsplit("::", 1)[0]) or {}).get("kind") == "enum")):
                # `if c { Some(v) } else { None }`: which variant was built is carried along the path
                return True
            return e[0] in ("str", "int", "enum", "bool", "bytes", "item")

        changed = True
        while changed:
            changed = False
            for l, d in cands.items():
                if l not in out and all(const_or_tracked(dd) for dd in d):
                    out.add(l)
                    changed = True
        return out

    def _node(self, block, env):
        key = (block, tuple(sorted(env.items())))
        i = self.index.get(key)
        if i is None:
            i = len(self.nodes)
            self.index[key] = i
            self.nodes.append(key)
            self.envs.append(env)
            self.edges.append(None)
            self.by_block.setdefault(block, []).append(i)
        return i

    def _build(self):
        body = self.body
        a = self.an
        start = self._node(0, {})
        work = [start]
        while work:
            n = work.pop()
            if self.edges[n] is not None:
                continue
            if len(self.nodes) > self.MAX_NODES:
                self.truncated = True
                self.edges[n] = []
                continue
            bi = self.nodes[n][0]
            env = dict(self.envs[n])
            b = body.blocks[bi]
            for si, st in enumerate(b["stmts"]):
                if st["k"] == "assign" and not st["place"]["p"] and st["place"]["l"] in self.tracked:
                    v_ = self._val(st["rv"], (bi, si), env, False)
                    if _too_big(v_):
                        # widening: a loop-carried value that keeps growing falls back to its path-insensitive form
                        v_ = a.expr_rvalue(st["rv"], (bi, si))
                    env[st["place"]["l"]] = v_
            t = b["term"]
            k = t["k"]
            out = []
            if k == "goto":
                out.append((t["target"], ()))
            elif k == "call":
                if t["target"] is not None:
                    d = t["dest"]
                    if not d["p"] and d["l"] in self.tracked:
                        env = dict(env)
                        v_ = a.expr_call(t, (bi, "term"), 0, self._env_for_expr(env, bi))
                        if _too_big(v_):
                            v_ = a.expr_call(t, (bi, "term"))
                        env[d["l"]] = v_
                    out.append((t["target"], ()))
            elif k == "drop":
                out.append((t["target"], ()))
            elif k == "assert":
                e = a.expr_operand(t["cond"], (bi, "term"), 0, self._env_for_expr(env, bi))
                lit = norm_lit(self.facts, e, bool(t["expected"]))
                if lit != ("const", False):
                    out.append((t["target"], (lit,) if lit[0] != "const" else ()))
            elif k == "switch":
                out = self._switch_edges(t, bi, env)
            res = []
            for tgt, lits in out:
                m = self._node(tgt, dict(env))
                res.append((m, lits))
                if self.edges[m] is None:
                    work.append(m)
            self.edges[n] = res

    def env_at(self, n, idx):
        """Environment of node n just before statement idx ("term" = before the terminator)."""
        bi = self.nodes[n][0]
        env = dict(self.envs[n])
        if not self.tracked:
            return env
        stmts = self.body.blocks[bi]["stmts"]
        upto = len(stmts) if idx == "term" else idx
        for si in range(upto):
            st = stmts[si]
            if st["k"] == "assign" and not st["place"]["p"] and st["place"]["l"] in self.tracked:
                env[st["place"]["l"]] = self._val(st["rv"], (bi, si), env, False)
        return env

    def eval_at(self, at, f):
        """f(env) evaluated in the environment of every node of the site's block; the common value if they all
        agree, else None (the caller falls back to the path-insensitive value)."""
        ns = self.by_block.get(at[0], [])
        if not ns or len(ns) > 64:
            return None
        vals = []
        for n in ns:
            env = self.env_at(n, at[1])
            v = f(env if env else None)
            if v not in vals:
                vals.append(v)
                if len(vals) > 1:
                    return None
        return vals[0]

    def _env_for_expr(self, env, bi):
        return env if env else None

    def _val(self, rv, at, env, _):
        e = self.an.expr_rvalue(rv, at, 0, self._env_for_expr(env, at[0]))
        return e

    def _switch_edges(self, t, bi, env):
        a = self.an
        e = a.expr_operand(t["op"], (bi, "term"), 0, self._env_for_expr(env, bi))
        ty = t["ty"]
        out = []
        if ty == "bool":
            tmap = {v: b for v, b in t["targets"]}
            for val, tgt in ((False, tmap.get(0)), (True, t["otherwise"] if 1 not in tmap else tmap[1])):
                if tgt is None:
                    tgt = t["otherwise"]
                lit = norm_lit(self.facts, e, val)
                if lit == ("const", False):
                    continue
                out.append((tgt, () if lit[0] == "const" else _range_conj(self.facts, lit)))
            return out
        # integer / discriminant switch
        adt = None
        x = e
        if e[0] == "discr":
            x, adt = e[1], e[2]
        listed = []
        for v, tgt in t["targets"]:
            name = variant_of(self.facts, adt, v) if adt else None
            listed.append(name if name is not None else v)
        if x[0] == "enum":
            # constant scrutinee
            for (v, tgt), name in zip(t["targets"], listed):
                if name == x[2]:
                    return [(tgt, ())]
            return [(t["otherwise"], ())]
        if x[0] == "int" and adt is None:
            for v, tgt in t["targets"]:
                if v == x[1]:
                    return [(tgt, ())]
            return [(t["otherwise"], ())]
        for (v, tgt), name in zip(t["targets"], listed):
            l1 = in_lit(self.facts, x, [name], adt) if adt else ("in", x, frozenset([name]), adt)
            if l1 == ("const", False):
                continue
            out.append((tgt, () if l1[0] == "const" else (l1,)))
        other = in_lit(self.facts, x, set(listed), adt, False)
        if other[0] == "const":
            if other[1]:
                out.append((t["otherwise"], ()))
            return out
        if not (other[0] == "in" and not other[2]):
            out.append((t["otherwise"], (other,)))
        return out

    # -------------------------------------------------------------------------- queries
    def site_nodes(self, block):
        return self.by_block.get(block, [])

    def guarded(self, site_at, ok_edge, kill_block=None, start_held=False, assume=None, subjects=None):
        """True iff on every path from entry to the site an edge accepted by ok_edge(lits) has been
        passed and no later block (or earlier statement of the site's block) is a kill.
        Returns (ok, witness) where witness is a list of blocks of an unguarded path.
        subjects: enum-valued expressions whose successive tests narrow (`x != A` then `x != B` leaves C): along a
        path the `in` sets on such an expression are intersected and the narrowed literal is offered to ok_edge too;
        a kill block forgets the narrowing."""
        if subjects is None:
            r = self.guarded(site_at, ok_edge, kill_block, start_held, assume, False)
            if r[0]:
                return r
            wb_ = getattr(ok_edge, "with_block", False)
            sub = self.narrowing_subjects((lambda l: ok_edge([l], None)) if wb_ else (lambda l: ok_edge([l])))
            if not sub:
                return r
            return self.guarded(site_at, ok_edge, kill_block, start_held, assume, sub)
        sb, sidx = site_at
        kb = kill_block or (lambda b, upto: False)
        start = (0, start_held, ())
        seen = {start: None}
        work = [start]
        kill_cache = {}
        wb = getattr(ok_edge, "with_block", False)
        while work:
            st = work.pop()
            n, held, nar = st
            bi = self.nodes[n][0]
            if bi == sb:
                h = held and not kb(bi, sidx)
                if not h:
                    return False, self._witness(seen, st)
            if bi not in kill_cache:
                kill_cache[bi] = kb(bi, None)
            hout = held and not kill_cache[bi]
            if kill_cache[bi]:
                nar = ()
            elif nar:
                # a narrowing lasts until something the narrowed value reads is written
                kept = tuple((e_, s_) for e_, s_ in nar if not self._kills_expr(bi, e_))
                if len(kept) != len(nar):
                    nar = kept
            for m, lits in self.edges[n] or []:
                if assume and any(contradicts(self.facts, a, l) for a in assume for l in lits):
                    continue
                nar2 = nar
                if subjects and lits:
                    d = None
                    extra = []
                    for l in lits:
                        if l[0] == "in" and l[1] in subjects:
                            if d is None:
                                d = dict(nar)
                            cur = d.get(l[1])
                            new = l[2] if cur is None else (cur & l[2])
                            d[l[1]] = new
                            if not new:
                                d = "infeasible"
                                break
                            if new != l[2]:
                                extra.append(("in", l[1], new, l[3]))
                    if d == "infeasible":
                        continue   # the edge contradicts an earlier test of the same value on this path
                    if d is not None:
                        nar2 = tuple(sorted(d.items(), key=lambda kv: repr(kv[0])))
                        if extra:
                            lits = list(lits) + extra
                h2 = True if (lits and (ok_edge(lits, bi) if wb else ok_edge(lits))) else hout
                s2 = (m, h2, nar2)
                if s2 not in seen:
                    seen[s2] = st
                    work.append(s2)
        return True, None

    def _kills_expr(self, bi, e):
        c = self.__dict__.setdefault("_kx", {})
        k = (bi, e)
        if k not in c:
            fpc = self.__dict__.setdefault("_kx_fp", {})
            if e not in fpc:
                fpc[e] = self.prog.expr_footprint(e, self.fn)
            fp = fpc[e]
            from .prog import killed_rooted
            c[k] = (bool(fp) and bool(killed_rooted(self.prog.block_effects(self.fn, bi, None), fp))) or self._reevaluates(bi, e)
        return c[k]

    def _reevaluates(self, bi, e):
        """does block bi compute anew something the expression stands for?  A call occurring in e is evaluated again by
        a block whose terminator calls the same function (`it.next()` in a loop header is another element each time);
        a local occurring in e is assigned, or mutably borrowed, in bi."""
        info = self.__dict__.setdefault("_rx", {})
        if e not in info:
            calls, locs = set(), set()
            for x in walk(e):
                if x[0] == "call":
                    calls.add(strip_generics(x[1]))
                elif x[0] in ("local", "phi") and isinstance(x[1], int):
                    locs.add(x[1])
            info[e] = (calls, locs)
        calls, locs = info[e]
        if not calls and not locs:
            return False
        b = self.body.blocks[bi]
        t = b["term"]
        if t["k"] == "call":
            fn = t.get("func", {}).get("const", {}).get("fn") if isinstance(t.get("func"), dict) else None
            if fn and calls and strip_generics(fn.get("path") or fn.get("orig") or "") in calls:
                return True
            if t.get("dest") and t["dest"]["l"] in locs:
                return True
        if locs:
            for st in b["stmts"]:
                if st["k"] != "assign":
                    continue
                if st["place"]["l"] in locs:
                    return True
                rv = st["rv"]
                if ("ref" in rv and rv.get("mut") and rv["ref"]["l"] in locs) or ("rawptr" in rv and rv["rawptr"]["l"] in locs):
                    return True
        return False

    def narrowing_subjects(self, acc):
        """enum-valued expressions tested more than once in this function such that the intersection of two of the
        tested sets is accepted by acc while it differs from both"""
        groups = getattr(self, "_in_groups", None)
        if groups is None:
            groups = {}
            for n in range(len(self.nodes)):
                for m, lits in self.edges[n] or []:
                    for l in lits:
                        if l[0] == "in" and l[3] is not None:
                            groups.setdefault((l[1], l[3]), set()).add(l[2])
            groups = {k: v for k, v in groups.items() if len(v) > 1}
            self._in_groups = groups
        out = set()
        for (e, adt), sets in groups.items():
            sets = list(sets)
            for i in range(len(sets)):
                for j in range(i + 1, len(sets)):
                    x = sets[i] & sets[j]
                    if not x:
                        out.add(e)   # disjoint tests: a path through both is infeasible
                    elif x != sets[i] and x != sets[j] and acc(("in", e, x, adt)):
                        out.add(e)
        return out

    def _witness(self, seen, st):
        path = []
        while st is not None:
            path.append(self.nodes[st[0]][0])
            st = seen[st]
        path.reverse()
        return path

    def dominated_by_block(self, site_at, pred, assume=None):
        """True iff every path entry -> site passes through (the end of) a block b with pred(b).
        A pred block equal to the site's block counts only if the site is its terminator... never:
        the site must come strictly after the block."""
        sb = site_at[0]
        seen = set()
        work = [0]
        while work:
            n = work.pop()
            if n in seen:
                continue
            seen.add(n)
            bi = self.nodes[n][0]
            if bi == sb:
                return False
            if pred(bi):
                continue
            for m, lits in self.edges[n] or []:
                if assume and any(contradicts(self.facts, a, l) for a in assume for l in lits):
                    continue
                if m not in seen:
                    work.append(m)
        return True

    def after_edge_must_pass(self, edge_pred, must_pred, assume=None, fresh_only=False):
        """For every edge accepted by edge_pred(lits): all paths from its target to a function exit pass
        through a block with must_pred. Returns (ok, number of such edges).
        fresh_only: edges that can only be taken after a must_pred block was already passed (the same condition
        tested again later, e.g. to compute a result flag) carry no obligation."""
        fresh = None
        if fresh_only:
            # subject: the tested expression, if the function never writes what it reads (then two tests of it on one
            # path must agree, and an edge contradicting an earlier one is not taken)
            subj = set()
            for n in range(len(self.nodes)):
                for m, lits in self.edges[n] or []:
                    if lits and edge_pred(lits):
                        subj |= {l[1] for l in lits if l[0] == "is" and edge_pred([l])}
            if subj:
                fp = set()
                for e in subj:
                    fp |= self.prog.expr_footprint(e, self.fn)
                from .prog import killed_rooted
                for bi in range(len(self.body.blocks)):
                    if (fp and killed_rooted(self.prog.block_effects(self.fn, bi, None), fp)) or any(self._reevaluates(bi, e) for e in subj):
                        subj = set()
                        break
            fresh, seen, work = set(), set(), [(0, ())]
            while work:
                st = work.pop()
                if st in seen:
                    continue
                seen.add(st)
                n, known = st
                if must_pred(self.nodes[n][0]):
                    continue
                for m, lits in self.edges[n] or []:
                    k2 = dict(known)
                    bad = False
                    for l in lits or ():
                        if l[0] == "is" and l[1] in subj:
                            if k2.get(l[1], l[2]) != l[2]:
                                bad = True
                            k2[l[1]] = l[2]
                    if bad:
                        continue
                    fresh.add((n, m))
                    work.append((m, tuple(sorted(k2.items(), key=repr))))
        starts = []
        for n in range(len(self.nodes)):
            for m, lits in self.edges[n] or []:
                if fresh is not None and (n, m) not in fresh:
                    continue
                if lits and edge_pred(lits):
                    starts.append((m, tuple(l for l in lits if edge_pred([l]))))
        ok = True
        from .prog import killed_rooted
        for st, held in starts:
            # what the start edge established stays true until something it reads is written: an edge that contradicts it
            # before that is not taken (the same lookup tested twice, `if x.is_none() { log } .. let Some(p) = x else ..`)
            fp = set()
            for l in held:
                if l[0] in ("is", "in", "notin"):
                    fp |= self.prog.expr_footprint(l[1], self.fn)
            kcache = {}

            held_exprs = [l[1] for l in held if l[0] in ("is", "in", "notin")]

            def kills(bi):
                if bi not in kcache:
                    kcache[bi] = (bool(fp) and bool(killed_rooted(self.prog.block_effects(self.fn, bi, None), fp))) or any(self._reevaluates(bi, e_) for e_ in held_exprs)
                return kcache[bi]
            seen = set()
            work = [(st, bool(held_exprs))]
            while work:
                n, alive = work.pop()
                if (n, alive) in seen:
                    continue
                seen.add((n, alive))
                bi = self.nodes[n][0]
                if must_pred(bi):
                    continue
                k = self.body.blocks[bi]["term"]["k"]
                if k == "return":
                    ok = False
                    break
                alive2 = alive and not kills(bi)
                for m, lits in self.edges[n] or []:
                    if assume and any(contradicts(self.facts, a, l) for a in assume for l in lits):
                        continue
                    if alive2 and any(contradicts(self.facts, a, l) for a in held for l in lits):
                        continue
                    if (m, alive2) not in seen:
                        work.append((m, alive2))
        return ok, len(starts)

    def after_edge_never_reaches(self, edge_pred, bad_pred):
        """For every edge accepted by edge_pred(lits): no block with bad_pred is reachable from its target.
        Returns (ok, number of such edges)."""
        starts = []
        for n in range(len(self.nodes)):
            for m, lits in self.edges[n] or []:
                if lits and edge_pred(lits):
                    starts.append(m)
        seen = set()
        work = list(starts)
        while work:
            n = work.pop()
            if n in seen:
                continue
            seen.add(n)
            if bad_pred(self.nodes[n][0]):
                return False, len(starts)
            work += [m for m, _ in self.edges[n] or []]
        return True, len(starts)

    def possible_values(self, site_at, is_subject, universe):
        """The variants the subject (an enum-valued expression picked by is_subject(expr)) can have when control
        reaches the site: along each path the `in` literals on it are intersected (nested matches narrow step by step:
        `A | B | C => { .. match t { A => .., B => .., _ => here } }` is C), and the paths are united."""
        sb = site_at[0]
        U = frozenset(universe)
        start = (0, U)
        seen = {start}
        work = [start]
        out = set()
        while work:
            n, cur = work.pop()
            if self.nodes[n][0] == sb:
                out |= cur
                continue
            for m, lits in self.edges[n] or []:
                c2 = cur
                for l in lits:
                    if l[0] == "in" and is_subject(l[1]):
                        c2 = c2 & frozenset(l[2])
                    elif l[0] == "notin" and is_subject(l[1]):
                        c2 = c2 - frozenset(l[2])
                if not c2:
                    continue
                st = (m, c2)
                if st not in seen:
                    seen.add(st)
                    work.append(st)
        return out

    def holds_at_exit(self, write_eval, assume=None):
        """Product with a 'last write' state. write_eval(node) -> None (the node's block does not write the
        thing), True (its last write stores a value that is true under the assumption) or False (anything else).
        True iff on every path entry -> return (edges contradicting `assume` pruned) the last write was a True one.
        Returns (ok, witness blocks)."""
        start = (0, None)
        seen = {start: None}
        work = [start]
        cache = {}
        while work:
            st = work.pop()
            n, s = st
            if n not in cache:
                cache[n] = write_eval(n)
            w = cache[n]
            s2 = s if w is None else w
            bi = self.nodes[n][0]
            if self.body.blocks[bi]["term"]["k"] == "return" and s2 is not True:
                return False, self._witness(seen, st)
            for m, lits in self.edges[n] or []:
                if assume and any(contradicts(self.facts, a, l) for a in assume for l in lits):
                    continue
                nx = (m, s2)
                if nx not in seen:
                    seen[nx] = st
                    work.append(nx)
        return True, None

    def block_reaches(self, src_block, dst_pred):
        """Is some block with dst_pred reachable (through >= 1 edge) from src_block?"""
        seen = set()
        work = []
        for n in self.by_block.get(src_block, []):
            work += [m for m, _ in self.edges[n] or []]
        while work:
            n = work.pop()
            if n in seen:
                continue
            seen.add(n)
            if dst_pred(self.nodes[n][0]):
                return True
            work += [m for m, _ in self.edges[n] or []]
        return False

    def reach(self, assume=None, start_block=0, presuppose=False):
        """Blocks reachable from entry over edges none of whose literals contradicts a literal in
        `assume` (list of literals)."""
        seen = set()
        work = list(self.by_block.get(start_block, []))[:1] if start_block == 0 else list(self.by_block.get(start_block, []))
        while work:
            n = work.pop()
            if n in seen:
                continue
            seen.add(n)
            for m, lits in self.edges[n] or []:
                if assume and any(contradicts(self.facts, a, l, presuppose) for a in assume for l in lits):
                    continue
                if m not in seen:
                    work.append(m)
        return {self.nodes[n][0] for n in seen}

    def path_conditions(self, site_block, limit=4000):
        """All acyclic label sequences entry -> site_block (for small functions)."""
        out = []
        cnt = [0]

        def dfs(n, lits, onpath):
            cnt[0] += 1
            if cnt[0] > limit:
                raise OverflowError("too many paths")
            if self.nodes[n][0] == site_block:
                out.append(tuple(lits))
                return
            for m, ls in self.edges[n] or []:
                if m in onpath:
                    continue
                dfs(m, lits + list(ls), onpath | {m})

        dfs(0, [], {0})
        return out

    def site_values(self, at, f, limit=4000):
        """[(literals, value)] for every acyclic path entry -> the statement at `at`: f(env) evaluated with, for every
        local that has several definitions, the value of the last definition passed on that path (and the node's
        tracked selectors). Lets a rule read `let v = match s {A => x, _ => y}; ..; field = v` as `field = x` under
        `s in {A}` and `field = y` otherwise."""
        out = []
        cnt = [0]
        a = self.an
        body = self.body
        sb, sidx = at
        multi = {l for l, d in enumerate(a.defs) if len(d) >= 2 and l != 0 and not a.partial[l] and not a.mutref[l] and not a.is_param(l)}

        def step(bi, penv, nenv, upto=None):
            b = body.blocks[bi]
            out_env = penv
            for si, st in enumerate(b["stmts"]):
                if upto is not None and upto != "term" and si >= upto:
                    return out_env
                if st["k"] == "assign" and not st["place"]["p"] and st["place"]["l"] in multi:
                    env = dict(out_env)
                    env.update(nenv or {})
                    if out_env is penv:
                        out_env = dict(penv)
                    out_env[st["place"]["l"]] = a.expr_rvalue(st["rv"], (bi, si), 0, env or None)
            if upto is not None:
                return out_env
            t = b["term"]
            if t["k"] == "call" and t.get("dest") and not t["dest"]["p"] and t["dest"]["l"] in multi:
                env = dict(out_env)
                env.update(nenv or {})
                if out_env is penv:
                    out_env = dict(penv)
                out_env[t["dest"]["l"]] = a.expr_call(t, (bi, "term"), 0, env or None)
            return out_env

        def dfs(n, lits, onpath, penv):
            cnt[0] += 1
            if cnt[0] > limit:
                raise OverflowError("too many paths")
            bi = self.nodes[n][0]
            if bi == sb:
                env = dict(step(bi, penv, self.envs[n], sidx))
                env.update(self.env_at(n, sidx))
                out.append((tuple(lits), f(env or None)))
                return
            penv = step(bi, penv, self.envs[n])
            for m, ls in self.edges[n] or []:
                if m in onpath:
                    continue
                dfs(m, lits + list(ls), onpath | {m}, penv)

        dfs(0, [], {0}, {})
        return out

    def returns(self, limit=4000):
        """[(literals, value_expr, return_block)] for every acyclic path to a return. The value is taken
        from the last assignment to the return place on that path (path-sensitive)."""
        out = []
        cnt = [0]
        a = self.an
        body = self.body

        def last_ret_def(bi):
            b = body.blocks[bi]
            d = None
            for si, st in enumerate(b["stmts"]):
                if st["k"] == "assign" and st["place"]["l"] == 0 and not st["place"]["p"]:
                    d = (bi, si, "assign", st["rv"])
            t = b["term"]
            if t["k"] == "call" and t["dest"]["l"] == 0 and not t["dest"]["p"]:
                d = (bi, "term", "call", t)
            return d

        # locals with several definitions take, on a given path, the value of the last definition passed on it
        multi = {l for l, d in enumerate(a.defs) if len(d) >= 2 and l != 0 and not a.partial[l] and not a.mutref[l] and not a.is_param(l)}

        def path_env(bi, penv, nenv):
            b = body.blocks[bi]
            out_env = penv
            for si, st in enumerate(b["stmts"]):
                if st["k"] == "assign" and not st["place"]["p"] and st["place"]["l"] in multi:
                    env = dict(out_env)
                    env.update(nenv or {})
                    if out_env is penv:
                        out_env = dict(penv)
                    out_env[st["place"]["l"]] = a.expr_rvalue(st["rv"], (bi, si), 0, env or None)
            t = b["term"]
            if t["k"] == "call" and t.get("dest") and not t["dest"]["p"] and t["dest"]["l"] in multi:
                env = dict(out_env)
                env.update(nenv or {})
                if out_env is penv:
                    out_env = dict(penv)
                out_env[t["dest"]["l"]] = a.expr_call(t, (bi, "term"), 0, env or None)
            return out_env

        def dfs(n, lits, onpath, rdef, penv):
            cnt[0] += 1
            if cnt[0] > limit:
                raise OverflowError("too many paths")
            bi = self.nodes[n][0]
            d = last_ret_def(bi)
            if d is not None:
                rdef = (d, self.envs[n], penv)
            if multi:
                penv = path_env(bi, penv, self.envs[n])
            if body.blocks[bi]["term"]["k"] == "return":
                if rdef is None:
                    env = dict(penv)
                    env.update(self.envs[n] or {})
                    v = a.expr_local(0, (bi, "term"), 0, frozenset(), env or None)
                else:
                    d, env0, penv0 = rdef
                    if d[2] == "assign":
                        # definitions of the same block that precede the assignment count
                        pe = dict(penv0)
                        b = body.blocks[d[0]]
                        for si in range(d[1]):
                            st = b["stmts"][si]
                            if st["k"] == "assign" and not st["place"]["p"] and st["place"]["l"] in multi:
                                e2 = dict(pe)
                                e2.update(env0 or {})
                                pe[st["place"]["l"]] = a.expr_rvalue(st["rv"], (d[0], si), 0, e2 or None)
                        env = pe
                    else:
                        env = dict(path_env(d[0], penv0, env0)) if False else dict(penv0)
                        b = body.blocks[d[0]]
                        for si, st in enumerate(b["stmts"]):
                            if st["k"] == "assign" and not st["place"]["p"] and st["place"]["l"] in multi:
                                e2 = dict(env)
                                e2.update(env0 or {})
                                env[st["place"]["l"]] = a.expr_rvalue(st["rv"], (d[0], si), 0, e2 or None)
                    env.update(env0 or {})
                    env = env or None
                    if d[2] == "assign":
                        v = a.expr_rvalue(d[3], (d[0], d[1]), 0, env)
                    else:
                        v = a.expr_call(d[3], (d[0], "term"), 0, env)
                out.append((tuple(lits), v, bi))
                return
            for m, ls in self.edges[n] or []:
                if m in onpath:
                    continue
                dfs(m, lits + list(ls), onpath | {m}, rdef, penv)

        dfs(0, [], {0}, None, {})
        return out
