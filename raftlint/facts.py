"""Fact loader: turns the JSON written by the mirfacts driver into light Python objects.

Nothing here executes analysed code; it only indexes the exported MIR.
"""
import copy
import json
import os
import re


class Place:
    __slots__ = ("local", "proj")

    def __init__(self, j):
        self.local = j["l"]
        self.proj = j["p"]

    def is_local(self):
        return not self.proj

    def root_deref(self):
        return bool(self.proj) and self.proj[0] == "*"

    def fields(self):
        out = []
        for p in self.proj:
            if isinstance(p, dict) and "f" in p:
                out.append(p)
        return out

    def __repr__(self):
        s = "_%d" % self.local
        for p in self.proj:
            if p == "*":
                s = "(*%s)" % s
            elif isinstance(p, dict) and "f" in p:
                s += "." + p["n"]
            elif isinstance(p, dict) and "downcast" in p:
                s = "(%s as %s)" % (s, p["downcast"])
            elif isinstance(p, dict) and "index" in p:
                s += "[_%d]" % p["index"]
            elif isinstance(p, dict) and "cindex" in p:
                s += "[%s%d]" % ("-" if p.get("from_end") else "", p["cindex"])
            elif isinstance(p, dict) and "subslice" in p:
                s += "[%d..%s%d]" % (p["subslice"][0], "-" if p.get("from_end") else "", p["subslice"][1])
            else:
                s += ".?%s" % (p,)
        return s


class Body:
    """One MIR body (function, closure or promoted constant)."""

    def __init__(self, j, fn, promoted_index=None):
        self.fn = fn
        self.promoted_index = promoted_index
        self.arg_count = j["arg_count"]
        self.locals = j["locals"]
        self.blocks = j["blocks"]
        self.vars = j["vars"]
        self.names = {}
        for v in self.vars:
            p = v["place"]
            if not p["p"]:
                self.names.setdefault(p["l"], v["name"])
        self.nblocks = len(self.blocks)

    def local_name(self, l):
        return self.names.get(l)

    def local_ty(self, l):
        return self.locals[l]["ty"]

    def local_adt(self, l):
        return self.locals[l]["adt"]


class Fn:
    def __init__(self, key, j, crate):
        self.key = key
        self.crate = crate
        self.kind = j["kind"]
        self.name = j["name"]
        self.vis = j.get("vis")
        self.doc_hidden = j.get("doc_hidden", False)
        self.impl_self = j.get("impl_self")
        self.impl_adt = j.get("impl_adt")
        self.impl_trait = j.get("impl_trait")
        self.parent = j.get("parent")
        self.root = j.get("root", key)
        self.span = j["span"]
        self.body = Body(j["body"], self)
        self.promoted = [Body(p, self, i) for i, p in enumerate(j["promoted"])]

    @property
    def is_closure(self):
        return self.kind == "Closure"

    def short(self):
        return short_path(self.key)

    def __repr__(self):
        return "<Fn %s>" % self.key


def short_path(p):
    """Stable short form of a def path: generic parameter lists `::<..>` are dropped (so a function has
    the same name at its definition and at its call sites); `<impl ..>` segments are kept."""
    if "::<" not in p:
        return p
    out = []
    i = 0
    n = len(p)
    while i < n:
        if p.startswith("::<", i) and not p.startswith("::<impl ", i):
            depth = 0
            j = i + 2
            while j < n:
                c = p[j]
                if c == "<":
                    depth += 1
                elif c == ">" and p[j - 1] != "-":
                    depth -= 1
                    if depth == 0:
                        break
                j += 1
            i = j + 1
            continue
        out.append(p[i])
        i += 1
    return "".join(out)


class Facts:
    def __init__(self):
        self.fns = {}
        self.adts = {}
        self.consts = {}
        self.traits = {}
        self.files = {}
        self.crates = []
        self.nonces = {}
        self.n_bodies = {}

    def load(self, path):
        with open(path) as f:
            j = json.load(f)
        return self.load_json(j)

    def load_json(self, j):
        crate = j["crate"]
        self.crates.append(crate)
        self.nonces[crate] = j["nonce"]
        self.n_bodies[crate] = j["n_bodies"]
        self.files[crate] = j["files"]
        for k, v in j["adts"].items():
            self.adts[k] = v
        for k, v in j["consts"].items():
            self.consts[k] = v
        for k, v in j["traits"].items():
            self.traits[k] = v
        for k, v in j["fns"].items():
            self.fns[k] = Fn(k, v, crate)
        return self

    # ---- lookups -------------------------------------------------------------------------
    def fn(self, key):
        return self.fns.get(key)

    def find_fns(self, suffix):
        """Functions whose generic-stripped path ends with `suffix` (e.g. 'RaftLog::commit_to')."""
        out = []
        for k, f in self.fns.items():
            sp = short_path(k)
            if sp == suffix or sp.endswith("::" + suffix):
                out.append(f)
        return out

    def one_fn(self, suffix):
        c = self.find_fns(suffix)
        if len(c) != 1:
            return None
        return c[0]

    def adt(self, path):
        return self.adts.get(path)

    def find_adt(self, suffix):
        c = [k for k in self.adts if k == suffix or k.endswith("::" + suffix)]
        if len(c) == 1:
            return c[0]
        return None

    def variant_by_discr(self, adt_path, discr):
        a = self.adts.get(adt_path)
        if a is None:
            return None
        for v in a["variants"]:
            if v["discr"] == discr:
                return v["name"]
        return None

    def variants(self, adt_path):
        a = self.adts.get(adt_path)
        if a is None:
            return None
        return [v["name"] for v in a["variants"]]

    def span_str(self, fn, s):
        if s is None:
            return "?"
        files = self.files.get(fn.crate, [])
        f = files[s[0]] if s[0] < len(files) else "?"
        return "%s:%d" % (f, s[1])


def _field_renames(adts):
    """Private struct fields are addressed by name in the rules. A behaviour-preserving rename of one
    must not orphan them: when a struct of crate `raft` no longer has a field name of the reference table
    (raftlint/field_table.json, the tree the rules were written against) but still has the same number of
    fields with the same types position by position, the field at that position is taken to be the renamed
    one (only for fields that are not `pub`). Anything else is left alone and the rules fail closed."""
    path = os.path.join(os.path.dirname(os.path.abspath(__file__)), "field_table.json")
    if not os.path.exists(path):
        return {}
    ref = json.load(open(path))
    ren = {}
    for adt, cols in ref.items():
        a = adts.get(adt)
        if not a or a.get("kind") != "struct":
            continue
        cur = a["variants"][0]["fields"]
        if {c[0] for c in cols} == {f["name"] for f in cur}:
            continue
        if len(cur) != len(cols):
            continue
        m = {}
        ok = True
        for c, f in zip(cols, cur):
            if c[0] == f["name"]:
                continue
            if c[1] != f["ty"] or c[2] == "pub" or f["vis"] == "pub":
                ok = False
                break
            m[f["name"]] = c[0]
        if ok and m and not (set(m.values()) & {f["name"] for f in cur}):
            for cn, rn in m.items():
                ren[(adt, cn)] = rn
    return ren


def _apply_field_renames(js, ren):
    by_adt = {}
    for (adt, cn), rn in ren.items():
        by_adt.setdefault(adt, {})[cn] = rn

    def walk(o):
        if isinstance(o, dict):
            if "n" in o and "f" in o and o.get("adt") in by_adt and o["n"] in by_adt[o["adt"]]:
                o["n"] = by_adt[o["adt"]][o["n"]]
            if o.get("agg") == "adt" and o.get("adt") in by_adt and "fields" in o:
                o["fields"] = [by_adt[o["adt"]].get(n, n) for n in o["fields"]]
            for v in o.values():
                walk(v)
        elif isinstance(o, list):
            for v in o:
                walk(v)
    for j in js:
        for adt, m in by_adt.items():
            a = j["adts"].get(adt)
            if a:
                for f in a["variants"][0]["fields"]:
                    if f["name"] in m:
                        f["name"] = m[f["name"]]
        walk(j["fns"])


def _regrouped_fields(adts):
    """Private fields that were moved, unchanged, into a new private struct held by the same owner
    (`struct RaftCore { a: bool, b: bool }` -> `struct RaftCore { switches: Switches }`, `struct Switches { a, b }`):
    {(owner adt, holder field name): (new struct adt, {field name: type})}. The owner's vanished fields must all be found,
    by name and type, in exactly one new struct (absent from the reference table) that the owner holds in a new field."""
    path = os.path.join(os.path.dirname(os.path.abspath(__file__)), "field_table.json")
    if not os.path.exists(path):
        return {}
    ref = json.load(open(path))
    out = {}
    for adt, cols in ref.items():
        a = adts.get(adt)
        if not a or a.get("kind") != "struct":
            continue
        cur = a["variants"][0]["fields"]
        cur_names = {f["name"] for f in cur}
        gone = {c[0]: c[1] for c in cols if c[0] not in cur_names and c[2] != "pub"}
        if not gone:
            continue
        for f in cur:
            if f["name"] in {c[0] for c in cols} or f["vis"] == "pub":
                continue
            sa = adts.get(f.get("adt") or f["ty"])
            if not sa or sa.get("kind") != "struct" or (f.get("adt") or f["ty"]) in ref:
                continue
            inner = {g["name"]: g["ty"] for g in sa["variants"][0]["fields"]}
            moved = {n: t for n, t in gone.items() if inner.get(n) == t}
            if moved and set(moved) == set(gone) and set(inner) == set(moved):
                out[(adt, f["name"])] = (f.get("adt") or f["ty"], moved)
    return out


def _apply_regrouping(js, adts, reg):
    """rewrite `owner.holder.x` to `owner.x`, flatten `Owner { holder: Holder { x, y }, .. }` literals and restore
    the owner's field list"""
    if not reg:
        return
    by_owner = {}
    for (owner, holder), (sadt, moved) in reg.items():
        by_owner[owner] = (holder, sadt, moved)

    def fix_place(pl):
        p = pl.get("p")
        if not isinstance(p, list):
            return
        i = 0
        out = []
        while i < len(p):
            a_ = p[i]
            if isinstance(a_, dict) and "f" in a_ and a_.get("adt") in by_owner and a_.get("n") == by_owner[a_["adt"]][0] and i + 1 < len(p) and isinstance(p[i + 1], dict) and p[i + 1].get("adt") == by_owner[a_["adt"]][1]:
                b_ = dict(p[i + 1])
                b_["adt"] = a_["adt"]
                out.append(b_)
                i += 2
                continue
            out.append(a_)
            i += 1
        pl["p"] = out

    def walk(o):
        if isinstance(o, dict):
            if "l" in o and "p" in o and isinstance(o.get("p"), list):
                fix_place(o)
            for v in o.values():
                walk(v)
        elif isinstance(o, list):
            for v in o:
                walk(v)

    for j in js:
        if j["crate"] != "raft":
            continue
        for k, f in j["fns"].items():
            B = f["body"]["blocks"]
            walk(B)
            # flatten struct literals
            aggdef = {}
            for b in B:
                for st in b["stmts"]:
                    if st["k"] == "assign" and not st["place"]["p"] and st["rv"].get("agg") == "adt":
                        aggdef.setdefault(st["place"]["l"], []).append(st["rv"])
            for b in B:
                for st in b["stmts"]:
                    rv = st.get("rv", {})
                    if st["k"] == "assign" and rv.get("agg") == "adt" and rv.get("adt") in by_owner and by_owner[rv["adt"]][0] in rv.get("fields", []):
                        holder, sadt, moved = by_owner[rv["adt"]]
                        i = rv["fields"].index(holder)
                        op = rv["ops"][i]
                        src = op.get("move") or op.get("copy")
                        if src is not None and not src["p"] and len(aggdef.get(src["l"], [])) == 1 and aggdef[src["l"]][0].get("adt") == sadt:
                            inner = aggdef[src["l"]][0]
                            rv["fields"] = rv["fields"][:i] + list(inner["fields"]) + rv["fields"][i + 1:]
                            rv["ops"] = rv["ops"][:i] + copy.deepcopy(inner["ops"]) + rv["ops"][i + 1:]
    for owner, (holder, sadt, moved) in by_owner.items():
        flds = adts[owner]["variants"][0]["fields"]
        if not [n for n, f in enumerate(flds) if f["name"] == holder]:
            continue
        i = [n for n, f in enumerate(flds) if f["name"] == holder][0]
        inner = adts[sadt]["variants"][0]["fields"]
        adts[owner]["variants"][0]["fields"] = flds[:i] + [dict(g) for g in inner] + flds[i + 1:]
        for jj in js:
            if owner in jj.get("adts", {}):
                jj["adts"][owner] = adts[owner]


def load_dir(d):
    facts = Facts()
    names = sorted(n for n in os.listdir(d) if n.endswith(".json"))
    js = []
    for n in names:
        with open(os.path.join(d, n)) as f:
            js.append(json.load(f))
    adts = {}
    for j in js:
        adts.update(j["adts"])
    reg = _regrouped_fields(adts)
    _apply_regrouping(js, adts, reg)
    ren = _field_renames(adts)
    if ren:
        _apply_field_renames(js, ren)
    from .inline import inline_new_helpers, fn_renames, apply_fn_renames
    from .inline import changed_fns, split_selector_joins, fold_constant_switches, set_enums, propagate_moves, desugar_mem_replace, desugar_combinators
    set_enums(adts)
    fren = fn_renames(js)
    apply_fn_renames(js, fren)
    changed = changed_fns(js)
    inlined = inline_new_helpers(js)
    split = {}
    allfns = {}
    for j in js:
        if j["crate"] == "raft":
            allfns.update(j["fns"])
    for j in js:
        if j["crate"] != "raft":
            continue
        for k, f in j["fns"].items():
            if k in changed or f.get("root") in changed:
                desugar_mem_replace(f)
                propagate_moves(f)
                desugar_combinators(f, allfns)
                propagate_moves(f)
                fold_constant_switches(f)
                n = split_selector_joins(f)
                if n:
                    split[k] = n
    _apply_regrouping(js, adts, reg)   # again: struct literals whose holder value only now is a literal in the same body
    # a closure spliced into its (only) user is no longer a unit of analysis
    from . import inline as _inl
    if _inl.SPLICED_CLOSURES:
        used = set()

        def _walk(o):
            if isinstance(o, dict):
                if o.get("agg") == "closure" and o.get("closure") in _inl.SPLICED_CLOSURES:
                    used.add(o["closure"])
                for v in o.values():
                    _walk(v)
            elif isinstance(o, list):
                for v in o:
                    _walk(v)
        for j in js:
            if j["crate"] == "raft":
                for k in list(j["fns"].keys()):
                    if k in _inl.SPLICED_CLOSURES:
                        j["fns"].pop(k)
        _inl.SPLICED_CLOSURES.clear()
    for j in js:
        facts.load_json(j)
    facts.inlined_helpers = inlined
    facts.fn_renames = fren
    facts.changed_fns = sorted(changed)
    facts.split_joins = split
    facts.field_renames = {"%s.%s" % (adt.split("::")[-1], rn): cn for (adt, cn), rn in ren.items()}
    return facts
