"""Fact loader: turns the JSON written by the mirfacts driver into light Python objects.

Nothing here executes analysed code; it only indexes the exported MIR.
"""
import json
import os
import re


class Place:
    __slots__ = ("local", "proj")

    def __init__(self, j):
        self.local = j["l"]
        self.proj = j["p"]

    def is_local(self):
        return not self.proj

    def root_deref(self):
        return bool(self.proj) and self.proj[0] == "*"

    def fields(self):
        out = []
        for p in self.proj:
            if isinstance(p, dict) and "f" in p:
                out.append(p)
        return out

    def __repr__(self):
        s = "_%d" % self.local
        for p in self.proj:
            if p == "*":
                s = "(*%s)" % s
            elif isinstance(p, dict) and "f" in p:
                s += "." + p["n"]
            elif isinstance(p, dict) and "downcast" in p:
                s = "(%s as %s)" % (s, p["downcast"])
            elif isinstance(p, dict) and "index" in p:
                s += "[_%d]" % p["index"]
            elif isinstance(p, dict) and "cindex" in p:
                s += "[%s%d]" % ("-" if p.get("from_end") else "", p["cindex"])
            elif isinstance(p, dict) and "subslice" in p:
                s += "[%d..%s%d]" % (p["subslice"][0], "-" if p.get("from_end") else "", p["subslice"][1])
            else:
                s += ".?%s" % (p,)
        return s


class Body:
    """One MIR body (function, closure or promoted constant)."""

    def __init__(self, j, fn, promoted_index=None):
        self.fn = fn
        self.promoted_index = promoted_index
        self.arg_count = j["arg_count"]
        self.locals = j["locals"]
        self.blocks = j["blocks"]
        self.vars = j["vars"]
        self.names = {}
        for v in self.vars:
            p = v["place"]
            if not p["p"]:
                self.names.setdefault(p["l"], v["name"])
        self.nblocks = len(self.blocks)

    def local_name(self, l):
        return self.names.get(l)

    def local_ty(self, l):
        return self.locals[l]["ty"]

    def local_adt(self, l):
        return self.locals[l]["adt"]


class Fn:
    def __init__(self, key, j, crate):
        self.key = key
        self.crate = crate
        self.kind = j["kind"]
        self.name = j["name"]
        self.vis = j.get("vis")
        self.doc_hidden = j.get("doc_hidden", False)
        self.impl_self = j.get("impl_self")
        self.impl_adt = j.get("impl_adt")
        self.impl_trait = j.get("impl_trait")
        self.parent = j.get("parent")
        self.root = j.get("root", key)
        self.span = j["span"]
        self.body = Body(j["body"], self)
        self.promoted = [Body(p, self, i) for i, p in enumerate(j["promoted"])]

    @property
    def is_closure(self):
        return self.kind == "Closure"

    def short(self):
        return short_path(self.key)

    def __repr__(self):
        return "<Fn %s>" % self.key


def short_path(p):
    """Stable short form of a def path: generic parameter lists `::<..>` are dropped (so a function has
    the same name at its definition and at its call sites); `<impl ..>` segments are kept."""
    if "::<" not in p:
        return p
    out = []
    i = 0
    n = len(p)
    while i < n:
        if p.startswith("::<", i) and not p.startswith("::<impl ", i):
            depth = 0
            j = i + 2
            while j < n:
                c = p[j]
                if c == "<":
                    depth += 1
                elif c == ">" and p[j - 1] != "-":
                    depth -= 1
                    if depth == 0:
                        break
                j += 1
            i = j + 1
            continue
        out.append(p[i])
        i += 1
    return "".join(out)


class Facts:
    def __init__(self):
        self.fns = {}
        self.adts = {}
        self.consts = {}
        self.traits = {}
        self.files = {}
        self.crates = []
        self.nonces = {}
        self.n_bodies = {}

    def load(self, path):
        with open(path) as f:
            j = json.load(f)
        crate = j["crate"]
        self.crates.append(crate)
        self.nonces[crate] = j["nonce"]
        self.n_bodies[crate] = j["n_bodies"]
        self.files[crate] = j["files"]
        for k, v in j["adts"].items():
            self.adts[k] = v
        for k, v in j["consts"].items():
            self.consts[k] = v
        for k, v in j["traits"].items():
            self.traits[k] = v
        for k, v in j["fns"].items():
            self.fns[k] = Fn(k, v, crate)
        return self

    # ---- lookups -------------------------------------------------------------------------
    def fn(self, key):
        return self.fns.get(key)

    def find_fns(self, suffix):
        """Functions whose generic-stripped path ends with `suffix` (e.g. 'RaftLog::commit_to')."""
        out = []
        for k, f in self.fns.items():
            sp = short_path(k)
            if sp == suffix or sp.endswith("::" + suffix):
                out.append(f)
        return out

    def one_fn(self, suffix):
        c = self.find_fns(suffix)
        if len(c) != 1:
            return None
        return c[0]

    def adt(self, path):
        return self.adts.get(path)

    def find_adt(self, suffix):
        c = [k for k in self.adts if k == suffix or k.endswith("::" + suffix)]
        if len(c) == 1:
            return c[0]
        return None

    def variant_by_discr(self, adt_path, discr):
        a = self.adts.get(adt_path)
        if a is None:
            return None
        for v in a["variants"]:
            if v["discr"] == discr:
                return v["name"]
        return None

    def variants(self, adt_path):
        a = self.adts.get(adt_path)
        if a is None:
            return None
        return [v["name"] for v in a["variants"]]

    def span_str(self, fn, s):
        if s is None:
            return "?"
        files = self.files.get(fn.crate, [])
        f = files[s[0]] if s[0] < len(files) else "?"
        return "%s:%d" % (f, s[1])


def load_dir(d):
    facts = Facts()
    names = sorted(n for n in os.listdir(d) if n.endswith(".json"))
    for n in names:
        facts.load(os.path.join(d, n))
    return facts
