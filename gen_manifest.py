#!/usr/bin/env python3
"""Regenerates MANIFEST.json from the obligation registry and the per-property claim texts below."""
import json
import os
import sys

HERE = os.path.dirname(os.path.abspath(__file__))
sys.path.insert(0, HERE)
from raftlint.check import load_rules
from raftlint.engine import OBLIGATIONS

load_rules()

CLAIMS = {
    "C01": "the commit-advance closure: every writer of the commit index is monotone-guarded and every call that can raise it is term-matched, prefix-matched, quorum-derived, snapshot-matched or sender-capped; heartbeat commit is capped by the follower's match; vote grants need is_up_to_date; hand-off bounds. NOT decided: cross-node agreement over schedules/crash points (a distributed inductive invariant).",
    "C02": "one vote per term per incarnation by construction of the writers of term/vote (reset/candidate/grant/load idioms, grant only if vote free or repeated, with kill analysis), leadership only behind a joint-majority Won tallied after recording the response of the right kind, lower-term traffic returns without effect, grants are persisted-messages, term stamped on replies. NOT decided: that no two candidates reach Won in one term across crashes/reconfiguration.",
    "C03": "the election restriction is decided exactly for every vote/pre-vote response the code can emit (reject possibly false => is_up_to_date(m.index, m.log_term) dominates the send), is_up_to_date's truth table, what a candidate advertises, vote-carried commit only on a term match. NOT decided: leader completeness itself (needs C01/C04 globally).",
    "C04": "the inputs of the leader's commit computation: acked_index reads Progress.matched; matched rises only on a non-rejecting append response, on the leader's own persistence notice behind maybe_persist's three guards, or after snapshot install; commit only through the term-matched function with the node's own term; quorum arithmetic shapes; followers commit min(leader commit, last new index) / capped heartbeat commit. NOT decided: that an acknowledgement reflects durable state on the peer at every crash point.",
    "C05": "a leader never truncates (call-graph fact: nothing reachable from the leader dispatcher reaches the truncating append or a log restore); follower appends only onto a matching (prev index, prev term); the appended suffix starts at the first conflicting entry; leader entries are stamped (term, last+1+i); append anchors; commit index monotone. NOT decided: the pairwise log-matching invariant.",
    "C06": "persist-before-send as code shape: Ready.is_persisted_msg is true on every path except for a leader whose Ready carries no new term or vote (release gate, finding F4 fixed in 19ba125) and the four accessors partition on it, must_sync on term/vote change, hard state = (term, vote, commit) reloaded on restart whenever it is not the default one (the test dominates the constructor's success), all messages leave through send() which stamps the term, the leader's self-acknowledgement waits for persistence, Storage is read-only to the library. NOT decided: the crash-point quantifier (what the application has fsynced when).",
    "C07": "hand-off bounds (next_entries_since and has_next_entries_since agree on max(since+1, first) .. min(committed, persisted+limit)), has_ready/ready source-set agreement, LightReady.commit_index handed out exactly when the commit index is above prev_hs.commit, ReadyRecord bookkeeping order in advance*/on_persist_ready, must_sync triggers, persisted lowered on truncation/restore. NOT decided: exactly-once/no-gap delivery over every interleaving of ready/advance/on_persist_ready (a history property).",
    "C08": "Safe ReadIndex gates: own-term commit before serving, recorded index = commit index at registration, advance only behind has_quorum(recv_ack(from, ctx)) for the same ctx, read state dropped on every reset, routing of responses to the requester, stale leaders' heartbeats never acknowledged. NOT decided: linearizability over real-time orders.",
    "C09": "the proposal filter (one pending conf change; joint/leave preconditions), pending_conf_index writers, campaign gate on unapplied conf changes, promotable has one writer (voters.contains(self.id)) and gates both self-campaign sites, apply dispatch and ConfState round-trip field exhaustiveness. NOT decided: 'configuration is a function of the applied log' across nodes.",
    "C10": "NARROW: only the un-stall pairings (heartbeat response resumes/free-one/re-sends, reject -> decrement + probe, snapshot status leaves Snapshot, timers fire campaigns/heartbeats/check-quorum, lower-term unstick replies, has_ready agreement). NOT decided: anything quantitative (bounded-time election, convergence, commitment).",
    "C11": "majority(n) = n/2+1 used for both commit and votes over the set iterated; sort-descending + [q-1] pick; vote tally truth table (yes>=q Won; yes+missing>=q Pending; else Lost); joint = min / 3x3 vote table decided exactly from return paths; stack-array bound. NOT decided: the group-commit equality clause.",
    "C12": "type-level immutability of a rejected change (Changer holds &ProgressTracker, tracker is Freeze), apply_conf only on Ok, the joint/simple/leave guards, disjointness moves in make_voter/make_learner/remove, progress map synchronisation. NOT decided: invariant preservation and quorum intersection over all reachable configurations.",
    "C13": "pause gate before every append/snapshot build, window accounting after every entry-carrying append, entries fetched with max_msg_size, heartbeat commit cap, single exit, leader stamping, uncommitted-size admission shape and release. NOT decided: the numeric bounds over all ack/reject orders (they need the Inflights arithmetic, C18).",
    "C14": "NARROW: the guard clauses only (applied/committed/persisted/offset writers and their guards, unstable-first dispatch, limit_size shape, no append at or below commit). NOT decided: observational equivalence with a sequence model.",
    "C15": "snapshot install guards (not behind commit, follower, member, not already matching unless requested), log reset shape, send gate and become_snapshot pairing, resume point, response index, ConfState round-trip. NOT decided: state equality with a node that applied the log.",
    "C16": "handling a pre-vote request writes neither term nor vote (decided exactly, for every state, by constrained reachability over step and its callees), pre-candidate transition has term/vote outside its mod-set, term bump gate, response terms, lease gate, check-quorum step-down and activity marks. NOT decided: the lock-step non-disruption theorem.",
    "C17": "MsgTimeoutNow only behind matched == last_index, proposals refused while transferring, transferee writers validated (known, not learner, not self) and aborted on timeout/reset/removal, forced campaign bypasses the lease exactly for CAMPAIGN_TRANSFER, promotable gate. NOT decided: the outcome of a completed transfer.",
    "C19": "NARROW: bounds-guard dominance for every index into MemStorageCore.entries, the error mapping, mutation preconditions, snapshot construction, size limiting. NOT decided: model equivalence over mutation histories.",
    "C20": "RawNode::step's filter (local types and responses from unknown peers are rejected with an error before any &mut call) decided exactly; MessageType partition; every unwrap of a progress lookup has membership evidence. NOT decided: reachability of the remaining panic-capable sites under the contract.",
}

TECH = {
    "C01": "who-may-write/who-may-call tables + guard-dominates-site over MIR with kill analysis; message-template value shapes",
    "C02": "who-may-write + guard-dominates-write (CNF of must-pass edges, kill analysis) over MIR; constrained reachability; message templates",
    "C03": "message-template dataflow + guard-dominates-send; return-shape truth table",
    "C04": "who-may-call/argument-source tables, guard dominance, return-shape checks over MIR",
    "C05": "call-graph must-not-reach + guard dominance + value-shape checks over MIR",
    "C06": "value-shape/sibling agreement on Ready accessors, who-may-write tables, trait signature facts",
    "C07": "sibling agreement and value-shape checks over MIR; call-order (must-pass-through) checks",
    "C08": "guard-dominates-call, value-shape and who-may-write checks over MIR",
    "C09": "guard dominance with selector-local splitting, who-may-write tables, exhaustiveness over ADT fields",
    "C10": "pairing (must-pass-through) checks per handler arm over MIR",
    "C11": "return-path enumeration of small pure functions, exact finite truth tables",
    "C12": "type facts (Freeze, &-borrow) + guard/value-shape checks over MIR",
    "C13": "guard dominance, pairing and message-template checks over MIR",
    "C14": "who-may-write tables and guard dominance over MIR",
    "C15": "guard dominance (CNF), message templates, value shapes over MIR",
    "C16": "constrained reachability (must-not-reach under a message-type assumption) with rooted mod-sets; guard dominance",
    "C17": "guard-dominates-call with caller context, who-may-write tables over MIR",
    "C19": "bounds-guard dominance for every indexing site over MIR",
    "C20": "guard dominance, exhaustiveness over MessageType, dominating-lookup evidence for unwraps",
}


def main():
    props = [json.loads(l) for l in open(os.path.join(HERE, "properties.jsonl"))]
    by_prop = {}
    for o in OBLIGATIONS:
        for p in o["props"]:
            by_prop.setdefault(p, []).append(o["name"])
    ready = set(sys.argv[1:]) if len(sys.argv) > 1 else None
    # a property is claimed only when its primary obligation group is implemented (see READY file)
    rf = os.path.join(HERE, "CLAIMED")
    claimed = [l.strip() for l in open(rf)] if os.path.exists(rf) else []
    checks = []
    na = []
    for p in props:
        pid = p["id"]
        if pid in claimed and pid in by_prop:
            checks.append({
                "property_id": pid,
                "quick_cmd": "./check %s --tier quick" % pid,
                "thorough_cmd": "./check %s --tier thorough" % pid,
                "evidence_file": "/verif/evidence/%s.json" % pid,
                "replay_cmd_template": "./check --replay {path}",
                "engine": "raftlint",
                "level_claimed": {
                    "category": "other",
                    "text": "Static decision of structural NECESSARY conditions of %s over all paths of the current source, not of %s's behaviour. Decided: %s Obligations: %s." % (pid, pid, CLAIMS[pid], ", ".join(by_prop[pid])),
                    "design_ref": "DESIGN.md sections 5 and 6 (%s)" % pid,
                },
                "level_note": "Trusted base: rustc nightly front end/MIR/Instance resolution, the mirfacts exporter, the idiom tables of DESIGN section 5. Assumes the application does not write pub fields directly, uses the RawNode API as documented, and Storage implementations honour the trait contract. Guards are read path-insensitively (over-approximate paths); aliasing follows Rust ownership (effects rooted at parameters).",
                "technique": "static analysis: " + TECH[pid],
            })
        elif pid == "C18":
            na.append({"property_id": pid, "reason": "observational equivalence with a bounded FIFO under wrap-around and resizing is a relational numeric invariant over (start, count, cap, incoming_cap, buffer.len()) across all operation histories; no dataflow/typestate/effect analysis in reach decides it and every shape rule on the ring arithmetic would be a frozen-fragment proxy (DESIGN section 6, C18)"})
        else:
            na.append({"property_id": pid, "reason": "static checker for this property is not finished yet in this build round (obligations designed in DESIGN.md section 5); not claimed until its rules run green and are audited"})
    m = {
        "version": 1,
        "setup_cmd": "./check --setup",
        "hooks": {
            "guard": "tikv_raft_rs_verif",
            "enable": "none: static analysis reads the unmodified source; the guard name is reserved and unused",
            "baseline_off_cmd": "cd /repo && cargo test --workspace --no-fail-fast --offline",
            "source_commits": [],
            "add_only": True,
        },
        "engines": [
            {"name": "mirfacts", "path": "driver/", "serves_properties": [c["property_id"] for c in checks], "kind_free_text": "rustc_private driver (RUSTC_WORKSPACE_WRAPPER under cargo +nightly check) exporting MIR, ADT tables and resolved callees of crates raft and raft_proto as JSON facts"},
            {"name": "raftlint", "path": "raftlint/", "serves_properties": [c["property_id"] for c in checks], "kind_free_text": "python rule engine: value-expression reconstruction, labelled product graph (guard dominance with kill analysis, constrained reachability, return-path enumeration), rooted mod-sets, message-template dataflow, obligation tables"},
        ],
        "checks": checks,
        "notes": "Family: static analysis only. Every verdict is computed from /repo's current working tree (facts are cached by a content hash of the sources and re-exported when anything changes). See DESIGN.md.",
        "not_applicable": na,
    }
    json.dump(m, open(os.path.join(HERE, "MANIFEST.json"), "w"), indent=1)
    print("claimed:", [c["property_id"] for c in checks])
    print("not applicable:", [n["property_id"] for n in na])


if __name__ == "__main__":
    main()
