//! Positive / negative controls for the raftlint engine (DESIGN §3.5). One conforming and one
//! violating instance per engine primitive; pushed through the same exporter and queries on every run.
#![allow(dead_code)]

#[derive(Clone, Copy, PartialEq, Eq, Debug)]
pub enum Kind {
    A,
    B,
    C,
}

#[derive(Default)]
pub struct Msg {
    pub kind: u8,
    pub to: u64,
    pub index: u64,
    pub flag: bool,
}

impl Msg {
    pub fn set_index(&mut self, v: u64) {
        self.index = v;
    }
    pub fn get_to(&self) -> u64 {
        self.to
    }
}

pub struct St {
    pub a: u64,
    pub b: u64,
    pub out: Vec<Msg>,
}

#[inline(never)]
pub fn check(x: u64) -> bool {
    x % 7 == 3
}

#[inline(never)]
pub fn note() {}

impl St {
    #[inline(never)]
    pub fn sink(&mut self, x: u64) {
        self.b = x;
    }

    #[inline(never)]
    pub fn send(&mut self, m: Msg) {
        self.out.push(m);
    }

    // ---- guard dominance
    pub fn guarded_ok(&mut self, x: u64) {
        if !check(x) {
            return;
        }
        note();
        self.sink(x);
    }
    pub fn guarded_bad(&mut self, x: u64) {
        if check(x) {
            note();
        }
        self.sink(x);
    }

    // ---- bool-local splitting: let c = p || (q && r)
    pub fn split_ok(&mut self, p: bool, q: bool, x: u64) {
        let c = p || (q && check(x));
        if c && self.a > 0 {
            self.sink(x);
        }
    }
    pub fn split_bad(&mut self, p: bool, q: bool, x: u64) {
        let c = p || q || check(x);
        if c && self.a > 0 {
            self.sink(x);
        }
    }

    // ---- kill analysis: the guard's input is overwritten before the site
    pub fn kill_ok(&mut self, x: u64) {
        if self.a == 1 {
            self.b = 5;
            self.sink(x);
        }
    }
    pub fn kill_bad(&mut self, x: u64) {
        if self.a == 1 {
            self.bump();
            self.sink(x);
        }
    }
    #[inline(never)]
    fn bump(&mut self) {
        self.a += 1;
    }

    // ---- constrained reachability
    pub fn dispatch(&mut self, k: Kind, x: u64) {
        match k {
            Kind::A => note(),
            Kind::B => self.sink(x),
            Kind::C => {
                if k == Kind::A {
                    self.sink(x)
                }
            }
        }
    }

    // ---- message template with setter + fragment + early return
    pub fn build_and_send(&mut self, to: u64, x: u64) {
        let mut m = Msg::default();
        m.to = to;
        if !self.fill(&mut m, x) {
            return;
        }
        m.set_index(x + 1);
        self.send(m);
    }
    fn fill(&mut self, m: &mut Msg, x: u64) -> bool {
        if x == 0 {
            return false;
        }
        m.kind = 2;
        m.flag = true;
        true
    }

    // ---- pairing
    pub fn pair_ok(&mut self, x: u64) {
        if check(x) {
            self.sink(x);
        }
    }
    pub fn pair_bad(&mut self, x: u64) {
        if check(x) && self.a > 3 {
            self.sink(x);
        }
    }
}

// ---- return shape / truth table
pub fn three_way(a: u64, b: u64) -> Kind {
    if a < b {
        Kind::A
    } else if a == b {
        Kind::B
    } else {
        Kind::C
    }
}
