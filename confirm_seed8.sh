#!/bin/bash
# usage: confirm_seed8.sh <ID> [round=8]  -- re-confirm a round-8 seed (refactoring A, refactoring+bug A+B) in its scratch worktree
P=$1; R=${2:-8}; W=/tmp/seed${R}_$P; T=/tmp/seed${R}_${P}_target; lc=$(echo $P | tr A-Z a-z)
cd $W || exit 2
export CARGO_NET_OFFLINE=true CARGO_TARGET_DIR=$T
cmp <(git diff -- src proto) OUT/patch.diff && echo "patch.diff matches worktree"
suite() { timeout 1500 cargo test --workspace --no-fail-fast --offline 2>&1 | grep -E "^test result|Running|warning: unused|^error" | grep -v "seed${R}_" | awk '/Running/{r=$0;next} /test result/{ if ($0 !~ /ok\./) print r"\n"$0; n++; p+=$4 } /^error|^warning/{print} END{print "targets="n" passed="p}'; }
demo() { timeout 600 cargo test --offline -p harness --test seed${R}_$lc 2>&1 | grep -E "^test result|panicked|^error" | head -5; }
echo "--- suite with A+B (existing targets; failures listed)"; suite
echo "--- demo with A+B (expect FAIL)"; demo
git checkout -- src proto
echo "--- demo on original (expect ok)"; demo
git apply OUT/refactor_only.diff || echo "refactor_only.diff DOES NOT APPLY"
echo "--- suite with A"; suite
echo "--- demo with A (expect ok)"; demo
git checkout -- src proto
git apply OUT/patch.diff
