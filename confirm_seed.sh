#!/bin/bash
# usage: confirm_seed.sh <Cxx>   -- re-confirm an agent's seeded change inside its scratch worktree
P=$1; R=${2:-}; W=/tmp/seed${R}_$P; T=/tmp/seed${R}_${P}_target; lc=$(echo $P | tr A-Z a-z)
cd $W || exit 2
export CARGO_NET_OFFLINE=true CARGO_TARGET_DIR=$T
git stash list | head -2
echo "--- suite with change (existing targets)"
cargo test --workspace --no-fail-fast --offline 2>&1 | grep -E "^test result|Running|FAILED" | grep -B1 -E "FAILED|failed;" | grep -v "^--" | head -20
echo "--- demo with change (expect FAIL)"
cargo test --offline -p harness --test seed${R}_$lc 2>&1 | grep -E "^test result|panicked" | head -5
git diff -- src proto > /tmp/seed${R}_$P.chk.diff
git checkout -- src proto
echo "--- demo without change (expect ok)"
cargo test --offline -p harness --test seed${R}_$lc 2>&1 | grep -E "^test result|panicked" | head -5
git apply /tmp/seed${R}_$P.chk.diff
cmp <(git diff -- src proto) OUT/patch.diff && echo "patch.diff matches worktree"
