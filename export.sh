#!/bin/bash
# usage: export.sh <repo-dir> <cfg: pb|prost> <out-dir> [crates]
# Runs the mirfacts exporter over <repo-dir> (cargo +nightly check with the driver as wrapper).
set -u
REPO=$1; CFG=$2; OUT=$3; CRATES=${4:-raft,raft_proto}
HERE=$(cd "$(dirname "$0")" && pwd)
SYSROOT=$(rustc +nightly --print sysroot)
export LD_LIBRARY_PATH=$SYSROOT/lib${LD_LIBRARY_PATH:+:$LD_LIBRARY_PATH}
TARGET=${MIRFACTS_TARGET:-$HERE/.work/target-$CFG}
mkdir -p "$OUT" "$TARGET"
rm -f "$OUT"/*.json
# cargo must not replay a cached run of the workspace members: drop their fingerprints
rm -rf "$TARGET"/debug/.fingerprint/raft-* "$TARGET"/debug/.fingerprint/raft_proto-* "$TARGET"/debug/.fingerprint/raft-proto-* 2>/dev/null
rm -rf "$TARGET"/debug/.fingerprint/fixtures-* 2>/dev/null
FEATS=()
if [ "$CFG" = prost ]; then FEATS=(--no-default-features --features prost-codec); fi
cd "$REPO" || exit 2
MIRFACTS_OUT="$OUT" MIRFACTS_CRATES="$CRATES" MIRFACTS_NONCE="${MIRFACTS_NONCE:-none}" \
RUSTFLAGS="-Zmir-opt-level=0 -Awarnings -Coverflow-checks=off -Cdebug-assertions=off" \
RUSTC_WORKSPACE_WRAPPER="$HERE/driver/target/release/mirfacts" \
CARGO_TARGET_DIR="$TARGET" CARGO_NET_OFFLINE=true CARGO_INCREMENTAL=0 \
cargo +nightly check --offline ${MIRFACTS_PKG:--p raft} --lib "${FEATS[@]}" 2>&1
